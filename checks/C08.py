"""C08 - cone-algebra kernels match their definition, compiled and pure-Python."""
import math, itertools
from mc import dom
from mc.ref import cone as R

PROPERTY = 'C08'
LEVEL = 'exploration'
FLAVOURS = ('plain', 'asan')
# plain flavour under the glibc malloc checker: a byte written past the end of a heap block by the (uninstrumented) Fortran
# library aborts the process in free() and is reported as a killed interpreter
EXTRA_ENV = {'plain': {'LD_PRELOAD': '/lib/x86_64-linux-gnu/libc_malloc_debug.so.0', 'MALLOC_CHECK_': '3'}}
RULE = ('every (kernel, cone structure, mnl, flag combination, offset, scaling variant) in the bounded domain; '
        'each case applies the kernel to every standard basis vector and two palette vectors, on the compiled '
        'module, on the in-tree Python fallback (misc.py executed with use_C=False) and on an independent '
        'reference; non-trivial = the kernel changed or read at least one entry of a non-empty block')
ASSUME = ['strict upper triangles of "s" blocks in outputs are treated as undefined (never compared)',
          'floating-point agreement within 1e-10 relative to the magnitudes involved',
          'ASan flavour observes only accesses made by cvxopt\'s own C code']
BOUNDS = {'quick': 'quick subset of D_small (cdim<=6 + 4 mixed), mnl in {0,1,2}, offsets {0,1,3}, 2 scaling variants',
          'thorough': 'all 126 structures of D_small, mnl in {0,1,2}, offsets {0,1,3}, 4 scaling variants'}

TOL = 1e-10
SENT = -777.25
KERNELS = ['scale', 'scale2', 'pack', 'pack2', 'unpack', 'sdot', 'snrm2', 'sgemv', 'trisc', 'triusc', 'symm',
           'sprod', 'ssqr', 'sinv', 'max_step', 'jdot', 'jnrm2']


def cases(tier, seed, flavour):
    # (+ two 's' blocks of different orders >= 2: the fallback kernels share one workspace of the largest order)
    structs = dom.structures(tier) + [{'l': 1, 'q': [2], 's': [3, 2]}, {'l': 0, 'q': [], 's': [1, 2, 2]},
                                      {'l': 1, 'q': [], 's': [2, 1, 3]}, {'l': 0, 'q': [2], 's': [2, 2, 1, 2]}]
    nvar = 4 if tier == 'thorough' else 2
    variants = [(seed * nvar + i) for i in range(nvar)]
    if flavour == 'asan' and tier == 'quick':
        structs = [d for d in structs if R.cdim(d) <= 6]
        variants = variants[:1]
    for d in structs:
        for mnl in (0, 1, 2):
            for var in variants:
                for tr in 'NT':
                    for inv in 'NI':
                        for nc in (1, 2):
                            yield {'f': 'scale', 'dims': d, 'mnl': mnl, 'var': var, 'trans': tr, 'inverse': inv, 'nc': nc}
                for inv in 'NI':
                    yield {'f': 'scale2', 'dims': d, 'mnl': mnl, 'var': var, 'inverse': inv}
                for f in ('sprod',):
                    for dg in 'ND':
                        yield {'f': f, 'dims': d, 'mnl': mnl, 'var': var, 'diag': dg}
                for f in ('ssqr', 'sinv', 'sdot', 'snrm2'):
                    yield {'f': f, 'dims': d, 'mnl': mnl, 'var': var}
                for sg in (False, True):
                    yield {'f': 'max_step', 'dims': d, 'mnl': mnl, 'var': var, 'sigma': sg}
            for ox in (0, 1, 3):
                for oy in (0, 1, 3):
                    yield {'f': 'pack', 'dims': d, 'mnl': mnl, 'ox': ox, 'oy': oy}
                    yield {'f': 'unpack', 'dims': d, 'mnl': mnl, 'ox': ox, 'oy': oy}
            for nc in (1, 2):
                yield {'f': 'pack2', 'dims': d, 'mnl': mnl, 'nc': nc}
        for off in (0, 1, 3):
            yield {'f': 'trisc', 'dims': d, 'off': off}
            yield {'f': 'triusc', 'dims': d, 'off': off}
        for var in variants:
            for tr in 'NT':
                for (al, be) in ((1.0, 0.0), (-2.0, 1.0), (0.0, 1.0), (1.0, -0.5)):
                    for sp in (False, True):
                        for (oa, ox, oy) in ((0, 0, 0), (1, 0, 2), (0, 3, 1)):
                            yield {'f': 'sgemv', 'dims': d, 'var': var, 'trans': tr, 'alpha': al, 'beta': be,
                                   'sparse': sp, 'oa': oa, 'ox': ox, 'oy': oy}
    for n in (0, 1, 2, 3, 4):
        for off in (0, 1, 3):
            yield {'f': 'symm', 'n': n, 'off': off}
    for m in (1, 2, 3, 4):
        for ox in (0, 1, 3):
            for oy in (0, 2):
                for dflt in (False, True):
                    yield {'f': 'jdot', 'm': m, 'ox': ox, 'oy': oy, 'default_n': dflt}
            for dflt in (False, True):
                yield {'f': 'jnrm2', 'm': m, 'ox': ox, 'default_n': dflt}


# ------------------------------------------------------------------ helpers
def _vectors(N, var):
    """standard basis of R^N plus two palette vectors."""
    vs = []
    for i in range(N):
        e = [0.0] * N
        e[i] = 1.0
        vs.append(e)
    pal = [[-1.5, 2.0, 0.5, 3.0, -0.25], [2.0, -1.0, 0.75, -3.0, 1.5]]
    for p in pal:
        vs.append([p[(i + var) % len(p)] * (1 + (i % 3)) for i in range(N)])
    return vs


def _upper_mask(dims, mnl, base=0):
    """set of indices (relative to block vector start) in the strict upper triangles of 's' blocks."""
    up = set()
    for kind, off, m in R.blocks(dims, mnl):
        if kind == 's':
            for j in range(m):
                for i in range(j):
                    up.add(base + off + j * m + i)
    return up


class Cmp(object):
    def __init__(self):
        self.viol = []
        self.maxerr = 0.0
        self.n = 0
        self.nontrivial = 0

    def vec(self, what, got, want, skip=(), scale=1.0, key=None, sub=None):
        if len(got) != len(want):
            self.viol.append({'key': key, 'msg': '%s: length %d != %d' % (what, len(got), len(want)), 'sub': sub})
            return False
        mag = max([1.0, scale] + [abs(t) for t in want if t == t and abs(t) != float('inf')])
        for i, (g, w) in enumerate(zip(got, want)):
            if i in skip:
                continue
            e = abs(g - w) / mag if (g == g and w == w) else (0.0 if (g != g and w != w) else float('inf'))
            if e > self.maxerr and e != float('inf'):
                self.maxerr = e
            if not e <= TOL:
                self.viol.append({'key': key, 'msg': '%s: entry %d got %r want %r (rel err %.3g)' % (what, i, g, w, e),
                                  'sub': sub})
                return False
        return True

    def exact(self, what, got, want, idx, key=None, sub=None):
        for i in idx:
            if got[i] != want[i] and not (got[i] != got[i] and want[i] != want[i]):
                self.viol.append({'key': key, 'msg': '%s: entry %d changed from %r to %r (must be untouched)'
                                  % (what, i, want[i], got[i]), 'sub': sub})
                return False
        return True

    def scalar(self, what, got, want, scale=1.0, key=None, sub=None):
        return self.vec(what, [got], [want], scale=scale, key=key, sub=sub)


def _subjects():
    from mc import cvx
    import cvxopt.misc as misc
    return [('C', misc), ('py', cvx.misc_py())]


def crash_key(case):
    return '%s' % case.get('f')


def run(case):
    from mc import cvx
    from cvxopt import matrix, spmatrix, sparse
    f = case['f']
    c = Cmp()
    subs = _subjects()
    outs = {}
    try:
        for name, mod in subs:
            fn = getattr(mod, f)
            K = 'C08:%s:%s' % (f, name)
            _run_kernel(f, fn, case, c, K, name, mod)
    except Exception as e:  # an exception from a kernel on valid input is a violation
        import traceback
        c.viol.append({'key': 'C08:%s:exception:%s' % (f, type(e).__name__), 'msg': traceback.format_exc()[-1500:]})
    return {'n': c.n, 'nontrivial': c.nontrivial, 'viol': c.viol, 'maxerr': {'kernel': c.maxerr},
            'outcomes': {f: c.n}}


def _mk(L):
    from mc.cvx import dmat
    return dmat(L)


def _run_kernel(f, fn, case, c, K, subj, mod):
    from cvxopt import matrix, spmatrix, sparse
    from mc import cvx
    if f in ('symm', 'jdot', 'jnrm2'):
        return _run_small(f, fn, case, c, K)
    d = case['dims']
    mnl = case.get('mnl', 0)
    N = R.cdim(d, mnl)
    var = case.get('var', 0)
    up = _upper_mask(d, mnl)
    nt = 1 if N > 0 else 0

    if f == 'scale':
        W = dom.genericW(d, mnl, var)
        Wc = cvx.W_from_ref(W)
        if not mnl:
            Wc.pop('dnl', None); Wc.pop('dnli', None)
        nc = case['nc']
        vs = _vectors(N, var)
        wn = _wnorm(W)
        for i in range(0, len(vs)):
            colsx = [vs[i]] + ([vs[(i + 1) % len(vs)]] if nc == 2 else [])
            flat = []
            for col in colsx:
                flat += col + [SENT, SENT]
            x = matrix(flat, (N + 2, nc)) if flat else matrix(0.0, (N + 2, nc))
            before = list(x)
            fn(x, Wc, trans=case['trans'], inverse=case['inverse'])
            after = list(x)
            c.n += 1
            c.nontrivial += nt
            for j, col in enumerate(colsx):
                want = R.apply_W(col, W, case['trans'], case['inverse'])
                got = after[j * (N + 2): j * (N + 2) + N]
                sub = {'x': col, 'col': j}
                if not c.vec('scale', got, want, skip=up, scale=wn, key=K + ':value', sub=sub):
                    return
                if not c.exact('scale upper/sentinel', after, before,
                               [j * (N + 2) + t for t in up] + [j * (N + 2) + N, j * (N + 2) + N + 1],
                               key=K + ':footprint', sub=sub):
                    return
            # algebraic identities on the implementation itself (first column)
            if i >= N:
                x1 = _mk(vs[i]); y1 = _mk(vs[(i + 1) % len(vs)])
                xs = +x1
                fn(xs, Wc, trans=case['trans'], inverse=case['inverse'])
                back = +xs
                fn(back, Wc, trans=case['trans'], inverse='I' if case['inverse'] == 'N' else 'N')
                if not c.vec('scale then inverse', list(back), vs[i], skip=up, scale=wn * wn, key=K + ':inverse-identity'):
                    return
                ys = +y1
                fn(ys, Wc, trans='T' if case['trans'] == 'N' else 'N', inverse=case['inverse'])
                # <Wx, y> = <x, W'y> in the S inner product (symmetric data: symmetrise first)
                xa, ya = _symv(list(x1), d, mnl), _symv(list(y1), d, mnl)
                xsa = _mk(xa); fn(xsa, Wc, trans=case['trans'], inverse=case['inverse'])
                ysa = _mk(ya); fn(ysa, Wc, trans='T' if case['trans'] == 'N' else 'N', inverse=case['inverse'])
                lhs = R.sdot(list(xsa), ya, d, mnl)
                rhs = R.sdot(xa, list(ysa), d, mnl)
                if not c.scalar('<Wx,y>=<x,W^T y>', lhs, rhs, scale=wn * 100, key=K + ':adjoint-identity'):
                    return
        return

    if f == 'scale2':
        lam = dom.interior(d, mnl, var)
        lamd = _diag_layout(lam, d, mnl)
        for v in _vectors(N, var):
            x = _mk(v + [SENT, SENT])
            fn(_mk(lamd), x, d, mnl, inverse=case['inverse']) if False else fn(_mk(lamd), x, d, mnl=mnl, inverse=case['inverse'])
            c.n += 1; c.nontrivial += nt
            got = list(x)
            want = R.scale2(lamd, v, d, mnl, case['inverse'])
            if not c.vec('scale2', got[:N], want, scale=10.0, key=K + ':value', sub={'x': v}):
                return
            if got[N:] != [SENT, SENT]:
                c.viol.append({'key': K + ':footprint', 'msg': 'scale2 wrote past the vector'}); return
        # inverse undoes
        v = _vectors(N, var)[-1] if N else []
        x = _mk(v)
        fn(_mk(lamd), x, d, mnl=mnl, inverse=case['inverse'])
        fn(_mk(lamd), x, d, mnl=mnl, inverse='I' if case['inverse'] == 'N' else 'N')
        c.vec('scale2 inverse identity', list(x), v, scale=100.0, key=K + ':inverse-identity')
        return

    if f in ('pack', 'unpack'):
        ox, oy = case['ox'], case['oy']
        Np = R.cdim_packed(d, mnl)
        for v in _vectors(N if f == 'pack' else Np, 0):
            if f == 'pack':
                xin = [SENT] * ox + v + [SENT]
                yin = [55.5 + t for t in range(oy + Np + 1)]
                x, y = _mk(xin), _mk(yin)
                fn(x, y, d, mnl=mnl, offsetx=ox, offsety=oy)
                c.n += 1; c.nontrivial += nt
                want = R.pack(v, d, mnl)
                got = list(y)
                if not c.vec('pack', got[oy:oy + Np], want, key=K + ':value', sub={'x': v}): return
                if not c.exact('pack outside', got, yin, list(range(oy)) + [oy + Np], key=K + ':footprint'): return
                if list(x) != xin:
                    c.viol.append({'key': K + ':input-modified', 'msg': 'pack modified x'}); return
            else:
                xin = [SENT] * ox + v + [SENT]
                yin = [55.5 + t for t in range(oy + N + 1)]
                x, y = _mk(xin), _mk(yin)
                fn(x, y, d, mnl=mnl, offsetx=ox, offsety=oy)
                c.n += 1; c.nontrivial += nt
                want = R.unpack(v, d, mnl)
                got = list(y)
                if not c.vec('unpack', got[oy:oy + N], want, skip=up, key=K + ':value', sub={'x': v}): return
                if not c.exact('unpack outside', got, yin, list(range(oy)) + [oy + N], key=K + ':footprint'): return
                if list(x) != xin:
                    c.viol.append({'key': K + ':input-modified', 'msg': 'unpack modified x'}); return
                # unpack(pack(x)) = x on symmetric data
        if f == 'pack' and N:
            v = _symv(_vectors(N, 1)[-1], d, mnl)
            y = _mk([0.0] * (Np + oy)); fn(_mk([0.0] * ox + v), y, d, mnl=mnl, offsetx=ox, offsety=oy)
            z = _mk([0.0] * (N + 1))
            getattr(mod, 'unpack')(y, z, d, mnl=mnl, offsetx=oy, offsety=1)
            c.vec('unpack(pack(x))', list(z)[1:], v, skip=up, key=K + ':roundtrip')
        return

    if f == 'pack2':
        nc = case['nc']
        Np = R.cdim_packed(d, mnl)
        vs = _vectors(N, 0)
        for i in range(len(vs)):
            colsx = [vs[i]] + ([vs[(i + 1) % len(vs)]] if nc == 2 else [])
            flat = []
            for col in colsx:
                flat += col + [SENT]
            x = matrix(flat, (N + 1, nc)) if flat else matrix(0.0, (N + 1, nc))
            fn(x, d, mnl=mnl) if mnl else fn(x, d)
            c.n += 1; c.nontrivial += nt
            got = list(x)
            for j, col in enumerate(colsx):
                want = R.pack(col, d, mnl)
                if not c.vec('pack2', got[j * (N + 1): j * (N + 1) + Np], want, key=K + ':value', sub={'x': col}): return
                if got[j * (N + 1) + N] != SENT:
                    c.viol.append({'key': K + ':footprint', 'msg': 'pack2 wrote past the column'}); return
        return

    if f in ('sdot', 'snrm2'):
        vs = _vectors(N, var)
        for i in range(len(vs)):
            a, b = vs[i], vs[(i + 2) % len(vs)] if vs else []
            xa, xb = _mk(a + [SENT]), _mk(b + [SENT])
            ia, ib = list(xa), list(xb)
            if f == 'sdot':
                got = fn(xa, xb, d, mnl=mnl) if mnl else fn(xa, xb, d)
                want = R.sdot(a, b, d, mnl)
            else:
                got = fn(xa, d, mnl=mnl) if mnl else fn(xa, d)
                want = R.snrm2(a, d, mnl)
            c.n += 1; c.nontrivial += nt
            if not c.scalar(f, got, want, scale=50.0, key=K + ':value', sub={'x': a, 'y': b}): return
            if list(xa) != ia or list(xb) != ib:
                c.viol.append({'key': K + ':input-modified', 'msg': f + ' modified its input'}); return
            if f == 'snrm2' and a:
                # the same vector (and its all-negative image) scaled by an exact power of two so small that the squares
                # underflow: the norm of a nonzero vector is still its norm (2^-520 * reference), never 0, negative or inf
                for t in (a, [-abs(u) for u in a]):
                    xs = _mk([u * 2.0 ** -520 for u in t])
                    got = fn(xs, d, mnl=mnl) if mnl else fn(xs, d)
                    want = R.snrm2(t, d, mnl)
                    c.n += 1; c.nontrivial += nt
                    if not (got == got and abs(got * 2.0 ** 520 - want) <= 1e-12 * max(1.0, want)):
                        c.viol.append({'key': K + ':value:tiny-vector', 'msg': 'snrm2 of 2^-520 * x is %r, 2^-520 * %r expected'
                                       % (got, want), 'sub': {'x': t}}); return
        return

    if f in ('trisc', 'triusc'):
        off = case['off']
        N0 = R.cdim(d)
        for v in _vectors(N0, 0):
            xin = [SENT] * off + v + [SENT]
            x = _mk(xin)
            fn(x, d, offset=off) if off else fn(x, d)
            c.n += 1; c.nontrivial += 1 if d['s'] and max(d['s']) > 1 else 0
            want = (R.trisc if f == 'trisc' else R.triusc)(xin, d, off)
            if not c.vec(f, list(x), want, key=K + ':value', sub={'x': v}): return
        return

    if f == 'sgemv':
        N0 = R.cdim(d)
        ncol = 2
        oa, ox, oy = case['oa'], case['ox'], case['oy']
        tr = case['trans']
        # A: N0 x (ncol + oa) ; offsetA in units of entries: use whole columns offset oa*N0
        Acols = _vectors(N0, var)[-2:] if N0 else [[], []]
        Acols = [list(a) for a in Acols]
        extra = [[float(i + 1) for i in range(N0)]] * oa
        allcols = extra + Acols
        Am = cvx.from_cols(allcols, N0)
        if case['sparse']:
            Am = sparse(Am)
        up0 = _upper_mask(d, 0)
        xs = _vectors(ncol if tr == 'N' else N0, var)
        for v in xs:
            ylen = N0 if tr == 'N' else ncol
            xin = [SENT] * ox + v + [SENT]
            yin = [3.0 - t for t in range(oy + ylen + 1)]
            x, y = _mk(xin), _mk(yin)
            Abefore = cvx.image(Am)
            fn(Am, x, y, d, trans=tr, alpha=case['alpha'], beta=case['beta'], n=ncol,
               offsetA=oa * N0, offsetx=ox, offsety=oy)
            c.n += 1; c.nontrivial += 1 if N0 else 0
            if tr == 'N':
                prod = R.Gx(Acols, v, N0)
            else:
                prod = R.GTz(Acols, v, d)
            want = [case['alpha'] * p + (case['beta'] * yin[oy + i] if case['beta'] != 0.0 else 0.0)
                    for i, p in enumerate(prod)]
            got = list(y)
            sub = {'x': v}
            if not c.vec('sgemv', got[oy:oy + ylen], want, scale=100.0, key=K + ':value', sub=sub): return
            if not c.exact('sgemv outside y', got, yin, list(range(oy)) + [oy + ylen], key=K + ':footprint', sub=sub): return
            xa = list(x)
            skip = set(ox + t for t in up0) if tr == 'T' else set()
            if not c.exact('sgemv x restored', xa, xin, [i for i in range(len(xin)) if i not in skip],
                           key=K + ':input-modified', sub=sub): return
            if cvx.image(Am) != Abefore:
                c.viol.append({'key': K + ':input-modified', 'msg': 'sgemv modified A'}); return
        return

    if f in ('sprod', 'sinv', 'ssqr'):
        Nd = R.cdim_diag(d, mnl)
        yfull = dom.interior(d, mnl, var)
        ydiag = _diag_layout(yfull, d, mnl)
        if f == 'ssqr':
            for v in _vectors(Nd, var):
                x = _mk([SENT] * Nd)
                yv = _mk(v)
                fn(x, yv, d, mnl) if mnl else fn(x, yv, d)
                c.n += 1; c.nontrivial += 1 if Nd else 0
                if not c.vec('ssqr', list(x), R.ssqr(v, d, mnl), scale=100.0, key=K + ':value', sub={'y': v}): return
                if list(yv) != v:
                    c.viol.append({'key': K + ':input-modified', 'msg': 'ssqr modified y'}); return
            return
        dg = case.get('diag', 'D' if f == 'sinv' else 'N')
        for v in _vectors(N, var):
            x = _mk(v + [SENT])
            yl = (yfull if dg == 'N' else ydiag)
            # junk in the strict upper triangle of y must not matter (only 'L' is read)
            yj = list(yl)
            if dg == 'N':
                for t in up:
                    yj[t] = 99.0
            y = _mk(yj + [SENT])
            if f == 'sprod':
                fn(x, y, d, mnl=mnl, diag=dg)
                want = R.sprod(v, yl, d, mnl, dg)
            else:
                fn(x, y, d, mnl=mnl) if mnl else fn(x, y, d)
                want = R.sinv(v, yl, d, mnl)
            c.n += 1; c.nontrivial += nt
            got = list(x)
            sub = {'x': v, 'y': yl}
            if not c.vec(f, got[:N], want, skip=up, scale=100.0, key=K + ':value', sub=sub): return
            if got[N] != SENT or list(y)[-1] != SENT:
                c.viol.append({'key': K + ':footprint', 'msg': f + ' wrote past the vector'}); return
            ya = list(y)
            skipy = up if dg == 'N' else set()
            if not c.exact(f + ' y lower part', ya, yj + [SENT], [i for i in range(len(yj)) if i not in skipy],
                           key=K + ':input-modified', sub=sub): return
        # sinv undoes sprod with a diagonal y
        if N:
            v = _symv(_vectors(N, var)[-1], d, mnl)
            x = _mk(v)
            getattr(mod, 'sprod')(x, _mk(ydiag), d, mnl=mnl, diag='D')
            getattr(mod, 'sinv')(x, _mk(ydiag), d, mnl=mnl)
            c.vec('sinv(sprod(x,y),y)', list(x), v, skip=up, scale=100.0, key=K + ':sinv-sprod-identity')
        return

    if f == 'max_step':
        Nd = R.cdim_diag(d, mnl)
        pts = _vectors(N, var) + ([dom.interior(d, mnl, var, junk=41.0), [-t for t in dom.interior(d, mnl, var + 1)]] if N else [])
        for v in pts:
            x = _mk(v + [SENT])
            if case['sigma']:
                sg = _mk([SENT] * (sum(d['s']) + 1))
                t = fn(x, d, mnl=mnl, sigma=sg) if mnl else fn(x, d, sigma=sg)
            else:
                t = fn(x, d, mnl=mnl) if mnl else fn(x, d)
            c.n += 1; c.nontrivial += nt
            want = R.max_step(v, d, mnl)
            sub = {'x': v}
            if not c.scalar('max_step', t, want, scale=10.0, key=K + ':value', sub=sub): return
            got = list(x)
            if got[N] != SENT:
                c.viol.append({'key': K + ':footprint', 'msg': 'max_step wrote past x'}); return
            if not case['sigma']:
                if got[:N] != v:
                    c.viol.append({'key': K + ':input-modified', 'msg': 'max_step without sigma modified x', 'sub': sub}); return
            else:
                sgl = list(sg)
                if sgl[-1] != SENT:
                    c.viol.append({'key': K + ':footprint', 'msg': 'max_step wrote past sigma'}); return
                nlq = mnl + d['l'] + sum(d['q'])
                if got[:nlq] != v[:nlq]:
                    c.viol.append({'key': K + ':input-modified', 'msg': 'max_step changed non-s part of x'}); return
                ind, ind2 = nlq, 0
                for m in d['s']:
                    A = R.low(v, ind, m)
                    Q = R.full(got, ind, m)
                    w = sgl[ind2:ind2 + m]
                    if any(w[i] > w[i + 1] + 1e-12 for i in range(m - 1)):
                        c.viol.append({'key': K + ':sigma-order', 'msg': 'eigenvalues not ascending %r' % w, 'sub': sub}); return
                    AQ = R.matmul(A, Q)
                    QtQ = R.matmul(R.transpose(Q), Q)
                    nA = max([1.0] + [abs(t) for row in A for t in row])
                    for i in range(m):
                        for j in range(m):
                            if abs(AQ[i][j] - Q[i][j] * w[j]) > 1e-9 * nA or abs(QtQ[i][j] - (1.0 if i == j else 0.0)) > 1e-9:
                                c.viol.append({'key': K + ':eigendecomposition',
                                               'msg': 'A Q != Q diag(sigma) or Q not orthonormal', 'sub': sub}); return
                    ind += m * m; ind2 += m
        return
    raise AssertionError('unknown kernel ' + f)


def _run_small(f, fn, case, c, K):
    from cvxopt import matrix
    if f == 'symm':
        n, off = case['n'], case['off']
        for var in (0, 1):
            v = [float((3 * i + var) % 7 - 3) for i in range(n * n)]
            xin = [SENT] * off + v + [SENT]
            x = _mk(xin)
            fn(x, n, offset=off) if off else fn(x, n)
            c.n += 1; c.nontrivial += 1 if n > 1 else 0
            want = R.symm(xin, n, off)
            if list(x) != want:
                c.viol.append({'key': K + ':value', 'msg': 'symm got %r want %r' % (list(x), want)}); return
        return
    m = case['m']
    pal = [[3.0, 1.0, -2.0, 0.5], [2.5, -1.0, 0.5, 2.0], [1.0, 0.0, 0.0, 0.0]]
    for a in pal:
        for b in pal:
            xa, xb = a[:m], b[:m]
            if f == 'jdot':
                ox, oy = case['ox'], case['oy']
                if case['default_n']:
                    if ox or oy:
                        continue
                    got = fn(_mk(xa), _mk(xb))
                else:
                    got = fn(_mk([SENT] * ox + xa + [SENT]), _mk([SENT] * oy + xb + [SENT]), n=m, offsetx=ox, offsety=oy)
                c.n += 1; c.nontrivial += 1
                if not c.scalar('jdot', got, R.jdot(xa, xb), scale=20.0, key=K + ':value', sub={'x': xa, 'y': xb}): return
            else:
                ox = case['ox']
                xa = [sum(abs(t) for t in xa[1:]) + 1.0] + xa[1:]
                if case['default_n']:
                    if ox:
                        continue
                    got = fn(_mk(xa))
                else:
                    got = fn(_mk([SENT] * ox + xa + [SENT]), n=m, offset=ox)
                c.n += 1; c.nontrivial += 1
                if not c.scalar('jnrm2', got, R.jnrm2(xa), scale=20.0, key=K + ':value', sub={'x': xa}): return
                # the hyperbolic norm is defined as sqrt(x0 - ||x1||) * sqrt(x0 + ||x1||): no intermediate square, so vectors of
                # very large / very small magnitude (exact binary scalings of the same vector) and vectors close to the
                # boundary of the cone keep their accuracy
                for e in (500, -500):
                    xs = [t * 2.0 ** e for t in xa]
                    g2 = fn(_mk(xs)) if case['default_n'] else fn(_mk([SENT] * ox + xs + [SENT]), n=m, offset=ox)
                    c.n += 1
                    if not c.scalar('jnrm2', g2 * 2.0 ** (-e), R.jnrm2(xa), scale=20.0, key=K + ':value:scaled-2^%d' % e, sub={'x': xs}): return
                if m >= 2:
                    for sc in (1.0, 3.0):
                        xb_ = [sc * (1.0 + 2.0 ** -30), sc] + [0.0] * (m - 2)       # ||x1|| = sc exactly
                        g3 = fn(_mk(xb_)) if case['default_n'] else fn(_mk([SENT] * ox + xb_ + [SENT]), n=m, offset=ox)
                        w3 = math.sqrt(xb_[0] - sc) * math.sqrt(xb_[0] + sc)
                        c.n += 1
                        if not abs(g3 - w3) <= 1e-12 * w3:
                            c.viol.append({'key': K + ':value:near-boundary', 'msg': 'jnrm2(%r) = %r, sqrt(x0-a)*sqrt(x0+a) = %r (relative error %.2g)'
                                           % (xb_, g3, w3, abs(g3 - w3) / w3), 'sub': {'x': xb_}}); return


def _symv(v, d, mnl):
    """make the 's' blocks of v symmetric (copy lower to upper)."""
    v = list(v)
    for kind, off, m in R.blocks(d, mnl):
        if kind == 's':
            for j in range(m):
                for i in range(j + 1, m):
                    v[off + i * m + j] = v[off + j * m + i]
    return v


def _diag_layout(x, d, mnl):
    """interior point -> the 'diagonal' layout: nl, l, q parts unchanged; each 's' block replaced by m positive numbers."""
    nlq = mnl + d['l'] + sum(d['q'])
    out = list(x[:nlq])
    ind = nlq
    for m in d['s']:
        out += [x[ind + i * (m + 1)] for i in range(m)]
        ind += m * m
    return out


def _wnorm(W):
    t = [1.0]
    for k in ('dnl', 'dnli', 'd', 'di'):
        t += [abs(v) for v in W.get(k, [])]
    for k, v in enumerate(W['v']):
        t.append(W['beta'][k] * 2 * sum(a * a for a in v))
        t.append(2 * sum(a * a for a in v) / W['beta'][k])
    for r in W['r'] + W['rti']:
        t.append(sum(a * a for row in r for a in row))
    return max(t)
