"""C19 - no argument values make the C extension access memory outside its matrices."""
import os, re, sys, signal, itertools
from mc.ref import blas as RB

PROPERTY = 'C19'
LEVEL = 'exploration'
ENGINE = 'bex'
FLAVOURS = ('plain', 'asan')
# plain flavour under the glibc malloc checker: a byte written past the end of a heap block (also by the uninstrumented
# Fortran BLAS / LAPACK, which the sanitizer cannot see) aborts the process in free() -> reported as a killed interpreter
EXTRA_ENV = {'plain': {'LD_PRELOAD': '/lib/x86_64-linux-gnu/libc_malloc_debug.so.0', 'MALLOC_CHECK_': '3'}}
RULE = ('(A) small boxes: for every cvxopt.blas function and every integer argument, the argument ranges over -2..4 (and the '
        'leading dimensions / increments over their whole small box) with every buffer sized exactly as needed, one shorter and '
        'one longer; the accept / reject decision of the wrapper must coincide with the footprint computed with unbounded integers '
        '(an independent model of the documented argument handling); (B) large values: every integer argument of every blas and '
        'lapack wrapper in turn takes each of 2^30, 2^30+1, 2^31-1, -2^31, 2^31, 2^32+1, 2^62 combined with increments / leading '
        'dimensions 1, 2, 4 - each call runs in a forked child: death by signal = interpreter crashed; for blas an accepted call '
        'whose footprint does not fit is a violation too; (C) the misc_solvers kernels with a vector one element too short, and '
        '(D) base.gemm/gemv/syrk/symv/axpy with every mismatched output shape, dense and sparse; everything in-process runs on '
        'the AddressSanitizer build as well. non-trivial = calls whose footprint does not fit (they must be rejected)'
        ' (G) every lapack wrapper x every flag value x each matrix argument one column / one row short or reduced to one column (selection ranges opened); '
        '(H) the sparse constructor enumeration of C16 (block lists with real / complex / purely imaginary entries, spdiag, triplets) for its memory behaviour; '
        '(I) one-argument sparse assignment with number / dense / sparse values for every pair of linear positions incl. negative ones')
ASSUME = ['reads made inside the uninstrumented Fortran BLAS/LAPACK kernels are not observed directly; they are covered through the accept/reject comparison',
          'lapack large-value calls are judged by process survival only (no footprint model for LAPACK)',
          'huge indices / sizes of matrix and spmatrix objects are enumerated by C15 and C16 (ASan flavours)']
BOUNDS = {'quick': '34 blas functions x integer arguments x box -2..4 x 3 buffer sizes; 7 large values x 3 multipliers x every integer argument of 34 blas + 60 lapack wrappers (forked); 12 kernels; 5 base products',
          'thorough': 'typecodes d and z, every flag combination for the boxes'}
TECHNIQUE = 'bounded exhaustive enumeration of integer argument boxes and overflow values; accept/reject compared with an unbounded-integer footprint model; fork isolation + AddressSanitizer'

LARGE = [2 ** 30, 2 ** 30 + 1, 2 ** 31 - 1, -2 ** 31, 2 ** 31, 2 ** 32 + 1, 2 ** 62]
EXC_OK = (TypeError, ValueError, OverflowError, ArithmeticError, IndexError, MemoryError)


def cases(tier, seed, flavour):
    fs = sorted(RB.SPEC)
    for f in fs:
        for tc in ('d', 'z') if tier == 'thorough' else ('d',):
            if tc in RB.SPEC[f]['types']:
                yield {'part': 'blas-box', 'f': f, 'tc': tc, 'tier': tier}
    if flavour == 'plain':
        for f in fs:
            yield {'part': 'blas-large', 'f': f}
        yield {'part': 'lapack-list'}
        for i in range(0, 70, 5):
            yield {'part': 'lapack-large', 'lo': i, 'hi': i + 5}
    yield {'part': 'buffer-import'}
    yield {'part': 'sparse-resize'}
    # the sparse constructors size their result in a counting pass and fill it in a second pass (sparse() of block lists,
    # spdiag(), spmatrix() from triplets): the constructor enumeration of C16 (real / complex blocks, purely imaginary and
    # zero entries, numbers as 1x1 blocks) run here for its memory behaviour only - malloc checker / sanitizer / survival
    for k in range(4):
        yield {'part': 'sparse-construct', 'what': 'blocks', 'k': k}
    yield {'part': 'sparse-construct', 'what': 'spdiag'}
    yield {'part': 'sparse-construct', 'what': 'ctor'}
    # every lapack wrapper with small offsets / leading dimensions / orders on exactly sized operands
    for i in range(0, 70, 5):
        yield {'part': 'lapack-small', 'lo': i, 'hi': i + 5}
    # ... and with every flag value, each matrix argument in turn one column / one row short or reduced to one column
    for i in range(0, 70, 3):
        yield {'part': 'lapack-shapes', 'lo': i, 'hi': i + 3}
    for k in ('scale', 'scale2', 'pack', 'pack2', 'unpack', 'symm', 'sprod', 'sinv', 'trisc', 'triusc', 'sdot', 'max_step'):
        yield {'part': 'kernel-short', 'k': k}
    for f in ('gemm', 'gemv', 'syrk', 'symv', 'axpy'):
        yield {'part': 'base-shapes', 'f': f}
    # the same with every transposition flag (operand shapes stored accordingly)
    for tA in 'NTC':
        for tB in 'NTC':
            if tA + tB != 'NN':
                yield {'part': 'base-shapes', 'f': 'gemm', 'tA': tA, 'tB': tB}
        if tA != 'N':
            yield {'part': 'base-shapes', 'f': 'gemv', 'tA': tA}
            yield {'part': 'base-shapes', 'f': 'syrk', 'tA': tA}
        # non-unit and negative increments: x and y sized exactly to their documented footprints
        for inc in ((1, -1), (-1, 1), (-2, -2), (2, -1)):
            yield {'part': 'base-shapes', 'f': 'gemv', 'tA': tA, 'inc': list(inc)}
    # sparse indexing sizes its result in a counting pass and fills it in a second pass: every slice / index pair
    for (m, n) in ((2, 1), (1, 3), (3, 2), (2, 3)):
        for pat in ('full', 'lower', 'checker', 'lastcol'):
            for mode in ('get', 'set'):
                yield {'part': 'sparse-index', 'm': m, 'n': n, 'pat': pat, 'mode': mode}


# ------------------------------------------------------------------------------------------------ helpers
def _adopt(pid, keep=True):
    """sanitizer reports of a forked child belong to the case that forked it (keep=False: the outcome of the call is
    already judged by the caller, e.g. a kernel that accepted a vector known to be too short - the report is dropped)."""
    try:
        from mc import asan
        if keep:
            asan.adopt(pid)
        else:
            base = os.environ.get('VERIF_ASAN_LOG')
            if base and os.path.exists('%s.%d' % (base, pid)):
                os.unlink('%s.%d' % (base, pid))
    except Exception:
        pass


def _lf():
    """per-call time limits are meant for an idle machine; stretched by load average / cores when other jobs compete."""
    try:
        from mc import engine
        return engine._load_factor()
    except Exception:
        return 1.0


def _forked(fn, timeout=10, adopt=True):
    """run fn() in a forked child.  returns ('exc', name) | ('ok', None) | ('signal', n) | ('timeout', None)."""
    import resource
    r, w = os.pipe()
    sys.stdout.flush(); sys.stderr.flush()
    pid = os.fork()
    if pid == 0:
        try:
            os.close(r)
            try:
                if os.environ.get('VERIF_FLAVOUR') != 'asan':      # ASan reserves terabytes of address space
                    resource.setrlimit(resource.RLIMIT_AS, (6 << 30, 6 << 30))
                resource.setrlimit(resource.RLIMIT_CORE, (0, 0))
            except Exception:
                pass
            signal.alarm(int(timeout * _lf()))
            dn = os.open(os.devnull, os.O_WRONLY)
            os.dup2(dn, 2)
            try:
                fn()
                os.write(w, b'ok:')
            except BaseException as e:
                os.write(w, b'exc:' + type(e).__name__.encode())
        finally:
            os._exit(0)
    os.close(w)
    data = b''
    while True:
        chunk = os.read(r, 256)
        if not chunk:
            break
        data += chunk
    os.close(r)
    _, st = os.waitpid(pid, 0)
    _adopt(pid, keep=adopt)
    if os.WIFSIGNALED(st):
        sg = os.WTERMSIG(st)
        return ('timeout', None) if sg == signal.SIGALRM else ('signal', sg)
    if data.startswith(b'ok:'):
        return ('ok', None)
    if data.startswith(b'exc:'):
        return ('exc', data[4:].decode())
    return ('signal', -1)


def _forked_batch(fns, timeout=10, groups=None):
    """run the callables one after the other in forked children: a child reports each outcome through a pipe and
    keeps going; when it dies the fatal call is recorded and a new child continues behind it.  Returns a list of
    ('exc', name) | ('ok', None) | ('signal', n) | ('timeout', None), one per callable."""
    import resource
    out = [None] * len(fns)
    start = 0
    while start < len(fns):
        r, w = os.pipe()
        sys.stdout.flush(); sys.stderr.flush()
        pid = os.fork()
        if pid == 0:
            try:
                os.close(r)
                try:
                    if os.environ.get('VERIF_FLAVOUR') != 'asan':      # ASan reserves terabytes of address space
                        resource.setrlimit(resource.RLIMIT_AS, (6 << 30, 6 << 30))
                    resource.setrlimit(resource.RLIMIT_CORE, (0, 0))
                except Exception:
                    pass
                dn = os.open(os.devnull, os.O_WRONLY)
                os.dup2(dn, 2)
                for i in range(start, len(fns)):
                    os.write(w, b'S%d\n' % i)
                    signal.alarm(int(timeout * _lf()))
                    try:
                        fns[i]()
                        os.write(w, b'O%d\n' % i)
                    except BaseException as e:
                        os.write(w, b'E%d:%s\n' % (i, type(e).__name__.encode()))
                    signal.alarm(0)
            finally:
                os._exit(0)
        os.close(w)
        data = b''
        while True:
            chunk = os.read(r, 65536)
            if not chunk:
                break
            data += chunk
        os.close(r)
        _, st = os.waitpid(pid, 0)
        _adopt(pid)
        started = -1
        for line in data.split(b'\n'):
            if not line:
                continue
            tag, rest = line[:1], line[1:]
            if tag == b'S':
                started = int(rest)
            elif tag == b'O':
                out[int(rest)] = ('ok', None)
            elif tag == b'E':
                i, nm = rest.split(b':', 1)
                out[int(i)] = ('exc', nm.decode())
        if os.WIFSIGNALED(st) and started >= 0 and out[started] is None:
            sg = os.WTERMSIG(st)
            out[started] = ('timeout', None) if sg == signal.SIGALRM else ('signal', sg)
            start = started + 1
            if groups is not None:
                # one fatal call per group (call site) is enough: the remaining variants of the group are not run
                while start < len(fns) and groups[start] == groups[started]:
                    out[start] = ('skipped', None)
                    start += 1
        else:
            # child ended normally: everything up to the end is reported
            for i in range(start, len(fns)):
                if out[i] is None:
                    out[i] = ('signal', -1)
            start = len(fns)
    return out


def _base_shapes(f, tc='d'):
    """small valid shapes and keyword arguments (all defaults) for blas function f."""
    sp = RB.SPEC[f]
    shapes, tcs = {}, {}
    for m in sp['mats']:
        kind = sp['arrays'][m][0]
        shapes[m] = (3, 3) if kind != 'V' else (3, 1)
        tcs[m] = tc
    return shapes, tcs


def _req_scalars(f):
    """required (positional) scalar arguments of blas function f."""
    sp = RB.SPEC[f]
    return dict((nm, 2.0) for nm in sp['sig'][:sp['nreq']] if nm in sp.get('scalars', {}))


def _mk(shapes, tcs):
    from cvxopt import matrix
    out = {}
    for m, (r, c) in shapes.items():
        vals = [float(1 + ((3 * i + 7 * len(m)) % 5)) for i in range(r * c)]
        out[m] = matrix(vals, (r, c), tcs[m]) if vals else matrix(0.0, (r, c), tcs[m])
    return out


# ------------------------------------------------------------------------------------------------ part A
def run_blas_box(case):
    from cvxopt import blas, matrix
    f, tc = case['f'], case['tc']
    sp = RB.SPEC[f]
    viol = []
    n = nt = 0
    outcomes = {}
    ints = [i[0] for i in sp['ints']]
    flagsets = [{}]
    if case.get('tier') == 'thorough':
        names = list(sp['flags'])
        flagsets = [dict(zip(names, combo)) for combo in itertools.product(*[RB.flag_domain(f, nm, tc) for nm in names])]
    for flags in flagsets:
        for nm in ints:
            for val in range(-2, 5):
                for other_nm in [None] + [o for o in ints if o != nm and (o.startswith('ld') or o.startswith('inc'))]:
                    for oval in ((None,) if other_nm is None else (1, 2)):
                        for shrink in (0, 1, -1):
                            shapes, tcs = _base_shapes(f, tc)
                            kw = dict(flags)
                            kw.update(_req_scalars(f))
                            kw[nm] = val
                            if other_nm:
                                kw[other_nm] = oval
                            # buffer sizes: vectors of length 3 + shrink*-1 ... use (rows + delta)
                            for m in list(shapes):
                                r, c = shapes[m]
                                if c == 1:
                                    shapes[m] = (max(0, r - shrink), 1)
                                else:
                                    shapes[m] = (r, c) if shrink == 0 else ((r, max(0, c - shrink)))
                            try:
                                p = RB.predict(f, tcs, shapes, kw)
                            except (ZeroDivisionError, TypeError):
                                continue        # e.g. increment 0 inside a documented default formula: the model has no answer
                            v = p['verdict']
                            if v in ('skip', 'either'):
                                continue
                            objs = _mk(shapes, tcs)
                            call = dict(objs); call.update(kw)
                            exc = None
                            try:
                                getattr(blas, f)(**call)
                            except Exception as e:
                                exc = e
                            n += 1
                            lab = v + ':' + ('raised' if exc is not None else 'returned')
                            outcomes[lab] = outcomes.get(lab, 0) + 1
                            sub = {'f': f, 'tc': tc, 'shapes': shapes, 'kw': kw, 'why': p['why']}
                            if v == 'reject':
                                nt += 1
                                if exc is None:
                                    viol.append({'key': 'C19:blas.%s:accepted-but-footprint-does-not-fit:%s' % (f, nm),
                                                 'msg': 'blas.%s(%r) with shapes %r accepted although: %s' % (f, kw, shapes, '; '.join(p['why'])), 'sub': sub})
                                elif not isinstance(exc, EXC_OK):
                                    viol.append({'key': 'C19:blas.%s:unexpected-exception:%s' % (f, type(exc).__name__), 'msg': repr(exc), 'sub': sub})
                            elif v == 'ok' and exc is not None:
                                viol.append({'key': 'C19:blas.%s:rejected-although-footprint-fits:%s' % (f, nm),
                                             'msg': 'blas.%s(%r) with shapes %r raised %r although the footprint fits' % (f, kw, shapes, exc), 'sub': sub})
                            if len(viol) > 20:
                                return {'n': n, 'nontrivial': nt, 'viol': viol, 'outcomes': outcomes}
    return {'n': n, 'nontrivial': nt, 'viol': viol, 'outcomes': outcomes}


# ------------------------------------------------------------------------------------------------ part B
def run_blas_large(case):
    from cvxopt import blas
    f = case['f']
    sp = RB.SPEC[f]
    viol = []
    n = nt = 0
    outcomes = {}
    ints = [i[0] for i in sp['ints']]
    seen = set()
    plan = []
    for nm in ints:
        for val in LARGE:
            for other_nm in [None] + [o for o in ints if o != nm and (o.startswith('ld') or o.startswith('inc') or o in ('n', 'm', 'k'))]:
                for oval in ((None,) if other_nm is None else (2, 4)):
                    shapes, tcs = _base_shapes(f)
                    kw = {nm: val}
                    kw.update(_req_scalars(f))
                    if other_nm:
                        kw[other_nm] = oval
                    try:
                        p = RB.predict(f, tcs, shapes, kw)
                    except (ZeroDivisionError, TypeError):
                        continue
                    if p['verdict'] == 'skip':
                        continue
                    objs = _mk(shapes, tcs)
                    call = dict(objs); call.update(kw)
                    plan.append((nm, kw, shapes, p, call))
    results = _forked_batch([(lambda c=c: getattr(blas, f)(**c)) for (_, _, _, _, c) in plan], groups=[pl[0] for pl in plan])
    for (nm, kw, shapes, p, call), res in zip(plan, results):
        if res[0] == 'skipped':
            continue
        n += 1
        nt += 1 if p['verdict'] == 'reject' else 0
        lab = '%s:%s' % (p['verdict'], res[0])
        outcomes[lab] = outcomes.get(lab, 0) + 1
        sub = {'f': f, 'kw': {k: str(v) for k, v in kw.items()}, 'shapes': shapes}
        key = None
        # whether a wild access faults is up to the memory map, so a crash and a silent acceptance share one key
        if res[0] in ('signal', 'timeout'):
            key = 'C19:blas.%s:%s=large:not-rejected' % (f, nm)
            msg = 'blas.%s(%s) on 3x3 / 3x1 matrices killed the interpreter (%s %r)' % (f, kw, res[0], res[1])
        elif res[0] == 'ok' and p['verdict'] == 'reject':
            key = 'C19:blas.%s:%s=large:not-rejected' % (f, nm)
            msg = 'blas.%s(%s) on 3x3 / 3x1 matrices was accepted although the footprint does not fit (%s)' % (f, kw, '; '.join(p['why']))
        if key and key not in seen:
            seen.add(key)
            viol.append({'key': key, 'msg': msg, 'sub': sub})
    return {'n': n, 'nontrivial': nt, 'viol': viol, 'outcomes': outcomes}


_SIGRE = re.compile(r'^\s*(\w+)\((.*)\)\s*$')


def _lapack_sig(fn):
    """(positional names, [(int keyword, default text)]) parsed from the docstring signature."""
    doc = fn.__doc__ or ''
    lines = [l for l in doc.split('\n')]
    sig = ''
    for i, l in enumerate(lines):
        # the signature line: '<name>(' possibly preceded by 'result = ' (some docstrings name the LAPACK routine or a
        # sibling instead of the wrapper: dgesv(, herv(, syevr( for heevr, ...)
        ms = re.match(r'^(?:[\w, ]+=\s*)?(\w+)\((?=[A-Za-z])', l.strip())
        if ms and i > 0 and (ms.group(1) == fn.__name__ or not lines[i - 1].strip()):
            sig = l.strip()
            sig = sig[sig.index(ms.group(1) + '('):]
            j = i + 1
            while sig.count('(') != sig.count(')') and j < len(lines) and lines[j].strip():
                sig += ' ' + lines[j].strip()
                j += 1
            if sig.count('(') > sig.count(')'):       # a docstring with an unbalanced signature (ptsv, pttrs)
                sig = re.sub(r'(max\(1,\s*\w+\.size\[0\]),', r'\1),', sig)
                sig += ')' * (sig.count('(') - sig.count(')'))
            break
    m = _SIGRE.match(sig)
    if not m:
        return None
    args = []
    depth = 0
    cur = ''
    for ch in m.group(2):
        if ch == ',' and depth == 0:
            args.append(cur.strip()); cur = ''
        else:
            depth += ch in '(['
            depth -= ch in ')]'
            cur += ch
    if cur.strip():
        args.append(cur.strip())
    pos, kws = [], []
    for a in args:
        if '=' in a:
            k, d = a.split('=', 1)
            kws.append((k.strip(), d.strip()))
        else:
            pos.append(a)
    return pos, kws


def _lapack_templates(pos):
    """candidate positional argument sets (small valid-looking matrices)."""
    from cvxopt import matrix
    def mats(n, vec_names, int_names):
        out = []
        for nm in pos:
            if nm in int_names:
                out.append(matrix(list(range(1, n + 1)), (n, 1), 'i'))      # identity pivots / permutation: valid contents
            elif nm in vec_names:
                out.append(matrix([2.0 + i for i in range(n)], (n, 1), 'd'))
            elif nm in ('kl', 'ku', 'kd', 'k'):
                out.append(1)
            else:
                out.append(matrix([4.0 if i % (n + 1) == 0 else 0.5 for i in range(n * n)], (n, n), 'd'))
        return out
    ints = ('ipiv', 'jpvt')
    vecs = ('tau', 'W', 'w', 'd', 'e', 'dl', 'du', 'du2', 'S', 'x', 'y', 'alpha', 'beta', 'v')
    return [mats(3, vecs, ints), mats(3, (), ints), mats(4, vecs, ints)]


def run_lapack_large(case):
    from cvxopt import lapack
    names = sorted(n for n in dir(lapack) if not n.startswith('_') and callable(getattr(lapack, n)))
    viol = []
    n = nt = 0
    outcomes = {}
    if case['part'] == 'lapack-list':
        bad = [nm for nm in names if _lapack_sig(getattr(lapack, nm)) is None]
        return {'n': len(names), 'nontrivial': len(names) - len(bad), 'outcomes': {'wrappers': len(names), 'signature-not-parsed': len(bad)},
                'viol': [] if len(names) <= 70 else [{'key': 'C19:harness:more-lapack-wrappers-than-sharded', 'msg': str(len(names))}]}
    for nm in names[case['lo']:case['hi']]:
        fn = getattr(lapack, nm)
        sg = _lapack_sig(fn)
        if sg is None:
            continue
        pos, kws = sg
        intkw = [k for k, d in kws if not (d.startswith("'") or d in ('None',) or k in ('select', 'jobz', 'uplo', 'trans', 'side', 'diag', 'range', 'jobu', 'jobvt', 'itype', 'vl', 'vu', 'abstol'))]
        tmpl = None
        for cand in _lapack_templates(pos):
            r = _forked(lambda: fn(*cand))
            if r[0] == 'ok':
                tmpl = cand
                break
        if tmpl is None:
            tmpl = _lapack_templates(pos)[0]
            outcomes['no-valid-template'] = outcomes.get('no-valid-template', 0) + 1
        seen = set()
        plan = []
        for k in intkw:
            for val in LARGE:
                for k2 in [None] + [o for o in intkw if o != k and (o.startswith('ld') or o.startswith('n') or o.startswith('m'))][:3]:
                    for v2 in ((None,) if k2 is None else (2, 4)):
                        kw = {k: val}
                        if k2:
                            kw[k2] = v2
                        args = [+a if hasattr(a, 'size') else a for a in tmpl]
                        plan.append((k, kw, args))
        results = _forked_batch([(lambda a=a, kw=kw: fn(*a, **kw)) for (_, kw, a) in plan], groups=[pl[0] for pl in plan])
        for (k, kw, args), res in zip(plan, results):
            if res[0] == 'skipped':
                continue
            n += 1
            nt += 1
            outcomes[res[0]] = outcomes.get(res[0], 0) + 1
            if res[0] in ('signal', 'timeout'):
                key = 'C19:lapack.%s:%s=large:interpreter-killed' % (nm, k)
                if key not in seen:
                    seen.add(key)
                    viol.append({'key': key, 'msg': 'lapack.%s(..., %s) on small matrices killed the interpreter (%s %r)'
                                 % (nm, kw, res[0], res[1]), 'sub': {'f': nm, 'kw': {a: str(b) for a, b in kw.items()}}})
    return {'n': n, 'nontrivial': nt, 'viol': viol, 'outcomes': outcomes}


# ------------------------------------------------------------------------------------------------ part C / D
def run_kernel_short(case):
    """misc_solvers kernels with x one element shorter than dims requires: must raise, not read/write past the end."""
    from cvxopt import misc_solvers as ms, matrix
    from mc import dom, cvx
    from mc.ref import cone as R
    k = case['k']
    viol = []
    n = 0
    outcomes = {}
    # the vector lacks its last 3 entries, all inside the final 2x2 's' block, which every kernel addresses
    for d in ({'l': 1, 'q': [2], 's': [2]}, {'l': 0, 'q': [], 's': [1, 2]}):
        N = R.cdim(d)
        Np = R.cdim_packed(d)
        Nd = R.cdim_diag(d)
        W = cvx.W_from_ref(dom.genericW(d, 0, 0)); W.pop('dnl', None); W.pop('dnli', None)
        short = matrix(1.0, (max(N - 3, 0), 1))
        full = matrix(1.0, (N, 1))
        lam = matrix(1.0, (Nd, 1))
        calls = {'scale': lambda: ms.scale(short, W), 'scale2': lambda: ms.scale2(lam, short, d),
                 'pack': lambda: ms.pack(full, matrix(0.0, (max(Np - 2, 0), 1)), d), 'pack2': lambda: ms.pack2(short, d),
                 'unpack': lambda: ms.unpack(matrix(1.0, (Np, 1)), short, d), 'symm': lambda: ms.symm(matrix(1.0, (2, 1)), 2),
                 'sprod': lambda: ms.sprod(short, full, d), 'sinv': lambda: ms.sinv(short, lam, d),
                 'trisc': lambda: ms.trisc(short, d), 'triusc': lambda: ms.triusc(short, d),
                 'sdot': lambda: ms.sdot(short, full, d), 'max_step': lambda: ms.max_step(short, d)}
        res = _forked(calls[k], adopt=False)
        n += 1
        outcomes[res[0]] = outcomes.get(res[0], 0) + 1
        if res[0] == 'ok':
            viol.append({'key': 'C19:misc_solvers.%s:too-short-vector-accepted' % k,
                         'msg': 'misc_solvers.%s accepts a vector 3 elements shorter than dims %r requires (no size validation: out-of-bounds access)' % (k, d),
                         'sub': {'dims': d}})
            break
        if res[0] in ('signal', 'timeout'):
            viol.append({'key': 'C19:misc_solvers.%s:too-short-vector-accepted' % k, 'msg': 'misc_solvers.%s with a too short vector killed the interpreter' % k})
            break
    if k == 'max_step':
        # the optional argument given explicitly with its documented default (the Python fallback declares sigma=None)
        d = {'l': 1, 'q': [2], 's': [2]}
        full = matrix([1.0, 2.0, 0.5, 3.0, 1.0, 1.0, 4.0])
        for nm, fn in (('positional', lambda: ms.max_step(+full, d, 0, None)), ('keyword', lambda: ms.max_step(+full, d, sigma=None))):
            res = _forked(fn)
            n += 1
            outcomes['sigma=None:' + res[0]] = outcomes.get('sigma=None:' + res[0], 0) + 1
            if res[0] in ('signal', 'timeout'):
                viol.append({'key': 'C19:misc_solvers.max_step:sigma=None:interpreter-killed',
                             'msg': 'misc_solvers.max_step(x, dims, 0, None) (%s None) killed the interpreter (%s %r)' % (nm, res[0], res[1])})
                break
    return {'n': n, 'nontrivial': n, 'viol': viol, 'outcomes': outcomes}


def run_base_shapes(case):
    from cvxopt import base, matrix, sparse, spmatrix
    f = case['f']
    viol = []
    n = nt = 0
    outcomes = {}

    def mk(r, c, sp):
        M = matrix([1.0 + ((2 * i) % 3) for i in range(r * c)], (r, c)) if r * c else matrix(0.0, (r, c))
        return sparse(M) if sp else M
    sizes = [0, 1, 2, 3]
    plan = []
    tA, tB = case.get('tA', 'N'), case.get('tB', 'N')

    def sh(r, c, t):
        return (r, c) if t == 'N' else (c, r)       # stored shape of an operand whose op() is r x c
    for spA, spB, spC in itertools.product((False, True), repeat=3):
        for m_, k_, n_ in itertools.product((1, 2), repeat=3):
            for cr, cc in itertools.product(sizes, repeat=2):
                if f == 'gemm':
                    A, B, C = mk(*(sh(m_, k_, tA) + (spA,))), mk(*(sh(k_, n_, tB) + (spB,))), mk(cr, cc, spC)
                    fits = (cr, cc) == (m_, n_)
                    fn = (lambda A=A, B=B, C=C: base.gemm(A, B, C)) if tA + tB == 'NN' else \
                        (lambda A=A, B=B, C=C: base.gemm(A, B, C, transA=tA, transB=tB))
                elif f == 'gemv':
                    if spB or spC:
                        continue
                    ix_, iy_ = case.get('inc', (1, 1))
                    A, x, y = mk(*(sh(m_, k_, tA) + (spA,))), mk(1 + (k_ - 1) * abs(ix_), 1, False), mk(cr, 1, False)
                    if cc != 1:
                        continue
                    fits = cr >= 1 + (m_ - 1) * abs(iy_)
                    if 'inc' in case:
                        fn = lambda A=A, x=x, y=y: base.gemv(A, x, y, trans=tA, incx=ix_, incy=iy_)
                    else:
                        fn = (lambda A=A, x=x, y=y: base.gemv(A, x, y)) if tA == 'N' else (lambda A=A, x=x, y=y: base.gemv(A, x, y, trans=tA))
                elif f == 'syrk':
                    if spB:
                        continue
                    A, C = mk(*(sh(m_, k_, tA) + (spA,))), mk(cr, cc, spC)
                    fits = (cr, cc) == (m_, m_)
                    fn = (lambda A=A, C=C: base.syrk(A, C)) if tA == 'N' else (lambda A=A, C=C: base.syrk(A, C, trans=tA))
                elif f == 'symv':
                    if spB or spC or cc != 1 or m_ != k_:
                        continue
                    A, x, y = mk(m_, m_, spA), mk(m_, 1, False), mk(cr, 1, False)
                    fits = cr >= m_
                    fn = lambda A=A, x=x, y=y: base.symv(A, x, y)
                else:
                    if spB:
                        continue
                    x, y = mk(m_, k_, spA), mk(cr, cc, spC)
                    fits = (cr, cc) == (m_, k_)
                    fn = lambda x=x, y=y: base.axpy(x, y)
                plan.append((fn, fits, {'f': f, 'trans': tA + tB, 'sparse': [spA, spB, spC], 'dims': [m_, k_, n_], 'out': [cr, cc]}))
    # one forked child runs the calls one after the other; a call that kills it is recorded and a new child continues
    results = _forked_batch([pl[0] for pl in plan])
    for (fn, fits, sub), res in zip(plan, results):
        n += 1
        nt += 0 if fits else 1
        lab = ('fits' if fits else 'mismatch') + ':' + res[0]
        outcomes[lab] = outcomes.get(lab, 0) + 1
        cr_cc, dims = tuple(sub['out']), tuple(sub['dims'])
        if res[0] in ('signal', 'timeout'):
            viol.append({'key': 'C19:base.%s:mismatched-output-shape:interpreter-killed' % f, 'msg': 'base.%s with output of size %r killed the interpreter' % (f, cr_cc), 'sub': sub})
        elif res[0] == 'ok' and not fits:
            viol.append({'key': 'C19:base.%s:mismatched-output-shape:accepted' % f, 'msg': 'base.%s accepted an output operand of size %r for operands of dims %r' % (f, cr_cc, dims), 'sub': sub})
        if len(viol) > 5:
            break
    return {'n': n, 'nontrivial': nt, 'viol': viol, 'outcomes': outcomes}


def run_sparse_index(case):
    """A[r, c] and A[r, c] = v on small sparse matrices for every pair of index expressions from a slice / integer /
    list alphabet (all start, stop, step combinations incl. negative steps).  Under the sanitizer flavour every heap
    access outside the arrays of the operands is a violation; in both flavours the result must equal dense indexing."""
    from cvxopt import matrix, spmatrix, sparse
    m, n, pat, mode = case['m'], case['n'], case['pat'], case['mode']
    cells = [(i, j) for j in range(n) for i in range(m)]
    keep = {'full': cells, 'lower': [(i, j) for (i, j) in cells if i >= j], 'checker': [(i, j) for (i, j) in cells if (i + j) % 2 == 0],
            'lastcol': [(i, j) for (i, j) in cells if j == n - 1 or i == m - 1]}[pat]
    vals = [float(1 + i + 10 * j) for (i, j) in keep]

    def mk():
        return spmatrix(vals, [i for i, _ in keep], [j for _, j in keep], (m, n))

    def alphabet(dim):
        out = []
        for st in (None, 0, 1, dim - 1, -1, dim):
            for sp in (None, 0, 1, dim, -1, -dim - 1):
                for step in (None, 1, 2, -1, -2):
                    out.append(slice(st, sp, step))
        out += list(range(-dim, dim)) + [[0], [dim - 1, 0], [-1, -1], matrix([0, dim - 1])]
        seen, uniq = set(), []
        for ix in out:
            k = repr(ix.indices(dim)) if isinstance(ix, slice) else repr(list(ix) if not isinstance(ix, int) else ix)
            if (type(ix).__name__, k) not in seen:
                seen.add((type(ix).__name__, k)); uniq.append(ix)
        return uniq
    viol = []
    nev = nt = 0
    rows, cols = alphabet(m), alphabet(n)
    for r in rows:
        for c in cols:
            S = mk()
            D = matrix(S)
            nev += 1
            try:
                if mode == 'get':
                    got = S[r, c]
                    want = D[r, c]
                    g = list(matrix(got)) if hasattr(got, 'size') else [got]
                    w = list(want) if hasattr(want, 'size') else [want]
                    gs = tuple(got.size) if hasattr(got, 'size') else ()
                    ws = tuple(want.size) if hasattr(want, 'size') else ()
                else:
                    S[r, c] = 2.5
                    D[r, c] = 2.5
                    g, w, gs, ws = list(matrix(S)), list(D), S.size, D.size
                nt += 1
                if (g, gs) != (w, ws):
                    viol.append({'key': 'C19:sparse-index:%s:differs-from-dense' % mode,
                                 'msg': 'sparse %s with [%r, %r] on a %dx%d matrix gives %r %r, dense %r %r' % (mode, r, c, m, n, gs, g, ws, w),
                                 'sub': {'r': repr(r), 'c': repr(c), 'm': m, 'n': n, 'pat': pat}})
                    break
                ci = list(S.CCS[0]); ri = list(S.CCS[1])
                if ci[0] != 0 or any(a > b for a, b in zip(ci, ci[1:])) or ci[-1] != len(ri) or \
                        any(ri[k] >= ri[k + 1] for j in range(n) for k in range(ci[j], ci[j + 1] - 1)):
                    viol.append({'key': 'C19:sparse-index:%s:operand-structure-invalid' % mode,
                                 'msg': 'after sparse %s with [%r, %r] the operand has colptr %r rowind %r' % (mode, r, c, ci, ri)})
                    break
            except (IndexError, TypeError, ValueError, NotImplementedError):
                pass
        if viol:
            break
    if mode == 'set' and not viol:
        # one-argument (linear, column-major) index sets with a number, a dense and a sparse value: every list / integer
        # matrix of two distinct positions from -m*n .. m*n-1, and slices
        N = m * n
        lin = [[a, b] for a in range(-N, N) for b in range(-N, N) if (a % N) < (b % N)]
        lin = lin[::1 if N <= 4 else 3]
        idx = [slice(None, None, 2), slice(1, None, None), slice(None, None, -1)] + lin + [matrix(l) for l in lin[::2]]
        for ix in idx:
            k = len(range(*ix.indices(N))) if isinstance(ix, slice) else len(ix)
            if k == 0:
                continue
            for kind in ('number', 'dense', 'sparse'):
                S = mk(); D = matrix(S)
                vd = matrix([7.0 + t for t in range(k)], (k, 1))
                vs = sparse(vd)
                if k > 1:
                    vs[0] = 0.0
                    vd2 = matrix(vs)
                else:
                    vd2 = vd
                nev += 1
                try:
                    if kind == 'number':
                        S[ix] = 2.5; D[ix] = 2.5
                    elif kind == 'dense':
                        S[ix] = vd; D[ix] = vd
                    else:
                        S[ix] = vs; D[ix] = vd2
                    nt += 1
                    ci = list(S.CCS[0]); ri = list(S.CCS[1])
                    bad = ci[0] != 0 or any(a > b for a, b in zip(ci, ci[1:])) or ci[-1] != len(ri) or any(t < 0 or t >= m for t in ri) or \
                        any(ri[q] >= ri[q + 1] for j in range(n) for q in range(ci[j], ci[j + 1] - 1))
                    if bad:
                        viol.append({'key': 'C19:sparse-index:set1:%s:operand-structure-invalid' % kind,
                                     'msg': 'after S[%r] = <%s> on a %dx%d sparse matrix: colptr %r rowind %r' % (ix if not hasattr(ix, 'size') else list(ix), kind, m, n, ci, ri)})
                        break
                    g, w = list(matrix(S)), list(D)
                    if g != w:
                        viol.append({'key': 'C19:sparse-index:set1:%s:differs-from-dense' % kind,
                                     'msg': 'S[%r] = <%s> on a %dx%d sparse matrix gives %r, dense %r' % (ix if not hasattr(ix, 'size') else list(ix), kind, m, n, g, w)})
                        break
                except (IndexError, TypeError, ValueError, NotImplementedError):
                    pass
            if viol:
                break
    return {'n': nev, 'nontrivial': nt, 'viol': viol, 'outcomes': {'sparse-index-' + mode: nev}}


def run_lapack_small(case):
    """every lapack wrapper on exactly sized small operands with each integer keyword (order, leading dimension,
    offset, band width, ...) set to 1..4 and each pair of them to (1,1), (1,2), (2,1): the wrapper either refuses the
    call or stays inside the operands.  The sanitizer flavour decides the second part (reports of the forked child are
    attributed to this case); in both flavours a killed interpreter is a violation."""
    from cvxopt import lapack
    names = sorted(n for n in dir(lapack) if not n.startswith('_') and callable(getattr(lapack, n)))
    viol = []
    n = nt = 0
    outcomes = {}
    for nm in names[case['lo']:case['hi']]:
        fn = getattr(lapack, nm)
        sg = _lapack_sig(fn)
        if sg is None:
            continue
        pos, kws = sg
        intkw = [k for k, d in kws if not (d.startswith("'") or d in ('None',) or k in ('select', 'jobz', 'uplo', 'trans', 'side', 'diag', 'range', 'jobu', 'jobvt', 'itype', 'vl', 'vu', 'abstol'))]
        plan = []
        for ti, tmpl in enumerate(_lapack_templates(pos)[:2]):
            def fresh(tmpl=tmpl):
                return [+a if hasattr(a, 'size') else a for a in tmpl]
            plan.append(({}, fresh))
            for k in intkw:
                for v in (1, 2, 3, 4):
                    plan.append(({k: v}, fresh))
            for a in range(len(intkw)):
                for b in range(a + 1, len(intkw)):
                    for (va, vb) in ((1, 1), (1, 2), (2, 1)):
                        plan.append(({intkw[a]: va, intkw[b]: vb}, fresh))
        results = _forked_batch([(lambda kw=kw, fresh=fresh: fn(*fresh(), **kw)) for (kw, fresh) in plan])
        for (kw, _), res in zip(plan, results):
            n += 1
            nt += 1 if kw else 0
            outcomes[res[0]] = outcomes.get(res[0], 0) + 1
            if res[0] in ('signal', 'timeout'):
                viol.append({'key': 'C19:lapack.%s:small-arguments:interpreter-killed' % nm,
                             'msg': 'lapack.%s(..., %s) on small matrices killed the interpreter (%s %r)' % (nm, kw, res[0], res[1]),
                             'sub': {'f': nm, 'kw': kw}})
                break
    return {'n': n, 'nontrivial': nt, 'viol': viol, 'outcomes': outcomes}


LFLAGS = {'jobz': ['N', 'V'], 'uplo': ['L', 'U'], 'trans': ['N', 'T', 'C'], 'range': ['A', 'V', 'I'],
          'jobu': ['N', 'A', 'S', 'O'], 'jobvt': ['N', 'A', 'S', 'O'], 'side': ['L', 'R'], 'diag': ['N', 'U'], 'itype': [1, 2, 3]}
LFLAGS_FN = {('gesdd', 'jobz'): ['N', 'A', 'S', 'O'], ('lacpy', 'uplo'): ['N', 'L', 'U']}
LOPTMAT = ('ipiv', 'w', 'a', 'b', 'V', 'Vl', 'Vr', 'U', 'Vt', 'Z')


def run_lapack_shapes(case):
    """every lapack wrapper x every value of every flag keyword x (all matrix arguments of the order-4 template, or one of
    them - positional or optional output - with its last column removed / its last row removed / reduced to its first
    column): the wrapper either refuses the call or stays inside the operands.  Selection ranges are opened so that every
    eigenvalue is selected (range='V': (-100, 100]; range='I': 1..n), i.e. the routine produces all the output it can."""
    import itertools
    from cvxopt import lapack, matrix
    names = sorted(n for n in dir(lapack) if not n.startswith('_') and callable(getattr(lapack, n)))
    viol = []
    n_ev = nt = 0
    outcomes = {}
    N = 4
    for nm in names[case['lo']:case['hi']]:
        fn = getattr(lapack, nm)
        sg = _lapack_sig(fn)
        if sg is None:
            continue
        pos, kws = sg
        kwn = [k for k, d in kws]
        tc = 'z' if nm[:2] in ('he', 'un') else 'd'
        flags = [(k, LFLAGS_FN.get((nm, k), LFLAGS[k])) for k in kwn if k in LFLAGS]
        optm = [k for k in kwn if k in LOPTMAT]

        def mk(name):
            if name in ('ipiv', 'jpvt'):
                return matrix(list(range(1, N + 1)), (N, 1), 'i')
            if name in ('tau', 'dl', 'du', 'du2', 'e', 'x', 'v'):
                return matrix([2.0 + i for i in range(N)], (N, 1), tc)
            if name == 'd':
                return matrix([4.0 + i for i in range(N)], (N, 1), 'd')
            if name in ('W', 'S'):
                return matrix(0.0, (N, 1), 'd')
            if name in ('w', 'a'):
                return matrix(0.0, (N, 1), 'z')
            if name == 'b':
                return matrix(0.0, (N, 1), 'd')
            if name == 'alpha':
                return matrix([1.5], (1, 1), tc)
            if name in ('kl', 'ku', 'kd', 'k'):
                return 1
            if name == 'm':
                return N
            return matrix([(4.0 + i // (N + 1)) if i % (N + 1) == 0 else (0.5 if (i // N + i % N) % 2 else -0.25) for i in range(N * N)], (N, N), tc)

        def shrink(M, how):
            if not hasattr(M, 'size'):
                return M
            r, q = M.size
            if how == 'lastcol':
                return M[:, :q - 1] if q > 1 else M[:r - 1, :]
            if how == 'lastrow':
                return M[:r - 1, :]
            return M[:, 0]

        matnames = [a for a in pos if hasattr(mk(a), 'size')] + optm
        plan, groups = [], []
        for vals in itertools.product(*[dom for _, dom in flags]):
            fl = dict(zip([k for k, _ in flags], vals))
            if fl.get('range') == 'V':
                fl.update({'vl': -100.0, 'vu': 100.0})
            if fl.get('range') == 'I':
                fl.update({'il': 1, 'iu': N})
            for victim in [None] + matnames:
                for how in (('lastcol', 'lastrow', 'firstcol') if victim else (None,)):
                    def call(fl=fl, victim=victim, how=how):
                        args = [shrink(mk(a), how) if a == victim else mk(a) for a in pos]
                        kw = dict(fl)
                        for k in optm:
                            kw[k] = shrink(mk(k), how) if k == victim else mk(k)
                        fn(*args, **kw)
                    plan.append((fl, victim, how, call))
                    groups.append('%s:%s:%s' % (nm, victim, how))
        results = _forked_batch([c_ for (_, _, _, c_) in plan], groups=groups)
        for (fl, victim, how, _), res in zip(plan, results):
            n_ev += 1
            nt += 1 if victim else 0
            outcomes[res[0]] = outcomes.get(res[0], 0) + 1
            if res[0] in ('signal', 'timeout'):
                viol.append({'key': 'C19:lapack.%s:short-%s:interpreter-killed' % (nm, victim or 'none'),
                             'msg': 'lapack.%s with flags %r and argument %s %s (order-%d template) killed the interpreter (%s %r)'
                                    % (nm, fl, victim, how, N, res[0], res[1]),
                             'sub': {'f': nm, 'flags': fl, 'victim': victim, 'how': how}})
    return {'n': n_ev, 'nontrivial': nt, 'viol': viol[:20], 'outcomes': outcomes}


def run_buffer_import(case):
    """matrix(x, tc=...) / spmatrix(x, I, J, tc=...) for buffer exporters of every item width (windows of a larger array, so that
    the words next to the exported items hold a sentinel): the values are those of the exported items, whatever the target
    typecode - no item is read with the wrong width.  (heap exporters: the sanitizer flavour sees reads past their end)"""
    import array
    from cvxopt import matrix, spmatrix
    viol = []
    n = 0
    SENT = {'i': 0x5A5A5A5A, 'l': 0x5A5A5A5A5A5A5A5A >> 1, 'q': 0x5A5A5A5A5A5A5A5A >> 1, 'd': 1.2345e300, 'f': 1.2345e30}
    for code in ('i', 'l', 'd', 'f'):
        vals = [3, -2, 7] if code in 'ilq' else [1.5, -2.25, 8.0]
        big = array.array(code, [SENT[code]] * 2 + vals + [SENT[code]] * 2)
        exact = array.array(code, vals)
        for name, mk in (('array', lambda: exact), ('window', lambda: memoryview(big)[2:5]), ('reversed-window', lambda: memoryview(big)[4:1:-1]),
                         ('one-item', lambda: memoryview(big)[3:4])):
            src = list(mk())
            for tc in (None, 'i', 'd', 'z'):
                n += 1
                try:
                    M = matrix(mk(), tc=tc) if tc else matrix(mk())
                except (TypeError, ValueError, BufferError):
                    continue
                got = list(M)
                if len(got) != len(src) or any(complex(g) != complex(w) for g, w in zip(got, src)):
                    viol.append({'key': 'C19:buffer-import:matrix:values-not-those-of-the-exported-items',
                                 'msg': 'matrix(%s of array(%r), tc=%r) = %r, exported items %r' % (name, code, tc, got, src),
                                 'sub': {'code': code, 'form': name, 'tc': tc}})
                    break
            if code in 'ild' and len(src) == 3:
                for tc in ('d', 'z'):
                    n += 1
                    try:
                        S = spmatrix(mk(), [0, 1, 2], [0, 0, 1], (3, 2), tc)
                    except (TypeError, ValueError, BufferError):
                        continue
                    if [complex(t) for t in S.V] != [complex(t) for t in src]:
                        viol.append({'key': 'C19:buffer-import:spmatrix:values-not-those-of-the-exported-items',
                                     'msg': 'spmatrix(%s of array(%r), ..., tc=%r).V = %r, exported items %r' % (name, code, tc, list(S.V), src)})
                        break
    return {'n': n, 'nontrivial': n, 'viol': viol[:4], 'outcomes': {'buffer-imports': n}}


def run_sparse_resize(case):
    """A.size = (r, c) on sparse matrices for every factorisation r*c of the number of entries and every pattern of a
    small family, in chains (the column pointer array is re-allocated for the new column count): the column-major
    sequence of entries is unchanged and the compressed-column arrays stay valid."""
    from cvxopt import spmatrix, matrix
    viol = []
    n = 0
    for total in (1, 2, 4, 6, 8):
        shapes = [(r, total // r) for r in range(1, total + 1) if total % r == 0]
        for mask in sorted(set([0, 1, 2 ** total - 1, (2 ** total - 1) // 3, 2 ** (total - 1), 5 % (2 ** total)])):
            cells = [p for p in range(total) if mask >> p & 1]
            for (m0, n0) in shapes:
                A = spmatrix([1.0 + p for p in cells], [p % m0 for p in cells], [p // m0 for p in cells], (m0, n0))
                flat0 = list(matrix(A))
                for (m1, n1) in shapes + shapes[::-1]:
                    n += 1
                    try:
                        A.size = (m1, n1)
                    except Exception as e:
                        viol.append({'key': 'C19:sparse-resize:exception:' + type(e).__name__, 'msg': 'A.size = %r raised %r' % ((m1, n1), e)})
                        break
                    cp, ri = list(A.CCS[0]), list(A.CCS[1])
                    ok = (A.size == (m1, n1) and len(cp) == n1 + 1 and cp[0] == 0 and cp[-1] == len(ri) == len(cells)
                          and all(a <= b for a, b in zip(cp, cp[1:]))
                          and all(0 <= ri[k] < m1 for k in range(len(ri)))
                          and all(ri[k] < ri[k + 1] for j in range(n1) for k in range(cp[j], cp[j + 1] - 1)))
                    if not ok or list(matrix(A)) != flat0:
                        viol.append({'key': 'C19:sparse-resize:structure-or-values', 'msg': 'after A.size = %r (from %r): size %r colptr %r rowind %r '
                                     'entries %r, expected the column-major entries %r' % ((m1, n1), (m0, n0), A.size, cp, ri, list(matrix(A)), flat0),
                                     'sub': {'from': [m0, n0], 'to': [m1, n1], 'cells': cells}})
                        break
                if len(viol) > 3:
                    return {'n': n, 'nontrivial': n, 'viol': viol, 'outcomes': {'resizes': n}}
    return {'n': n, 'nontrivial': n, 'viol': viol, 'outcomes': {'resizes': n}}


def run_sparse_construct(case):
    import os
    from checks import C16
    seed = int(os.environ.get('VERIF_SEED', '0') or 0)
    c = C16.Ctx()
    try:
        if case['what'] == 'blocks':
            C16.ev_blocks(c, seed, 'thorough', case['k'])
        elif case['what'] == 'spdiag':
            C16.ev_spdiag(c, seed, 'thorough')
        else:
            for f in C16.FIXED:
                for tc in 'dz':
                    C16.ev_ctor(c, [f[0], f[1], tc, f[2]], seed)
            for (m, n) in C16.SHAPES:
                for tc in 'dz':
                    for pat in C16.all_patterns(6)[::7]:
                        C16.ev_ctor(c, [m, n, tc, pat], seed)
    except Exception:
        pass                    # values and exceptions are C16's business; here: no memory error, no killed interpreter
    r = c.result()
    return {'n': r.get('n', 0), 'nontrivial': r.get('nontrivial', 0), 'viol': [], 'outcomes': {'sparse-construct:' + case['what']: r.get('n', 0)}}


def run(case):
    p = case['part']
    if p == 'sparse-construct':
        return run_sparse_construct(case)
    if p == 'lapack-shapes':
        return run_lapack_shapes(case)
    if p == 'sparse-resize':
        return run_sparse_resize(case)
    if p == 'buffer-import':
        return run_buffer_import(case)
    if p == 'lapack-small':
        return run_lapack_small(case)
    if p == 'sparse-index':
        return run_sparse_index(case)
    if p == 'blas-box':
        return run_blas_box(case)
    if p == 'blas-large':
        return run_blas_large(case)
    if p in ('lapack-large', 'lapack-list'):
        return run_lapack_large(case)
    if p == 'kernel-short':
        return run_kernel_short(case)
    return run_base_shapes(case)


SKIP_DETERMINISM_GATE = True


def crash_key(case):
    return case['part'] + ':' + str(case.get('f', case.get('k', ''))) + case.get('tA', '') + case.get('tB', '') + \
        (':inc=%s' % case['inc'] if case.get('inc') else '')
