"""C09 - solver calls are isolated, configurable and repeatable."""
import os, sys, json, subprocess, itertools
from mc import solve, qpsolve, nlsolve, hist, sched
from mc.ref import cone as R

PROPERTY = 'C09'
LEVEL = 'model_checking'
ENGINE = 'sched'
FLAVOURS = ('plain',)
RULE = ('(1) options matrix: every entry point x every documented option given per call / globally / both (conflicting): the '
        'call must behave as the per-call value says (bit-identical to setting it globally), invalid values raise ValueError; '
        '(2) explicit-state BFS over histories set_global / del_global / call(entry, per-call options or none) to depth 3: on '
        'every call the bit images of all arguments, the options dictionaries and the module dictionaries are unchanged and the '
        'result is bit-identical to the same call made first in a fresh interpreter; (3) stateless schedule exploration of two '
        'threads that each run one solve with their own options=: all schedules with <= 1 preemption at line granularity, '
        'among them two SDP solves with equal block orders with every line of misc.py a scheduling point '
        '(thorough: also <= 2 preemptions at call granularity): every thread obtains bit-identically its sequential result; '
        '(4) the per-call tolerances are the ones applied (certificate oracles of C01-C04 at tolerance sets in which the three '
        'tolerances differ); (5) a caller-owned start point object is left unchanged. '
        'non-trivial = calls compared with the fresh-interpreter reference, schedules with a preemption')
ASSUME = ['a C call (BLAS/LAPACK, with the GIL released) is atomic for the schedule explorer; only one thread runs between scheduling points',
          'fresh-interpreter reference results are computed in a separate python process per case',
          'entry points without an iterations field (cpl, cp, gp) are checked through result identity only']
BOUNDS = {'quick': '10 entry points x 6 options; histories depth 3; thread pairs (lp, lp) at every line of cvxopt/*.py and (sdp, sdp) at every line of misc.py with 1 preemption at every point of both threads, 1 mixed pair (coneqp, cpl) with 1 preemption at every call-granularity point',
          'thorough': 'histories depth 4; 3 line-granularity pairs, 6 call-granularity pairs, 2 preemptions at call granularity for 2 pairs (first preemption at points 0..119 of the start thread, second at points 0..119 of the other thread: option parsing, argument conversion and the first iterations of both solves)'}
TECHNIQUE = 'preemption-bounded exhaustive schedule exploration (CHESS style) + explicit-state BFS over option/call histories + exhaustive options matrix'

LINE_CAP = 6000
CALL_CAP = 3000
SCHED2_K = 120         # two-preemption schedules: first preemption at points < SCHED2_K, second at points < SCHED2_J
SCHED2_J = 120
MISC_CAP = 6000
ENTRIES = ['conelp', 'lp', 'socp', 'sdp', 'coneqp', 'qp', 'cpl', 'cp', 'gp', 'opsolve']
# the same entry points with an external back-end (only the Python pre/post-processing is from the working tree): history
# part only - the conelp options do not apply to them, the isolation clauses (inputs, dictionaries, repeatability) do
ENTRIES_EXT = ['lp.glpk', 'sdp.dsdp', 'opsolve.glpk']
# the cone-LP entry points called with caller-owned primalstart / dualstart dictionaries (part of the inputs that must not change)
ENTRIES_START = ['conelp.st', 'lp.st', 'socp.st', 'sdp.st']
# cone LPs whose least-squares start is already optimal (zero objective): conelp leaves through its iteration-0 return
SHORTCUT = ['conelp.sc', 'lp.sc', 'socp.sc', 'sdp.sc']


# ------------------------------------------------------------------------------------------------ fixed problems
def _problem(entry, which=0):
    """returns (call(options_or_None) -> result, args object used for 'unchanged' images)."""
    from cvxopt import matrix, solvers, modeling
    from mc import cvx
    v = which
    xkw = {}
    if '.' in entry:
        entry, be = entry.split('.')
        if be == 'sc':
            return _shortcut_problem(entry)
        if be == 'st':
            return _start_problem(entry, v)
        xkw = {'solver': be}
    if entry in ('conelp', 'lp', 'socp', 'sdp'):
        d = {'conelp': {'l': 1, 'q': [2], 's': [2]}, 'lp': {'l': 3, 'q': [], 's': []}, 'socp': {'l': 1, 'q': [3], 's': []},
             'sdp': {'l': 1, 'q': [], 's': [2]}}[entry]
        inst = next(i for i in (solve.planted(d, 2, 1 if entry != 'sdp' else 0, v + k, 'strict') for k in range(8)) if i is not None)
        a = solve.build_args(inst, {'storage': 'dense'})
        ml = d['l']
        if entry == 'conelp':
            args = [a['c'], a['G'], a['h'], a['dims'], a['A'], a['b']]
            return (lambda o: solvers.conelp(*args, **({'options': o} if o is not None else {}))), args
        if entry == 'lp':
            args = [a['c'], a['G'], a['h'], a['A'], a['b']]
            return (lambda o: solvers.lp(*args, **dict(xkw, **({'options': o} if o is not None else {})))), args
        G, h = a['G'], a['h']
        if entry == 'socp':
            args = [a['c'], G[:ml, :], h[:ml], [G[ml:, :]], [h[ml:]], a['A'], a['b']]
            return (lambda o: solvers.socp(*args, **({'options': o} if o is not None else {}))), args
        args = [a['c'], G[:ml, :], h[:ml], [G[ml:, :]], [matrix(list(h[ml:]), (2, 2))]]
        return (lambda o: solvers.sdp(*args, **dict(xkw, **({'options': o} if o is not None else {})))), args
    if entry in ('coneqp', 'qp'):
        d = {'l': 1, 'q': [2], 's': [2]} if entry == 'coneqp' else {'l': 3, 'q': [], 's': []}
        inst = next(i for i in (qpsolve.planted_qp(d, 2, 1, v + k) for k in range(8)) if i is not None)
        inst['P'] = [[inst['P'][i][j] + (1.0 if i == j else 0.0) for j in range(2)] for i in range(2)]
        a = qpsolve.build(inst, {'storage': 'dense'})
        if entry == 'coneqp':
            args = [a['P'], a['q'], a['G'], a['h'], a['dims'], a['A'], a['b']]
            return (lambda o: solvers.coneqp(*args, **({'options': o} if o is not None else {}))), args
        args = [a['P'], a['q'], a['G'], a['h'], a['A'], a['b']]
        return (lambda o: solvers.qp(*args, **({'options': o} if o is not None else {}))), args
    if entry in ('cpl', 'cp', 'gp'):
        tag = {'cpl': 'expc2', 'cp': 'acent2.1', 'gp': 'lse.%d.gp' % (v % 3)}[entry]
        pb = [p for p in nlsolve.base_problems(0) if p['tag'] == tag][0]
        if entry != 'gp':
            pb = nlsolve.with_cone(pb, {'l': 2, 'q': [], 's': []}, v, 0)
        n = len(pb['x0'])
        N = R.cdim(pb['dims'])
        Gm, hm = cvx.from_cols(pb['G'], N), cvx.dmat(pb['h'])
        if entry == 'gp':
            Fm = matrix([pb['F'][i][j] for j in range(n) for i in range(len(pb['F']))], (len(pb['F']), n), 'd')
            gm = cvx.dmat(pb['g'])
            args = [list(pb['K']), Fm, gm]
            return (lambda o: solvers.gp(*args, **({'options': o} if o is not None else {}))), args
        rec = {'calls': []}
        F = nlsolve.make_F(pb, {}, rec)
        dd = {'l': 2, 'q': [], 's': []}
        if entry == 'cp':
            args = [Gm, hm, dd]
            return (lambda o: solvers.cp(F, *args, **({'options': o} if o is not None else {}))), args
        cm = cvx.dmat(pb['c'])
        args = [cm, Gm, hm, dd]
        return (lambda o: solvers.cpl(args[0], F, *args[1:], **({'options': o} if o is not None else {}))), args
    # op.solve
    x = modeling.variable(1, 'x')
    y = modeling.variable(2, 'y')
    A = matrix([[1.0, 1.0], [1.0, -1.0 - v]])
    cons = [A * y <= matrix([2.0, 1.0 + v]), y >= -1, x - modeling.sum(y) >= -1.0, x <= 3]
    prob = modeling.op(modeling.max(x, modeling.sum(y)) + x, cons)

    def call(o):
        prob.solve(**dict(xkw, **({'options': o} if o is not None else {})))
        return {'status': prob.status, 'x': x.value, 'y': y.value, 'objective': prob.objective.value(),
                'multipliers': [c.multiplier.value for c in cons]}
    return call, [A]


def _start_problem(entry, v):
    """the problem of `entry` with primalstart / dualstart dictionaries owned by the caller; the dictionaries (their key
    sets included) and the matrices in them belong to the arguments whose image must not change"""
    from cvxopt import matrix, solvers
    d = {'conelp': {'l': 1, 'q': [2], 's': [2]}, 'lp': {'l': 3, 'q': [], 's': []}, 'socp': {'l': 1, 'q': [3], 's': []},
         'sdp': {'l': 1, 'q': [], 's': [2]}}[entry]
    inst = next(i for i in (solve.planted(d, 2, 1 if entry != 'sdp' else 0, v + k, 'strict') for k in range(8)) if i is not None)
    a = solve.build_args(inst, {'storage': 'dense'})
    ps, ds = solve.starts(inst, {'start': 'both'})
    ml = d['l']
    G, h = a['G'], a['h']
    if entry in ('conelp', 'lp'):
        args = [a['c'], G, h, a['A'], a['b'], ps, ds]
        if entry == 'conelp':
            return (lambda o: solvers.conelp(a['c'], G, h, a['dims'], a['A'], a['b'], primalstart=ps, dualstart=ds,
                                             **({'options': o} if o is not None else {}))), args
        return (lambda o: solvers.lp(a['c'], G, h, a['A'], a['b'], primalstart=ps, dualstart=ds,
                                     **({'options': o} if o is not None else {}))), args
    if entry == 'socp':
        pss = {'x': ps['x'], 'sl': ps['s'][:ml], 'sq': [ps['s'][ml:]]}
        dss = {'y': ds['y'], 'zl': ds['z'][:ml], 'zq': [ds['z'][ml:]]}
        args = [a['c'], G[:ml, :], h[:ml], [G[ml:, :]], [h[ml:]], a['A'], a['b'], pss, dss]
        return (lambda o: solvers.socp(*args[:7], primalstart=pss, dualstart=dss, **({'options': o} if o is not None else {}))), args
    pss = {'x': ps['x'], 'sl': ps['s'][:ml], 'ss': [matrix(list(ps['s'][ml:]), (2, 2))]}
    dss = {'zl': ds['z'][:ml], 'zs': [matrix(list(ds['z'][ml:]), (2, 2))]}
    args = [a['c'], G[:ml, :], h[:ml], [G[ml:, :]], [matrix(list(h[ml:]), (2, 2))], pss, dss]
    return (lambda o: solvers.sdp(*args[:5], primalstart=pss, dualstart=dss, **({'options': o} if o is not None else {}))), args


def _shortcut_problem(entry):
    """feasibility problems with zero objective: the default starting point (least-squares s, z = 0 shifted into the cone)
    is optimal, so conelp returns from its iteration-0 shortcut; option validation must not depend on that."""
    from cvxopt import matrix, solvers
    c = matrix([0.0, 0.0])
    if entry in ('conelp', 'lp'):
        G = matrix([[1.0, -1.0, 0.0, 0.0], [0.0, 0.0, 1.0, -1.0]])
        h = matrix([1.0, 1.0, 1.0, 1.0])
        if entry == 'lp':
            args = [c, G, h]
            return (lambda o: solvers.lp(*args, **({'options': o} if o is not None else {}))), args
        args = [c, G, h, {'l': 4, 'q': [], 's': []}]
        return (lambda o: solvers.conelp(*args, **({'options': o} if o is not None else {}))), args
    if entry == 'socp':
        Gq = [matrix([[0.0, -1.0, 0.0], [0.0, 0.0, -1.0]])]
        hq = [matrix([1.0, 0.0, 0.0])]
        args = [c, None, None, Gq, hq]
        return (lambda o: solvers.socp(c, Gq=Gq, hq=hq, **({'options': o} if o is not None else {}))), args
    Gs = [matrix([[-1.0, 0.0, 0.0, -1.0], [0.0, -1.0, -1.0, 0.0]])]
    hs = [matrix([[2.0, 0.0], [0.0, 2.0]])]
    args = [c, Gs, hs]
    return (lambda o: solvers.sdp(c, Gs=Gs, hs=hs, **({'options': o} if o is not None else {}))), args


def _image(res):
    from mc import cvx
    if isinstance(res, Exception):
        return ('EXC', type(res).__name__)
    return cvx.image(res)


def _do(call, o):
    try:
        return call(o)
    except Exception as e:
        return e


OPT_VALUES = {
    'maxiters': ([2, 5], [0, -1, 1.5, '10']),
    'abstol': ([1e-2], ['a']),
    'reltol': ([1e-2], ['a']),
    'feastol': ([1e-3], [0, -1.0, 'x']),
    'refinement': ([0, 2], [-1, 1.5]),
    'show_progress': ([False], []),
}


# ------------------------------------------------------------------------------------------------ cases
def cases(tier, seed, flavour):
    for e in ENTRIES:
        yield {'part': 'options', 'entry': e, 'seed': seed}
    for d in ({'l': 3, 'q': [], 's': []}, {'l': 1, 'q': [3], 's': []}, {'l': 1, 'q': [], 's': [2]}, {'l': 1, 'q': [2], 's': [2]}):
        yield {'part': 'tolerances', 'dims': d, 'seed': seed}
    for e in SHORTCUT:
        yield {'part': 'options', 'entry': e, 'seed': seed}
    for e in ENTRIES:
        yield {'part': 'hist', 'entry': e, 'depth': 3 if tier == 'quick' else 4, 'seed': seed}
    for e in ENTRIES_EXT + ENTRIES_START:
        yield {'part': 'hist', 'entry': e, 'depth': 2 if tier == 'quick' else 3, 'seed': seed}
    for tag, cone in (('ball2.0', None), ('ballo2.0', None), ('ballo1.1', None), ('quad2.0', {'l': 1, 'q': [2], 's': [2]}),
                      ('acent2.0.015625', {'l': 1, 'q': [2], 's': [2]}), ('logdom.0.1', None), ('expc2', None), ('lse.0.cp', None)):
        yield {'part': 'startpoint', 'tag': tag, 'cone': cone, 'seed': seed}
    # line granularity (every line of cvxopt/*.py is a scheduling point) for the pair of equal-dimension LP solves;
    # call granularity (every call of a cvxopt python function) for the mixed pairs
    line_pairs = [('lp', 'lp')] if tier == 'quick' else [('lp', 'lp'), ('conelp', 'conelp'), ('coneqp', 'qp')]
    call_pairs = [('coneqp', 'cpl')] if tier == 'quick' else \
        [('conelp', 'conelp'), ('coneqp', 'cpl'), ('socp', 'cp'), ('lp', 'opsolve'), ('sdp', 'qp'), ('gp', 'cp')]
    line_cap = LINE_CAP if tier == 'quick' else 20000
    for pr, gran in [(p, 'line') for p in line_pairs] + [(p, 'call') for p in call_pairs]:
        yield {'part': 'sched-count', 'pair': list(pr), 'gran': gran, 'seed': seed, 'cap': line_cap if gran == 'line' else CALL_CAP}
    # the one-preemption schedules are sharded in chunks; the number of points is checked by the 'sched-count' case
    # (a point index beyond the count ends the shard and is not counted)
    for pr in line_pairs:
        for start in (0, 1):
            for lo in range(0, line_cap, 125):
                yield {'part': 'sched', 'pair': list(pr), 'gran': 'line', 'start': start, 'lo': lo, 'hi': lo + 125, 'seed': seed}
    for pr in call_pairs:
        for start in (0, 1):
            for lo in range(0, CALL_CAP, 100):
                yield {'part': 'sched', 'pair': list(pr), 'gran': 'call', 'start': start, 'lo': lo, 'hi': lo + 100, 'seed': seed}
    # two SDP solves with 's' blocks of the same order, every line of misc.py (scalings, KKT solvers, cone kernels: the
    # code with per-call work arrays) a scheduling point
    yield {'part': 'sched-count', 'pair': ['sdp', 'sdp'], 'gran': 'line', 'seed': seed, 'cap': MISC_CAP, 'scope': 'misc'}
    for start in (0, 1):
        for lo in range(0, MISC_CAP, 125):
            yield {'part': 'sched', 'pair': ['sdp', 'sdp'], 'gran': 'line', 'start': start, 'lo': lo, 'hi': lo + 125, 'seed': seed,
                   'scope': 'misc'}
    if tier == 'thorough':
        for pr in call_pairs[:2]:
            for start in (0, 1):
                for lo in range(0, SCHED2_K, 2):
                    yield {'part': 'sched2', 'pair': list(pr), 'gran': 'call', 'start': start, 'lo': lo, 'hi': lo + 2, 'seed': seed}


# ------------------------------------------------------------------------------------------------ part 1
def run_options(case):
    from cvxopt import solvers
    e = case['entry']
    viol = []
    n = nt = 0
    call, args = _problem(e, case['seed'])
    base_opts = {'show_progress': False}

    def fresh_globals(**kw):
        solvers.options.clear()
        solvers.options.update(base_opts)
        solvers.options.update(kw)
    try:
        for opt, (good, bad) in OPT_VALUES.items():
            for val in good:
                other = {'maxiters': 50, 'abstol': 1e-9, 'reltol': 1e-9, 'feastol': 1e-9, 'refinement': 1, 'show_progress': False}[opt]
                # reference: value set globally, no per-call dictionary
                fresh_globals(**{opt: val})
                ref = _image(_do(call, None))
                # per call only
                fresh_globals()
                snap = dict(solvers.options)
                r1 = _do(call, dict(base_opts, **{opt: val}))
                if dict(solvers.options) != snap:
                    viol.append({'key': 'C09:options:global-options-modified:%s@%s' % (opt, e),
                                 'msg': '%s(options={%r: %r}) changed solvers.options from %r to %r' % (e, opt, val, snap, dict(solvers.options))})
                # both, conflicting: the per-call value must win
                fresh_globals(**{opt: other})
                r2 = _do(call, dict(base_opts, **{opt: val}))
                n += 3
                nt += 1
                for name, r in (('per-call', r1), ('per-call-vs-conflicting-global', r2)):
                    if _image(r) != ref:
                        viol.append({'key': 'C09:options:%s-not-honoured:%s@%s' % (name, opt, e),
                                     'msg': "%s(options={%r: %r}) does not give the result of setting solvers.options[%r] = %r "
                                            "(status/iterations %s vs reference)" % (e, opt, val, opt, val, _brief(r)),
                                     'sub': {'entry': e, 'option': opt, 'value': val}})
                if opt == 'maxiters' and not isinstance(r1, Exception) and isinstance(r1, dict) and 'iterations' in r1:
                    if r1['iterations'] > val:
                        viol.append({'key': 'C09:options:maxiters-exceeded@%s' % e,
                                     'msg': '%s(options={maxiters: %d}) ran %d iterations' % (e, val, r1['iterations'])})
            for val in bad:
                fresh_globals()
                r = _do(call, dict(base_opts, **{opt: val}))
                n += 1
                if not isinstance(r, ValueError):
                    viol.append({'key': 'C09:options:invalid-value-accepted:%s@%s' % (opt, e),
                                 'msg': '%s(options={%r: %r}) should raise ValueError, got %s' % (e, opt, val, _brief(r)),
                                 'sub': {'entry': e, 'option': opt, 'value': repr(val)}})
        # progress output is only output: the result with show_progress True (per call, and by default: no entry at all)
        # equals the result with show_progress False
        fresh_globals()
        quiet = _image(_do(call, {'show_progress': False}))
        loud = _do(call, {'show_progress': True})
        solvers.options.clear()
        dflt = _do(call, None)
        n += 3
        nt += 2
        for how, r in (('show_progress=True', loud), ('no show_progress entry anywhere', dflt)):
            if _image(r) != quiet:
                viol.append({'key': 'C09:options:show_progress-changes-result@%s' % e,
                             'msg': '%s with %s gives %s, with show_progress False %s' % (e, how, _brief(r), 'another result')})
        # an EMPTY per-call dictionary is still a per-call dictionary: the globals must not leak in
        solvers.options.clear()
        ref_empty = _image(_do(call, {}))
        solvers.options.clear()
        solvers.options.update({'maxiters': 1, 'feastol': 1e-1})
        r_empty = _do(call, {})
        n += 2
        nt += 1
        if _image(r_empty) != ref_empty:
            viol.append({'key': 'C09:options:empty-per-call-dictionary-ignored@%s' % e,
                         'msg': "%s(options={}) with solvers.options = {'maxiters': 1, 'feastol': 0.1} gives %s, not the result of the "
                                "defaults" % (e, _brief(r_empty))})
        # no positive gap tolerance at all (every sign combination on the boundary), per call and globally
        for (at, rt) in ((-1.0, -1.0), (0.0, 0.0), (0.0, -1.0), (-1.0, 0.0)):
            for how in ('per-call', 'global'):
                if how == 'per-call':
                    fresh_globals()
                    r = _do(call, dict(base_opts, abstol=at, reltol=rt))
                else:
                    fresh_globals(abstol=at, reltol=rt)
                    r = _do(call, None)
                n += 1
                if not isinstance(r, ValueError):
                    viol.append({'key': 'C09:options:invalid-value-accepted:abstol+reltol@%s' % e,
                                 'msg': '%s with abstol = %r and reltol = %r (%s) should raise ValueError, got %s'
                                        % (e, at, rt, how, _brief(r))})
    finally:
        solvers.options.clear()
    return {'n': n, 'nontrivial': nt, 'viol': viol[:12], 'outcomes': {'options-matrix': n}, 'states': nt, 'transitions': n, 'traces': n}


def _brief(r):
    if isinstance(r, Exception):
        return repr(r)
    if isinstance(r, dict):
        return 'status=%r iterations=%r' % (r.get('status'), r.get('iterations'))
    return repr(r)[:80]


# ------------------------------------------------------------------------------------------------ part 2
HIST_OPTSETS = [None, {'show_progress': False, 'maxiters': 3, 'refinement': 0}, {'show_progress': False, 'feastol': 1e-3, 'abstol': 1e-2, 'reltol': 1e-2}]
HIST_GLOBAL = [('maxiters', 4), ('abstol', 1e-3), ('refinement', 2)]
# per-call dictionaries that carry parameters for the external back-end (an iteration limit changes the answer)
HIST_OPTSETS_EXT = [None, {'show_progress': False, 'glpk': {'msg_lev': 'GLP_MSG_OFF', 'it_lim': 1}, 'dsdp': {'DSDP_Monitor': 0, 'DSDP_MaxIts': 2}},
                    {'show_progress': False, 'glpk': {'msg_lev': 'GLP_MSG_OFF'}, 'dsdp': {'DSDP_Monitor': 0}}]


def _fresh_reference(entry, seed, effs):
    """results of `call(options=eff)` made FIRST in a fresh interpreter, one process per effective-options value."""
    out = {}
    code = ("import sys, json; sys.path.insert(0, %r)\n"
            "import checks.C09 as C\n"
            "eff = json.loads(sys.argv[1])\n"
            "call, args = C._problem(%r, %d)\n"
            "r = C._do(call, eff)\n"
            "import pickle; open(sys.argv[2], 'wb').write(pickle.dumps(C._image(r)))\n") % (os.path.dirname(os.path.dirname(os.path.abspath(__file__))), entry, seed)
    import pickle, tempfile
    for key, eff in effs.items():
        fd, tmp = tempfile.mkstemp(prefix='c09-', dir=os.path.join(os.path.dirname(os.path.dirname(os.path.abspath(__file__))), '.cache'))
        os.close(fd)
        try:
            p = subprocess.run([sys.executable, '-c', code, json.dumps(eff), tmp], stdout=subprocess.DEVNULL, stderr=subprocess.PIPE)
            if p.returncode != 0:
                raise RuntimeError('fresh interpreter failed: ' + p.stderr.decode()[-800:])
            out[key] = pickle.loads(open(tmp, 'rb').read())
        finally:
            os.unlink(tmp)
    return out


def _ext_options():
    """the module-level option dictionaries of the external back-ends (cvxopt.glpk.options, cvxopt.dsdp.options)"""
    out = {}
    for name in ('glpk', 'dsdp'):
        try:
            mod = __import__('cvxopt.' + name, fromlist=['options'])
            out[name] = repr(sorted(dict(mod.options).items()))
        except Exception:
            out[name] = None
    return out


def run_hist(case):
    from cvxopt import solvers, coneprog, cvxprog, misc, modeling
    from mc import cvx
    e = case['entry']
    seed = case['seed']
    mods = [coneprog, cvxprog, misc, solvers, modeling]
    HIST_OPTSETS = HIST_OPTSETS_EXT if e in ENTRIES_EXT else globals()['HIST_OPTSETS']

    def eff_of(glob, oc):
        if oc is not None:
            return dict(oc)
        g = dict(glob)
        g.setdefault('show_progress', False)
        return g

    # all effective option dictionaries that can occur
    globs = [()]
    for r in (1, 2, 3):
        for comb in itertools.combinations(HIST_GLOBAL, r):
            globs.append(comb)
    effs = {}
    for g in globs:
        for oc in HIST_OPTSETS:
            ef = eff_of(dict(g, show_progress=False) if True else g, oc)
            effs[json.dumps(ef, sort_keys=True)] = ef
    ref = _fresh_reference(e, seed, effs)

    def build(h):
        solvers.options.clear()
        solvers.options['show_progress'] = False
        call, args = _problem(e, seed)
        obs = []
        for ev in h:
            if ev[0] == 'set':
                solvers.options[ev[1]] = ev[2]
            elif ev[0] == 'del':
                solvers.options.pop(ev[1], None)
            else:
                oc = HIST_OPTSETS[ev[1]]
                ocd = dict(oc) if oc is not None else None
                before_args = cvx.image(args)
                before_glob = dict(solvers.options)
                before_ext = _ext_options()
                before_mods = [(m.__name__, tuple(sorted(k for k in m.__dict__ if not k.startswith('__')))) for m in mods]
                r = _do(call, ocd)
                obs.append({'ev': ev, 'res': _image(r), 'brief': _brief(r), 'eff': json.dumps(eff_of(before_glob, oc), sort_keys=True),
                            'args_same': cvx.image(args) == before_args,
                            'glob_same': dict(solvers.options) == before_glob and _ext_options() == before_ext,
                            'percall_same': ocd == (dict(oc) if oc is not None else None),
                            'mods_same': [(m.__name__, tuple(sorted(k for k in m.__dict__ if not k.startswith('__')))) for m in mods] == before_mods})
        return {'glob': dict(solvers.options), 'obs': obs}

    def alphabet(o):
        evs = [('set', k, v) for (k, v) in HIST_GLOBAL if o['glob'].get(k) != v]
        evs += [('del', k) for (k, v) in HIST_GLOBAL if k in o['glob']]
        evs += [('call', i) for i in range(len(HIST_OPTSETS))]
        return evs

    def canon(o):
        return (tuple(sorted((k, repr(v)) for k, v in o['glob'].items())), len(o['obs']), repr(o['obs'][-1]['res']) if o['obs'] else None)

    def invariant(o, h):
        v = []
        if not o['obs'] or h[-1][0] != 'call':
            return v
        ob = o['obs'][-1]
        for fld, what in (('args_same', 'an input argument'), ('glob_same', 'solvers.options'), ('percall_same', 'the per-call options dictionary'),
                          ('mods_same', 'a module dictionary (new module-level attribute)')):
            if not ob[fld]:
                v.append({'key': 'C09:hist:modified:%s@%s' % (fld.replace('_same', ''), e), 'msg': '%s modified %s (history %r)' % (e, what, h)})
        # (an effective option set outside the pre-computed table can only arise from an options dictionary that a
        # solver modified: reported above)
        if ob['eff'] in ref and ob['res'] != ref[ob['eff']]:
            v.append({'key': 'C09:hist:result-depends-on-history@%s' % e,
                      'msg': 'call %r after history %r gives %s, not the result of the same call made first in a fresh interpreter with '
                             'effective options %s' % (ob['ev'], h[:-1], ob['brief'], ob['eff'])})
        return v
    try:
        r = hist.explore((), alphabet, build, canon, invariant, case['depth'], keep=1)
    finally:
        solvers.options.clear()
    return {'n': r['traces'], 'nontrivial': r['states'], 'states': r['states'], 'transitions': r['transitions'], 'traces': r['traces'],
            'viol': [{'key': x['key'], 'msg': x['msg'], 'sub': {'history': x.get('history')}} for x in r['violations']],
            'outcomes': {'histories': r['traces']}}


# ------------------------------------------------------------------------------------------------ part 3
def _bodies(pair, seed, scope=None):
    import cvxopt
    from cvxopt import solvers
    solvers.options.clear()
    solvers.options['show_progress'] = False
    optsets = [{'show_progress': False, 'abstol': 1e-7}, {'show_progress': False, 'feastol': 1e-6, 'maxiters': 60}]
    calls = []
    argss = []
    for i, e in enumerate(pair):
        call, args = _problem(e, seed + i)         # different data, for ('conelp','conelp') equal dimensions
        calls.append(call)
        argss.append(args)
    bodies = [(lambda c=calls[i], o=optsets[i]: _do(c, dict(o))) for i in range(len(pair))]
    pkg = os.path.dirname(os.path.abspath(cvxopt.__file__))
    if scope:
        # scheduling points only inside one module (e.g. misc.py: scalings, KKT solvers, cone kernels)
        return bodies, argss, (lambda f: f.startswith(pkg) and os.path.basename(f) == scope + '.py')
    return bodies, argss, (lambda f: f.startswith(pkg))


def run_sched(case):
    from mc import cvx
    pair = case['pair']
    bodies, argss, scope = _bodies(pair, case['seed'], case.get('scope'))
    seq = [_image(b()) for b in bodies]                 # sequential results (same process, same options)
    args0 = [cvx.image(a) for a in argss]
    viol = []
    n = nt = 0
    if case['part'] == 'sched-count':
        outs = {}
        for start in (0, 1):
            ex = sched.count_points(bodies, scope, case['gran'], start)
            n += 1
            outs['points-start%d' % start] = ex.points[start]
            for t in (0, 1):
                if _image(ex.results[t] if ex.errors[t] is None else ex.errors[t]) != seq[t]:
                    viol.append({'key': 'C09:sched:result-differs-from-sequential@%s' % pair[t],
                                 'msg': 'zero-preemption schedule (start %d): thread %d result differs from its sequential result' % (start, t)})
            cap = case.get('cap') or (LINE_CAP if case['gran'] == 'line' else CALL_CAP)
            if ex.points[start] >= cap:
                viol.append({'key': 'C09:harness:more-points-than-sharded', 'msg': 'thread %d passes %d scheduling points, shards cover %d' % (start, ex.points[start], cap)})
        return {'n': n, 'nontrivial': 0, 'viol': viol, 'outcomes': {'schedules-0-preemptions': n}, 'extra': outs,
                'states': n, 'transitions': n, 'traces': n}
    start = case['start']
    if case['part'] == 'sched':
        plans = [[(start, k)] for k in range(case['lo'], case['hi'])]
    else:
        # two preemptions at call granularity: preempt the start thread at k, then the other thread at every j
        other = 1 - start
        plans = [[(start, k), (other, j)] for k in range(case['lo'], case['hi']) for j in range(0, SCHED2_J)]
    npts = None
    for plan in plans:
        if npts is not None and plan[0][1] >= npts:
            break
        ex = sched.Execution(bodies, scope, case['gran'], start, plan).run()
        if ex.points[start] <= plan[0][1]:
            npts = ex.points[start]        # beyond the last point of the start thread: nothing left in this shard
            break
        n += 1
        nt += 1 if ex.trace else 0
        for t in (0, 1):
            r = ex.errors[t] if ex.errors[t] is not None else ex.results[t]
            if _image(r) != seq[t]:
                viol.append({'key': 'C09:sched:result-differs-from-sequential@%s' % pair[t],
                             'msg': 'schedule %r (start thread %d, %s granularity): thread %d (%s) obtained %s instead of its sequential result'
                                    % (plan, start, case['gran'], t, pair[t], _brief(r)), 'sub': {'pair': pair, 'schedule': plan, 'start': start}})
        if [cvx.image(a) for a in argss] != args0:
            viol.append({'key': 'C09:sched:arguments-modified', 'msg': 'schedule %r modified an input argument' % (plan,)})
        if len(viol) > 5:
            break
    return {'n': n, 'nontrivial': nt, 'viol': viol[:6], 'outcomes': {'schedules-with-preemption': n},
            'states': n, 'transitions': n, 'traces': n}


def run_tolerances(case):
    """the given tolerances are the ones applied: certificate oracles of C01/C02 evaluated at per-call tolerance sets in
    which abstol, reltol and feastol all differ, on optimal, primal infeasible and dual infeasible instances."""
    O = solve.Oracle(PROPERTY)
    n = nt = 0
    outcomes = {}
    optsets = [{'feastol': 1e-9, 'abstol': 1e-3, 'reltol': 1e-3}, {'feastol': 1e-3, 'abstol': 1e-9, 'reltol': 1e-9},
               {'feastol': 1e-5, 'abstol': -1.0, 'reltol': 1e-2}]
    d = case['dims']
    for kind in ('strict', 'pinf', 'dinf'):
        inst = next((i for i in (solve.planted(d, 2, 0, case['seed'] + k, kind) for k in range(6)) if i is not None), None)
        if inst is None:
            continue
        entries = ['conelp'] + (['lp'] if not d['q'] and not d['s'] else []) + (['socp'] if not d['s'] else []) + (['sdp'] if not d['q'] else [])
        for e in entries:
            for o in optsets:
                cfg = {'entry': e, 'storage': 'dense', 'kkt': None, 'opts': o}
                res, _ = solve.call(inst, cfg)
                n += 1
                nv = len(O.viol)
                lab = solve.check_result(O, inst, res, e, cfg)
                outcomes[lab] = outcomes.get(lab, 0) + 1
                nt += 1 if lab in ('optimal', 'primal infeasible', 'dual infeasible') else 0
                for v in O.viol[nv:]:
                    v['key'] = v['key'].replace('C09:', 'C09:tolerances:') + '@' + e
                    v['sub'] = {'instance': {k: inst[k] for k in ('c', 'G', 'h', 'dims', 'A', 'b')}, 'cfg': cfg}
    # the same for the quadratic and the nonlinear entry points: tolerance sets in which the relative gap is met long
    # before the tight feasibility tolerance (and the other way round) judged by the C03 / C04 certificate oracles
    nlsets = [{'feastol': 1e-9, 'abstol': 1e-12, 'reltol': 0.5}, {'feastol': 1e-2, 'abstol': 1e-9, 'reltol': 1e-9}]
    qinst = next((i for i in (qpsolve.planted_qp(d, 2, 1, case['seed'] + k) for k in range(8)) if i is not None), None)
    if qinst is not None:
        qinst['P'] = [[qinst['P'][i][j] + (1.0 if i == j else 0.0) for j in range(2)] for i in range(2)]
        for e in ['coneqp'] + (['qp'] if not d['q'] and not d['s'] else []):
            for o in nlsets:
                cfg = {'entry': e, 'storage': 'dense', 'kkt': None, 'opts': o}
                res, _ = qpsolve.call(qinst, cfg)
                n += 1
                nv = len(O.viol)
                if not isinstance(res, Exception) and res.get('status') == 'optimal':
                    qpsolve.check_optimal(O, qinst, res, cfg)
                    nt += 1
                for v in O.viol[nv:]:
                    v['key'] = v['key'].replace('C09:', 'C09:tolerances:') + '@' + e
                    v['sub'] = {'cfg': cfg}
    for tag in ('acent2.1', 'expc2', 'lse.0.cp', 'lse.0.gp', 'quad2.0'):
        pb = [p_ for p_ in nlsolve.base_problems(case['seed'] % 4) if p_['tag'] == tag][0]
        if pb['entry'] != 'gp':
            pb = nlsolve.with_cone(pb, d, case['seed'] % 4, 0)
        elif d['q'] or d['s']:
            continue
        for o in nlsets:
            cfg = {'opts': o}
            res, rec = nlsolve.call(pb, cfg)
            n += 1
            nv = len(O.viol)
            if not isinstance(res, Exception) and res.get('status') == 'optimal':
                nlsolve.check_optimal(O, pb, res, cfg, rec)
                nt += 1
            for v in O.viol[nv:]:
                v['key'] = v['key'].replace('C09:', 'C09:tolerances:') + '@' + pb['entry']
                v['sub'] = {'problem': tag, 'cfg': cfg}
    return {'n': n, 'nontrivial': nt, 'viol': O.viol[:10], 'outcomes': outcomes, 'states': n, 'transitions': n, 'traces': n}


def run_startpoint(case):
    """the start point object that F() hands out belongs to the caller: after the solve it holds the same bits, and a
    second identical call gives the bit-identical result (problems on which cpl saves / restores its line-search state)."""
    from mc import cvx
    viol = []
    n = nt = 0
    pb = [p for p in nlsolve.base_problems(case['seed'] % 4) if p['tag'] == case['tag']][0]
    if case.get('cone'):
        pb = nlsolve.with_cone(pb, case['cone'], case['seed'] % 4, 0)
    ref, _ = nlsolve.call(pb, {})
    x0 = cvx.dmat(pb['x0'])
    before = cvx.image(x0)
    outs = []
    for rep in range(2):
        res, _ = nlsolve.call(pb, {'persistent_x0': x0})
        n += 1; nt += 1
        outs.append(_image(res))
        if cvx.image(x0) != before:
            viol.append({'key': 'C09:startpoint:modified@%s' % pb['entry'],
                         'msg': '%s overwrote the start point object returned by F(): %r -> %r (call %d, problem %s)'
                                % (pb['entry'], pb['x0'], list(x0), rep + 1, case['tag']), 'sub': {'tag': case['tag']}})
            break
    if not viol:
        if outs[0] != outs[1]:
            viol.append({'key': 'C09:startpoint:second-call-differs@%s' % pb['entry'], 'msg': 'the second identical call gives a different result'})
        if outs[0] != _image(ref):
            viol.append({'key': 'C09:startpoint:differs-from-fresh-start-object@%s' % pb['entry'],
                         'msg': 'result with a caller-owned start point object differs from the result with a fresh one'})
    return {'n': n, 'nontrivial': nt, 'viol': viol, 'outcomes': {'startpoint-calls': n}}


def run(case):
    if case['part'] == 'startpoint':
        return run_startpoint(case)
    if case['part'] == 'tolerances':
        return run_tolerances(case)
    if case['part'] == 'options':
        return run_options(case)
    if case['part'] == 'hist':
        return run_hist(case)
    return run_sched(case)


SKIP_DETERMINISM_GATE = True


def crash_key(case):
    return case['part']
