"""C06 - the answer does not depend on problem presentation or solver path."""
import itertools
from mc import dom, solve, qpsolve, nlsolve
from mc.ref import cone as R
from mc.ref import lpexact

PROPERTY = 'C06'
LEVEL = 'exploration'
ENGINE = 'bex'
FLAVOURS = ('plain',)
RULE = ('for every well-posed base instance (planted strictly feasible cone LPs of every cone structure, planted cone QPs '
        'with positive definite P, nonlinear library problems) ALL presentations of the list are solved and compared with the '
        'base presentation: dense/sparse, every KKT solver name the entry point accepts, conelp vs lp/socp/sdp, coneqp vs qp, '
        'operator form with a user KKT solver, valid start points, the first scalar inequality re-encoded as a 1-dimensional q '
        "cone or an order-1 s cone, all permutations of the 'l' rows (<= 3!) and of the variables, objective scaled by 1/4 and 4, "
        'GLPK / DSDP back-ends; plus, for every entry point x every name in {ldl, ldl2, qr, chol, chol2, foo, ""}, the '
        'accept / reject decision and that a rejection is a ValueError raised before any callback of the problem is evaluated. '
        'non-trivial = presentations that ended optimal and were compared')
ASSUME = ['optimal values compared at 1e-6 * max(1, |p*|) after undoing the scaling; solutions at 5e-3 only for QPs with positive definite P (unique minimiser)',
          "supported names per entry point: conelp/lp/socp/sdp {ldl, ldl2, qr, chol, chol2 (componentwise cones only)}, coneqp/qp/cpl {ldl, ldl2, chol, chol2}, cp/gp {ldl, chol, chol2}"]
BOUNDS = {'quick': 'quick cone structures x (n,p) in {(2,0),(2,1)} x 8 variants for conelp; 10 structures for coneqp; 20 nonlinear problems; ~40 presentations each',
          'thorough': 'all D_small x (n,p) in {(2,0),(2,1),(3,1)} x 12 variants'}
TECHNIQUE = 'bounded exhaustive enumeration of base instances x all listed presentations; pairwise agreement with the base presentation'

NAMES = ['ldl', 'ldl2', 'qr', 'chol', 'chol2', 'foo', '']


def cases(tier, seed, flavour):
    structs = dom.nonempty(dom.structures(tier))
    nps = [(2, 0), (2, 1)] + ([(3, 1)] if tier == 'thorough' else [])
    for d in structs:
        for (n, p) in nps:
            for v in range(8 if tier == 'quick' else 12):
                yield {'fam': 'conelp', 'dims': d, 'n': n, 'p': p, 'variant': v}
    for n in (5, 8):
        for v in range(2 if tier == 'quick' else 8):
            yield {'fam': 'conelp', 'dims': 'arrow', 'n': n, 'p': 2, 'variant': v}
    # as many variables as the rank assumption allows (an 's' block of order k carries k(k+1)/2 independent coordinates)
    for d in structs:
        npk = R.cdim_packed(d)
        if d['s'] and max(d['s']) >= 2 and npk <= 6:
            for (n, p) in ((npk, 0), (npk + 1, 1)):
                for v in range(2 if tier == 'quick' else 4):
                    yield {'fam': 'conelp', 'dims': d, 'n': n, 'p': p, 'variant': v}
    for d in (structs if tier == 'thorough' else structs[:14]):
        for (n, p) in nps[:2]:
            yield {'fam': 'coneqp', 'dims': d, 'n': n, 'p': p, 'variant': seed}
    for i, pb in enumerate(nlsolve.base_problems(seed)):
        if pb['tag'].endswith('9.53674e-07') or pb['tag'].endswith('.edge') or pb['tag'].startswith('ball'):
            continue
        yield {'fam': 'nl', 'idx': i, 'seed': seed, 'tag': pb['tag']}
    for e in ('conelp', 'lp', 'socp', 'sdp', 'coneqp', 'qp', 'cpl', 'cp', 'gp'):
        yield {'fam': 'names', 'entry': e, 'seed': seed}


# ---------------------------------------------------------------------------------------------- transformations
def _perm_vars(inst, perm):
    i2 = dict(inst)
    i2['c'] = [inst['c'][j] for j in perm]
    i2['G'] = [inst['G'][j] for j in perm]
    i2['A'] = [[row[j] for j in perm] for row in inst['A']]
    return i2


def _perm_lrows(inst, perm):
    d = inst['dims']
    l = d['l']
    i2 = dict(inst)
    i2['G'] = [[col[perm[i]] for i in range(l)] + col[l:] for col in inst['G']]
    i2['h'] = [inst['h'][perm[i]] for i in range(l)] + inst['h'][l:]
    return i2


def _reencode(inst, kind):
    """move the first 'l' row into a new 1-dimensional 'q' cone (placed first among the q blocks) or an order-1 's' cone
    (placed first among the s blocks)."""
    d = inst['dims']
    l = d['l']
    nq = sum(d['q'])
    i2 = dict(inst)
    if kind == 'q':
        i2['dims'] = {'l': l - 1, 'q': [1] + list(d['q']), 's': list(d['s'])}
        mv = lambda v: v[1:l] + [v[0]] + v[l:]
    else:
        i2['dims'] = {'l': l - 1, 'q': list(d['q']), 's': [1] + list(d['s'])}
        mv = lambda v: v[1:l] + v[l:l + nq] + [v[0]] + v[l + nq:]
    i2['G'] = [mv(col) for col in inst['G']]
    i2['h'] = mv(inst['h'])
    return i2


def _scaled(inst, t):
    i2 = dict(inst)
    i2['c'] = [t * v for v in inst['c']]
    return i2


def _call_operator_conelp(inst):
    from cvxopt import solvers
    from mc import cvx
    d = inst['dims']
    n, p, N = len(inst['c']), len(inst['A']), R.cdim(d)
    calls = {'G': 0, 'A': 0}

    def fG(x, y, alpha=1.0, beta=0.0, trans='N'):
        calls['G'] += 1
        v = R.Gx(inst['G'], list(x), N) if trans == 'N' else R.GTz(inst['G'], list(x), d)
        for i in range(len(v)):
            y[i] = alpha * v[i] + (beta * y[i] if beta != 0.0 else 0.0)

    def fA(x, y, alpha=1.0, beta=0.0, trans='N'):
        calls['A'] += 1
        xs = list(x)
        v = [sum(inst['A'][i][j] * xs[j] for j in range(n)) for i in range(p)] if trans == 'N' else \
            [sum(inst['A'][i][j] * xs[i] for i in range(p)) for j in range(n)]
        for i in range(len(v)):
            y[i] = alpha * v[i] + (beta * y[i] if beta != 0.0 else 0.0)
    try:
        return solvers.conelp(cvx.dmat(inst['c']), fG, cvx.dmat(solve.lower_sym(inst['h'], d)),
                              {'l': d['l'], 'q': list(d['q']), 's': list(d['s'])}, fA, cvx.dmat(inst['b']),
                              kktsolver=solve.ref_kkt(inst), options={'show_progress': False})
    except Exception as e:
        return e


LOOSE_RETRY = {'feastol': 1e-5, 'abstol': 1e-5, 'reltol': 1e-4}


def _summ(res):
    if isinstance(res, Exception):
        return ('exc:' + type(res).__name__, None)
    st = str(res.get('status'))
    if st == 'unknown':
        # the escape clause of C05: a final iterate whose residuals and gap are already at the 1e-5 level counts as solved
        try:
            if res['primal infeasibility'] <= 1e-5 and res['dual infeasibility'] <= 1e-5 and \
                    (res['gap'] <= 1e-5 or (res['relative gap'] is not None and res['relative gap'] <= 1e-5)):
                return ('optimal', res.get('primal objective'), 'near')
        except Exception:
            pass
    return (st, res.get('primal objective'))


# ---------------------------------------------------------------------------------------------- run
def run(case):
    O = solve.Oracle(PROPERTY)
    outcomes = {}
    n_ev = nontriv = 0

    def compare(name, got, base, scale_back=1.0, key_entry='conelp', retry=None):
        nonlocal n_ev, nontriv
        n_ev += 1
        st, val = got[0], got[1]
        near = len(got) > 2
        if st != base[0] and retry is not None:
            # classify the failure: does the same presentation reach the base answer at 100x looser tolerances?  Then its
            # linear algebra ran out of accuracy before the default tolerances (a robustness finding about that KKT
            # solver), which is a different defect from a presentation that computes a different answer.
            again = _summ(retry())
            if again[0] == base[0] and (base[0] != 'optimal' or
                                        abs(again[1] / scale_back - base[1]) <= 1e-3 * max(1.0, abs(base[1]))):
                O.bad('status-differs:%s:accuracy-limited@%s' % (name, key_entry),
                      'presentation %s gives %r at the default tolerances (base presentation %r) and the base answer only '
                      'with feastol/abstol 1e-5, reltol 1e-4' % (name, st, base[0]))
                outcomes[st] = outcomes.get(st, 0) + 1
                return
        outcomes[st + ('(unknown within 1e-5)' if near else '')] = outcomes.get(st + ('(unknown within 1e-5)' if near else ''), 0) + 1
        if st != base[0]:
            # the key names the exception class so that a recorded finding about one failure mode cannot hide another
            O.bad('status-differs:%s%s@%s' % (name, '->' + st if st.startswith('exc:') else '', key_entry),
                  'presentation %s gives %r, base presentation gives %r' % (name, st, base[0]))
            return
        if st == 'optimal':
            nontriv += 1
            v = val / scale_back
            # each presentation only guarantees its own gap <= max(abstol, reltol*|cost|) (1e-6 relative by default; the
            # back-ends and the near-optimal escape 1e-5): two of them may differ by the sum of their guarantees
            loose = near or any(t in name for t in ('dsdp', 'glpk'))
            if abs(v - base[1]) > (2e-4 if loose else 1e-5) * max(1.0, abs(base[1])):
                O.bad('objective-differs:%s@%s' % (name, key_entry), 'presentation %s gives optimal value %.10g, base presentation %.10g'
                      % (name, v, base[1]))

    if case['fam'] == 'conelp':
        if case['dims'] == 'arrow':
            inst = solve.arrow_lp(case['n'], case['variant'])
        else:
            inst = solve.planted(case['dims'], case['n'], case['p'], case['variant'], 'strict')
        if inst is None:
            return {'n': 0, 'outcomes': {'skipped-rank': 1}}
        d, p, n = inst['dims'], len(inst['A']), len(inst['c'])
        only_l = not d['q'] and not d['s']
        base_res, _ = solve.call(inst, {'entry': 'conelp', 'storage': 'dense', 'kkt': None})
        base = _summ(base_res)
        n_ev += 1
        if base[0] != 'optimal':
            O.bad('base-not-optimal@conelp', 'planted strictly feasible instance: base presentation gives %r' % (base[0],))
            return {'n': n_ev, 'viol': O.viol, 'outcomes': {base[0]: 1}}
        pres = []
        for k in ['ldl', 'ldl2', 'qr', 'chol'] + (['chol2'] if only_l else []):
            for st in ('dense', 'sparse'):
                pres.append(('kkt=%s,%s' % (k, st), inst, {'entry': 'conelp', 'storage': st, 'kkt': k}, 1.0))
        pres.append(('sparse', inst, {'entry': 'conelp', 'storage': 'sparse', 'kkt': None}, 1.0))
        if p:
            for k in [None, 'ldl'] + (['chol2'] if only_l else ['chol']):
                pres.append(('G-sparse,A-dense,kkt=%s' % k, inst, {'entry': 'conelp', 'storageG': 'sparse', 'storageA': 'dense', 'kkt': k}, 1.0))
                pres.append(('G-dense,A-sparse,kkt=%s' % k, inst, {'entry': 'conelp', 'storageG': 'dense', 'storageA': 'sparse', 'kkt': k}, 1.0))
        pres.append(('callable-kkt', inst, {'entry': 'conelp', 'storage': 'dense', 'kkt': 'ref'}, 1.0))
        for stt in ('both', 'primal', 'dual'):
            pres.append(('start=' + stt, inst, {'entry': 'conelp', 'storage': 'dense', 'kkt': None, 'start': stt}, 1.0))
        if only_l:
            pres.append(('lp', inst, {'entry': 'lp', 'storage': 'dense', 'kkt': None}, 1.0))
            pres.append(('lp,sparse,start', inst, {'entry': 'lp', 'storage': 'sparse', 'kkt': 'ldl', 'start': 'both'}, 1.0))
            pres.append(('glpk', inst, {'entry': 'lp', 'storage': 'dense', 'kkt': None, 'solver': 'glpk'}, 1.0))
        if not d['s']:
            pres.append(('socp', inst, {'entry': 'socp', 'storage': 'dense', 'kkt': None}, 1.0))
            pres.append(('socp,sparse,start', inst, {'entry': 'socp', 'storage': 'sparse', 'kkt': 'chol', 'start': 'both'}, 1.0))
        if not d['q']:
            pres.append(('sdp', inst, {'entry': 'sdp', 'storage': 'dense', 'kkt': None}, 1.0))
            pres.append(('sdp,sparse,start', inst, {'entry': 'sdp', 'storage': 'sparse', 'kkt': 'ldl2', 'start': 'both'}, 1.0))
            if p == 0 and d['s'] and max(d['s']) > 0:
                pres.append(('dsdp', inst, {'entry': 'sdp', 'storage': 'dense', 'kkt': None, 'solver': 'dsdp'}, 1.0))
        if d['l'] >= 1:
            pres.append(('l-row-as-q1', _reencode(inst, 'q'), {'entry': 'conelp', 'storage': 'dense', 'kkt': None}, 1.0))
            pres.append(('l-row-as-s1', _reencode(inst, 's'), {'entry': 'conelp', 'storage': 'sparse', 'kkt': None}, 1.0))
        if 2 <= d['l'] <= 3:
            for perm in list(itertools.permutations(range(d['l'])))[1:]:
                pres.append(('l-rows-permuted', _perm_lrows(inst, perm), {'entry': 'conelp', 'storage': 'dense', 'kkt': None}, 1.0))
        for perm in (list(itertools.permutations(range(n)))[1:] if n <= 3 else [tuple(range(1, n)) + (0,), tuple(reversed(range(n)))]):
            pres.append(('variables-permuted', _perm_vars(inst, perm), {'entry': 'conelp', 'storage': 'dense', 'kkt': None}, 1.0))
        for t in (0.25, 4.0):
            pres.append(('objective-scaled', _scaled(inst, t), {'entry': 'conelp', 'storage': 'dense', 'kkt': None}, t))
        for name, ins, cfg, sc in pres:
            res, _ = solve.call(ins, cfg)
            nv = len(O.viol)
            got = _summ(res)
            if cfg.get('solver') == 'dsdp' and got[0] == 'unknown':
                n_ev += 1
                outcomes['dsdp-unknown'] = outcomes.get('dsdp-unknown', 0) + 1
                continue
            retry = None
            if not cfg.get('solver') and not cfg.get('opts'):
                retry = (lambda ins=ins, cfg=cfg: solve.call(ins, dict(cfg, opts=LOOSE_RETRY))[0])
            compare(name, got, base, sc, retry=retry)
            for v in O.viol[nv:]:
                v['sub'] = {'instance': {k: ins[k] for k in ('c', 'G', 'h', 'dims', 'A', 'b')}, 'cfg': cfg}
        nv = len(O.viol)
        compare('operator-form', _summ(_call_operator_conelp(inst)), base)
        for v in O.viol[nv:]:
            v['sub'] = {'instance': {k: inst[k] for k in ('c', 'G', 'h', 'dims', 'A', 'b')}, 'cfg': 'operators + callable kkt'}
        if n >= 2:
            # the same in operator form over a user-defined vector type for x (xnewcopy, xdot, xaxpy, xscal)
            from checks import C10
            nv = len(O.viol)
            compare('operator-form,user-x-type', _summ(C10._call_customx(inst, 'conelp', C10.Fault(), {})), base)
            for v in O.viol[nv:]:
                v['sub'] = {'instance': {k: inst[k] for k in ('c', 'G', 'h', 'dims', 'A', 'b')}, 'cfg': 'operators over XVec + callable kkt'}
    elif case['fam'] == 'coneqp':
        inst = qpsolve.planted_qp(case['dims'], case['n'], case['p'], case['variant'])
        if inst is None or lpexact.rank(inst['P']) != case['n']:
            # make P positive definite so that the minimiser is unique
            if inst is None:
                return {'n': 0, 'outcomes': {'skipped-rank': 1}}
            inst['P'] = [[inst['P'][i][j] + (1.0 if i == j else 0.0) for j in range(case['n'])] for i in range(case['n'])]
        d, p = inst['dims'], len(inst['A'])
        only_l = not d['q'] and not d['s']
        base_res, _ = qpsolve.call(inst, {'entry': 'coneqp', 'storage': 'dense', 'kkt': None})
        base = _summ(base_res)
        n_ev += 1
        if base[0] != 'optimal':
            O.bad('base-not-optimal@coneqp', 'strictly feasible QP with positive definite P: base presentation gives %r' % (base[0],))
            return {'n': n_ev, 'viol': O.viol, 'outcomes': {base[0]: 1}}
        x0 = list(base_res['x'])
        cfgs = []
        for k in ['ldl', 'ldl2', 'chol'] + (['chol2'] if only_l else []):
            for st in ('dense', 'sparse'):
                cfgs.append(('kkt=%s,%s' % (k, st), {'entry': 'coneqp', 'storage': st, 'kkt': k}))
        cfgs.append(('sparse', {'entry': 'coneqp', 'storage': 'sparse', 'kkt': None}))
        cfgs.append(('callable-kkt', {'entry': 'coneqp', 'storage': 'dense', 'kkt': 'ref'}))
        cfgs.append(('operator-form', {'entry': 'coneqp', 'storage': 'dense', 'kkt': 'ref', 'operators': True}))
        cfgs.append(('initvals', {'entry': 'coneqp', 'storage': 'dense', 'kkt': None, 'init': ['x', 's', 'y', 'z']}))
        cfgs.append(('junk-upper', {'entry': 'coneqp', 'storage': 'sparse', 'kkt': None, 'junk': 21.0}))
        if only_l:
            cfgs.append(('qp', {'entry': 'qp', 'storage': 'dense', 'kkt': None}))
            cfgs.append(('qp,sparse,ldl', {'entry': 'qp', 'storage': 'sparse', 'kkt': 'ldl', 'init': ['x', 's', 'y', 'z']}))
        if case['n'] >= 2:
            from checks import C10
            nv = len(O.viol)
            compare('operator-form,user-x-type', _summ(C10._call_customx(inst, 'coneqp', C10.Fault(), {})), base, key_entry='coneqp')
            for v in O.viol[nv:]:
                v['sub'] = {'instance': {k: inst[k] for k in ('P', 'q', 'G', 'h', 'dims', 'A', 'b')}, 'cfg': 'operators over XVec + callable kkt'}
        for name, cfg in cfgs:
            res, _ = qpsolve.call(inst, cfg)
            nv = len(O.viol)
            compare(name, _summ(res), base, key_entry='coneqp')
            if not isinstance(res, Exception) and res.get('status') == 'optimal':
                x = list(res['x'])
                # objective agreement 1e-6 implies ||x - x*|| <= sqrt(2e-6 / lambda_min(P)) only (degenerate optima converge slowly)
                if max(abs(a - b) for a, b in zip(x, x0)) > 5e-3 * max([1.0] + [abs(t) for t in x0]):
                    O.bad('solution-differs:%s@coneqp' % name, 'x = %r, base presentation %r (P positive definite: unique)' % (x, x0))
            for v in O.viol[nv:]:
                v['sub'] = {'instance': {k: inst[k] for k in ('P', 'q', 'G', 'h', 'dims', 'A', 'b')}, 'cfg': cfg}
    elif case['fam'] == 'nl':
        pb0 = nlsolve.base_problems(case['seed'])[case['idx']]
        for cone in (None, {'l': 2, 'q': [], 's': []}, {'l': 1, 'q': [2], 's': [2]}):
            pb = pb0
            if cone is not None:
                if pb0['entry'] == 'gp' and (cone['q'] or cone['s']):
                    continue
                A0, b0 = pb0['A'], pb0['b']
                pb = nlsolve.with_cone(pb0, cone, case['seed'], 0)
                if A0:
                    pb['A'], pb['b'] = A0, b0
            d = pb['dims']
            only_l = not d['q'] and not d['s']
            res, _ = nlsolve.call(pb, {})
            base = _summ(res)
            n_ev += 1
            if base[0] != 'optimal':
                outcomes['base:' + base[0]] = outcomes.get('base:' + base[0], 0) + 1
                continue
            kk = (['ldl', 'ldl2', 'chol'] if pb['entry'] == 'cpl' else ['ldl', 'chol']) + (['chol2'] if only_l else [])
            cfgs = [('kkt=%s' % k, {'kkt': k}) for k in kk]
            if pb['entry'] != 'gp':
                cfgs += [('sparse-Df-H', {'sparse_df': True}), ('sparse-G-A', {'storage': 'sparse'}), ('none-style', {'none_style': 1}),
                         ('kkt=ldl,sparse-all', {'kkt': 'ldl', 'sparse_df': True, 'storage': 'sparse'})]
            else:
                cfgs += [('sparse-F', {'storage': 'sparse'})]
            for name, cfg in cfgs:
                r2, _ = nlsolve.call(pb, cfg)
                nv = len(O.viol)
                compare(name, _summ(r2), base, key_entry=pb['entry'])
                for v in O.viol[nv:]:
                    v['sub'] = {'problem': pb['tag'], 'cone': cone, 'cfg': cfg}
    else:
        _names(case, O, outcomes)
        n_ev = sum(outcomes.values())
        nontriv = n_ev
    return {'n': n_ev, 'nontrivial': nontriv, 'outcomes': outcomes, 'viol': O.viol, 'maxerr': O.maxerr}


def _names(case, O, outcomes):
    """accept / reject decision for every kktsolver name; a rejection must be a ValueError raised before solving."""
    e = case['entry']
    seed = case['seed']
    structs = [{'l': 2, 'q': [], 's': []}, {'l': 1, 'q': [2], 's': []}, {'l': 1, 'q': [], 's': [2]}]
    for d in structs:
        only_l = not d['q'] and not d['s']
        if e in ('lp', 'qp', 'gp') and not only_l:
            continue
        if e == 'socp' and d['s']:
            continue
        if e == 'sdp' and d['q']:
            continue
        for name in NAMES:
            if e in ('conelp', 'lp', 'socp', 'sdp'):
                supported = name in ('ldl', 'ldl2', 'qr', 'chol') or (name == 'chol2' and only_l)
                inst = next(i for i in (solve.planted(d, 2, 0, seed + k, 'strict') for k in range(8)) if i is not None)
                res, _ = solve.call(inst, {'entry': e, 'storage': 'dense', 'kkt': name})
                calls = 0
            elif e in ('coneqp', 'qp'):
                supported = name in ('ldl', 'ldl2', 'chol') or (name == 'chol2' and only_l)
                inst = next(i for i in (qpsolve.planted_qp(d, 2, 0, seed + k) for k in range(8)) if i is not None)
                inst['P'] = [[inst['P'][i][j] + (1.0 if i == j else 0.0) for j in range(2)] for i in range(2)]
                res, _ = qpsolve.call(inst, {'entry': e, 'storage': 'dense', 'kkt': name})
                calls = 0
            else:
                if e == 'cpl':
                    supported = name in ('ldl', 'ldl2', 'chol') or (name == 'chol2' and only_l)
                else:
                    supported = name in ('ldl', 'chol') or (name == 'chol2' and only_l)
                pbs = [p for p in nlsolve.base_problems(seed) if p['entry'] == e and not p['tag'].startswith('ball')
                       and not p['tag'].endswith('9.53674e-07')]
                pb = nlsolve.with_cone(pbs[0], d, seed, 0)
                res, rec = nlsolve.call(pb, {'kkt': name})
                calls = len([c for c in rec['calls'] if c[0] != 'F0'])
            lab = 'exc:' + type(res).__name__ if isinstance(res, Exception) else str(res.get('status'))
            outcomes['%s:%s' % ('supported' if supported else 'unsupported', lab)] = \
                outcomes.get('%s:%s' % ('supported' if supported else 'unsupported', lab), 0) + 1
            sub = {'entry': e, 'kktsolver': name, 'dims': d}
            if supported:
                if isinstance(res, Exception):
                    O.bad('name-rejected:%s@%s' % (name, e), "kktsolver=%r is a supported name of %s but raised %r" % (name, e, res), sub)
                elif res.get('status') != 'optimal':
                    O.bad('name-accepted-but-not-optimal:%s@%s' % (name, e), "kktsolver=%r on a well-posed instance gives %r" % (name, res.get('status')), sub)
            else:
                if not isinstance(res, ValueError):
                    O.bad('unsupported-name-not-ValueError:%s@%s' % (name or 'empty', e),
                          "kktsolver=%r is not supported by %s: expected ValueError, got %s" % (name, e, lab if not isinstance(res, Exception) else repr(res)), sub)
                elif calls:
                    O.bad('unsupported-name-rejected-late:%s@%s' % (name or 'empty', e),
                          "kktsolver=%r rejected only after %d evaluations of F" % (name, calls), sub)


def crash_key(case):
    return case['fam']
