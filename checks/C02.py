"""C02 - infeasibility statuses carry valid Farkas certificates."""
from checks import conelp_family as F

PROPERTY = 'C02'
LEVEL = 'exploration'
ENGINE = 'bex'
FLAVOURS = ('plain',)
RULE = ('all members of the tiny LP families L(n,m) over a 3-value palette (they contain every infeasible and every '
        'unbounded 1- and 2-variable pattern), and planted cone programs (strictly feasible, primal infeasible with an '
        'interior certificate, dual infeasible with an interior ray) for every cone structure x n x p x variant, under '
        'every configuration (entry point x storage x kktsolver x option set x start point); whenever the status is '
        "'primal infeasible' / 'dual infeasible' the certificate is re-verified from the caller's data in plain Python; "
        'non-trivial = solves that ended in an infeasibility status')
ASSUME = ['certificate normalisation h\'z+b\'y=-1 / c\'x=-1 required to 1e-9 of the term magnitudes',
          'planted truth is exact (rank and certificate decided over the rationals), so an infeasibility status on a '
          'strictly feasible planted instance (or optimal on an infeasible one) is reported',
          'op.solve propagation of these statuses is covered by the C12 check']
BOUNDS = {'quick': 'L(1,2), L(1,3), L(2,2); 28 cone structures x n in {1,2} x p in {0,1} x 3 plantings x 2 variants; ~75 configurations each',
          'thorough': 'adds L(2,3); all 126 structures x n in {1,2,3} x 3 variants; all 8 option sets'}
TECHNIQUE = 'bounded exhaustive enumeration of problem data and solver configurations; Farkas certificate re-verified by an independent reference'



def _run_opsolve_hist(case):
    """solve / edit / solve histories of one op whose status changes on the way (checks/opsolve_hist.py)"""
    from mc import cvx
    from checks import opsolve_hist as H
    ns, nh, viol, outcomes = H.run(PROPERTY, case['depth'], case['variant'], case['fmt'], case['solver'])
    return {'n': ns, 'nontrivial': ns - nh, 'viol': viol, 'outcomes': {'opsolve-history:' + k: v for k, v in outcomes.items()},
            'states': ns, 'transitions': ns, 'traces': nh}


def _cases_opsolve_hist(tier, seed):
    for variant in ((seed % 4, (seed + 1) % 4) if tier == 'quick' else (0, 1, 2, 3)):
        for fmt in ('dense', 'sparse'):
            for solver in ('default', 'glpk'):
                yield {'part': 'opsolve-hist', 'variant': variant, 'fmt': fmt, 'solver': solver, 'depth': 5 if tier == 'quick' else 6}

def cases(tier, seed, flavour):
    for c in F.cases(tier, seed, flavour):
        c['tier'] = tier
        yield c
    # the infeasibility statuses through op.solve(): x / multipliers None as documented, also when an earlier solve of
    # the same op had set them
    for c in _cases_opsolve_hist(tier, seed):
        yield c


def run(case):
    if case.get('part') == 'opsolve-hist':
        from cvxopt import solvers
        solvers.options.clear()
        return _run_opsolve_hist(case)
    return F.run(case, PROPERTY, {'primal infeasible', 'dual infeasible'}, case.get('tier', 'quick'))


def crash_key(case):
    return case.get('fam') or case.get('part')
