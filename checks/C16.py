"""C16 - sparse matrices are a faithful, structurally valid image of the dense semantics.

Two parts, both emitted by `cases`:
  bex   bounded-exhaustive sweeps over sparsity patterns x operations (construction, indexing, indexed
        assignment, arithmetic, attributes, base.axpy/gemv/gemm/syrk/symv)
  hist  explicit-state breadth-first search over histories of mutating operations on ONE spmatrix object

Oracle: mc/ref/sparse.py (plain Python lists) for every result; the same operation is also applied to the dense
copies with cvxopt's own dense `matrix` code (property statement) and compared with the Python model.
Structural invariant of every produced / mutated spmatrix is read from A.CCS.
"""
import os, itertools
from mc.ref import sparse as R

_PID = os.getpid()
_SEEN = set()

PROPERTY = 'C16'
LEVEL = 'model_checking'
ENGINE = 'hist'
FLAVOURS = ('plain', 'asan')
TECHNIQUE = ('bounded exhaustive enumeration of sparsity patterns x operations against a list-based reference '
             'model and the dense implementation; explicit-state BFS over mutation histories with canonical '
             'state hashing of (CCS arrays, size, typecode, model)')
RULE = ('bex: every pattern over {absent, explicit 0, nonzero} of 2x3 / 3x2 matrices (typecodes d, z) x every '
        'operation of a fixed operation list (constructors incl. duplicates / unsorted triplets / sparse() / '
        'spdiag(), unary and binary arithmetic with result type, V and size assignment); every {absent, nonzero} '
        'pattern x a reduced index palette and selected matrices x the full index-expression domain (integers, '
        'slices, lists, integer matrices incl. negative and duplicate entries, all row-kind x column-kind '
        'pairs) for get and set with number / 1x1 / dense / sparse / sequence values of right and wrong size and '
        'type; base.axpy, gemv, symv, gemm, syrk on every sparse/dense operand combination x trans flags x '
        'alpha, beta in {0,1,-2} x partial; fixed 3x3, 0xn, mx0, 0x0 patterns; operations that can kill the '
        'interpreter (empty dimensions, empty index sets, out-of-pattern reads) are single-operation cases.  '
        'hist: BFS from 3 initial matrices x 2 typecodes, one sub-search per first operation, over a fixed list '
        'of mutating operations; a state is (CCS arrays, size, typecode) of the object + the dense model; on '
        'every state: CCS invariant, dense image == model, object == matrix constructed from scratch from the '
        'model (states are counted per sub-search).  non-trivial = the operand has at least one stored entry '
        'and the operation succeeded')
ASSUME = ['the sparsity pattern of a result is only checked where matrices.rst defines it (spmatrix(), sparse(), '
          'V assignment, indexed assignment examples, partial=True); elsewhere only the dense image and the CCS '
          'invariant are checked',
          'after syrk only the `uplo` triangle of C is compared (the other triangle is not referenced by BLAS and '
          'undocumented for sparse C)',
          'when the documented semantics reject an operation (index out of range, wrong size, type change) any '
          'Python exception is accepted; the object must be unchanged and valid afterwards',
          'floating point agreement within 1e-10 relative (all inputs are small dyadic rationals)',
          'sizes of gemm/syrk output operands always match the product (mismatching C is not documented)',
          'the ASan flavour observes only accesses made by cvxopt\'s own C code']
BOUNDS = {'quick': 'plain: shapes 2x3, 3x2 + 20 fixed patterns (0x0, 0x3, 3x0, 0x1, 1x0, 1x1, 1x3, 3x1, 3x3), typecodes d, z; '
                   '3^6 patterns x {constructors, unary / scalar / V / size operations}; every 3rd 3^6 pattern x binary '
                   'operations with 4 partner patterns; 2^6 {absent, nonzero} patterns x tiny index palette (16 index '
                   'expressions per dimension, all kind pairs) x get + 6 value kinds; 2 selected matrices x (full '
                   'one-argument domain: integers -7..6, 512 raw slices over {None,-3..3}^3, 400 lists and 400 integer '
                   'matrices of length <= 3 over -3..3) x 16 value kinds, x (two-argument mid x mid: integers -4..4, slices '
                   'de-duplicated by slice.indices(dim), lists / integer matrices of length <= 2) x get + 3 value kinds, x '
                   '(lists of length <= 3 x small partner palette); gemv: 2^6 patterns x 3 trans x 16 alpha/beta x 5 '
                   'increment/offset variants + sub-blocks; symv: 3^4 2x2 patterns + 8 3x3; gemm: 7 shapes (incl. zero '
                   'dimensions) x 7 operand combinations x 9 trans pairs x 3^3 patterns x 9 alpha/beta x partial; syrk: 6 '
                   'shapes x 3 combinations x uplo x trans x 4^2 patterns x 9 alpha/beta x partial; hist: depth 3 over 14 '
                   'operations from 3 matrices x 2 typecodes.  asan: the same enumeration over every 4th-8th pattern block, '
                   '1 selected matrix, small x mid index pairs, 2^3 gemm patterns, hist over 10 operations (~3.4e5 evaluations)',
          'thorough': 'plain: quick plus 3^6 patterns x tiny index palette, 2^6 patterns x small palette (35 expressions per '
                      'dimension) x all 16 value kinds, 4 selected matrices x mid x mid pairs x all value kinds, 2 matrices x '
                      'raw slices (512) and lists (400) full x full pairs for get and scalar set, 3^6 patterns x gemv / axpy, '
                      'all 3^6 patterns x binary operations with 6 partner patterns, gemm with 5^3 patterns and 9 shapes, '
                      'hist depth 4 over 20 operations.  asan: the plain quick domain over every 2nd pattern block, 1 selected matrix'}

TOL = 1e-10
DENSE_SIDE = True
PALS = ((1, 2, 3, 4, 5, 6, 7, 8, 9),
        (-1.5, 2, 0.5, 3, -0.25, 4, -2.5, 1.5, -3),
        (2, -1, 4, -3, 0.5, -0.75, 5, 1.25, -6),
        (0.5, 0.25, -4, 8, -1, 3, -0.125, 2, 6))
SHAPES = ((2, 3), (3, 2))


# ====================================================================================== small utilities
def pval(seed, p, tc, salt=0):
    P = PALS[seed % 4]
    v = float(P[(p + salt) % 9])
    if tc == 'z':
        w = float(P[(p + salt + 4) % 9])
        return complex(v, w) if (p + salt) % 3 else complex(0.0, w)
    return v


def cnum(x):
    """JSON number -> Python number ([re, im] encodes a complex)."""
    return complex(x[0], x[1]) if isinstance(x, list) else x


def same(g, w):
    try:
        return abs(g - w) <= TOL * max(1.0, abs(w))
    except Exception:
        return False


def model_of(desc, seed, salt=0):
    """desc = [m, n, tc, pattern string] -> (R.D, pattern set)."""
    m, n, tc, pat = desc
    a = [R.zero(tc)] * (m * n)
    for p, ch in enumerate(pat):
        if ch == '2':
            a[p] = pval(seed, p, tc, salt)
    return R.D(m, n, tc, a), set(p for p, ch in enumerate(pat) if ch != '0')


def sp_of(Dm, pat):
    from cvxopt import spmatrix
    ps = sorted(pat)
    m = Dm.nr
    return spmatrix([Dm.a[p] for p in ps], [p % m for p in ps], [p // m for p in ps], (Dm.nr, Dm.nc), Dm.tc)


def dn_of(Dm, tc=None):
    from cvxopt import matrix
    tc = tc or Dm.tc
    return matrix(list(Dm.a), (Dm.nr, Dm.nc), tc)


def idx_obj(spec):
    from cvxopt import matrix
    k = spec[0]
    if k == 'i':
        return spec[1]
    if k == 's':
        return slice(spec[1], spec[2], spec[3])
    if k == 'l':
        return list(spec[1])
    return matrix(list(spec[1]), (len(spec[1]), 1), 'i')


KIND = {'i': 'int', 's': 'slice', 'l': 'list', 'm': 'imat'}


class Ctx(object):
    def __init__(self):
        self.viol = []
        self.n = 0
        self.nontrivial = 0
        self.out = {}
        self.maxerr = 0.0
        self._cnt = {}

    def fail(self, key, msg, sub=None):
        # The engine stops a worker after 200 recorded violations, so every key is recorded once per worker
        # process (the first, i.e. simplest, failing input); further hits are only counted.  The process that
        # imported the module (determinism gate, --replay) records everything.
        c = self._cnt.get(key, 0)
        self._cnt[key] = c + 1
        if os.getpid() != _PID:
            if key in _SEEN:
                self.count('further-hits-of-an-already-recorded-violation-key')
                return False
            _SEEN.add(key)
        if c < 2:
            self.viol.append({'key': key, 'msg': msg[:700], 'sub': sub})
        return False

    def count(self, label, k=1):
        self.out[label] = self.out.get(label, 0) + k

    def result(self, **extra):
        r = {'n': self.n, 'nontrivial': self.nontrivial, 'viol': self.viol, 'outcomes': self.out,
             'maxerr': {'value': self.maxerr}}
        r.update(extra)
        return r


def snap(A):
    """complete observable state of an spmatrix (no validation)."""
    cp, ri, v = A.CCS
    return (A.size, A.typecode, tuple(cp), tuple(ri), tuple(v))


def vsp(c, K, A, exp, pat=None, sub=None, only=None):
    """validate a produced / mutated spmatrix: type, size, typecode, CCS invariant, dense image, pattern."""
    from cvxopt import matrix, spmatrix
    if not isinstance(A, spmatrix):
        return c.fail(K + ':result-type', 'expected spmatrix, got %s' % type(A).__name__, sub)
    size, tc = A.size, A.typecode
    if size != (exp.nr, exp.nc):
        return c.fail(K + ':shape', 'size %r, expected %r' % (size, (exp.nr, exp.nc)), sub)
    if tc != exp.tc:
        return c.fail(K + ':typecode', 'typecode %r, expected %r' % (tc, exp.tc), sub)
    cp, ri, v = A.CCS
    lcp, lri, lv = list(cp), list(ri), list(v)
    if cp.typecode != 'i' or ri.typecode != 'i' or v.typecode != tc:
        return c.fail(K + ':ccs:typecodes', 'CCS typecodes %s%s%s for a %r matrix' % (cp.typecode, ri.typecode, v.typecode, tc), sub)
    e = R.ccs_error(lcp, lri, len(lv), size[0], size[1])
    if e:
        return c.fail(K + ':ccs:' + e, 'invalid CCS: colptr=%r rowind=%r nvalues=%d size=%r' % (lcp, lri, len(lv), size), sub)
    img, p = R.ccs_image(lcp, lri, lv, size[0], size[1], tc)
    for q in range(len(img)):
        if only is not None and q not in only:
            continue
        if not same(img[q], exp.a[q]):
            return c.fail(K + ':value', 'entry (%d,%d) is %r, expected %r; image %r expected %r'
                          % (q % max(size[0], 1), q // max(size[0], 1), img[q], exp.a[q], img, exp.a), sub)
    if pat is not None and p != pat:
        return c.fail(K + ':pattern', 'stored positions %r, documented %r' % (sorted(p), sorted(pat)), sub)
    Dn = matrix(A)
    if Dn.size != size or Dn.typecode != tc or list(Dn) != img:
        return c.fail(K + ':dense-conversion', 'matrix(A) = %r %r, CCS image %r' % (Dn.size, list(Dn), img), sub)
    return True


def vdn(c, K, M, exp, sub=None, only=None):
    from cvxopt import matrix
    if not isinstance(M, matrix):
        return c.fail(K + ':result-type', 'expected dense matrix, got %s' % type(M).__name__, sub)
    if M.size != (exp.nr, exp.nc):
        return c.fail(K + ':shape', 'size %r, expected %r' % (M.size, (exp.nr, exp.nc)), sub)
    if M.typecode != exp.tc:
        return c.fail(K + ':typecode', 'typecode %r, expected %r' % (M.typecode, exp.tc), sub)
    L = list(M)
    for q in range(len(L)):
        if only is not None and q not in only:
            continue
        if not same(L[q], exp.a[q]):
            return c.fail(K + ':value', 'entry %d is %r, expected %r; got %r expected %r' % (q, L[q], exp.a[q], L, exp.a), sub)
    return True


def vnum(c, K, x, exp, tc, sub=None):
    want = complex if tc == 'z' else float
    if type(x) is not want:
        return c.fail(K + ':result-type', 'expected %s, got %r' % (want.__name__, x), sub)
    if not same(x, exp):
        return c.fail(K + ':value', 'got %r, expected %r' % (x, exp), sub)
    return True


def vres(c, K, x, exp, tc, sparse_expected, sub=None, pat=None):
    """result of an expression: number / D (sparse or dense as documented)."""
    if isinstance(exp, R.D):
        if sparse_expected:
            return vsp(c, K, x, exp, pat, sub)
        return vdn(c, K, x, exp, sub)
    return vnum(c, K, x, exp, tc, sub)


def dense_agrees(c, label, x, exp):
    """same operation on the dense copies (cvxopt's dense code) against the Python model; counted, and
    reported by the caller only together with the sparse result."""
    from cvxopt import matrix
    if isinstance(exp, R.D):
        ok = isinstance(x, matrix) and x.size == (exp.nr, exp.nc) and all(same(g, w) for g, w in zip(list(x), exp.a))
    else:
        ok = not isinstance(x, matrix) and same(x, exp)
    if not ok:
        c.count('dense-side-differs-from-model:' + label)
    return ok


# ====================================================================================== index domains
SVALS = (None, -3, -2, -1, 0, 1, 2, 3)


def dom_int(dim, one=False):
    return [['i', k] for k in (range(-dim - 1, dim + 1) if one else range(-4, 5))]


def dom_slice(dim, level):
    if level == 'small':
        return [['s', None, None, None], ['s', None, None, -1], ['s', 1, None, None], ['s', None, -1, None],
                ['s', None, None, 2], ['s', -1, None, -2], ['s', 0, 0, None], ['s', 1, 2, None],
                ['s', 2, 0, -1], ['s', 0, 2, None]]
    out, seen = [], set()
    for a in SVALS:
        for b in SVALS:
            for s in SVALS:
                if level == 'mid':
                    # declared symmetry: the C code only sees PySlice_GetIndicesEx(dim) = slice.indices(dim)
                    k = slice(a, b, s).indices(dim) if s != 0 else 'step0'
                    if k in seen:
                        continue
                    seen.add(k)
                out.append(['s', a, b, s])
    return out


def dom_list(kind, dim, level, one=False):
    if level == 'small':
        if one:
            L = [[], [0], [-1], [dim - 2, 1], [2, 2], [-2, 0, -dim], [dim], [-dim - 1]]
        else:
            L = [[], [0], [-1], [1, 0], [0, 0], [-1, 0, -1], [dim], [-dim - 1]]
        return [[kind, l] for l in L]
    maxlen = 3 if level == 'full' else 2
    out = []
    for n in range(maxlen + 1):
        for l in itertools.product(range(-3, 4), repeat=n):
            out.append([kind, list(l)])
    return out


def dom_kind(kind, dim, level, one=False):
    if kind == 'i':
        return dom_int(dim, one)
    if kind == 's':
        return dom_slice(dim, level)
    return dom_list(kind, dim, level, one)


def risky_get(si, sj, nc):
    """slice rows x list/imat columns with an in-range negative entry: reads colptr[j] with j < 0 on the
    unchanged tree (undefined behaviour) -> only executed in single-operation cases."""
    return si[0] == 's' and sj[0] in 'lm' and any(-nc <= j < 0 for j in sj[1])


# ====================================================================================== get / set evaluation
VCLASS = {'num': 'number', 'num0': 'number', 'numi': 'number', 'numz': 'number-complex', 'd11': 'dense1x1', 'dfit': 'dense',
          'dfiti': 'dense', 'dfitz': 'dense-complex', 'lfit': 'sequence', 'dwrong': 'dense-wrong-size', 'dtr': 'dense-wrong-size',
          'sfit': 'sparse', 'sfitz': 'sparse-complex', 'sfull': 'sparse', 'sempty': 'sparse', 'swrong': 'sparse-wrong-size'}


def key_idx(op, specs, dims, vk=None):
    """call site (operation, index kinds) + input feature class (+ class of the assigned value)."""
    kinds = ','.join(KIND[s[0]] for s in specs)
    if len(specs) == 1:
        fl = R.flags1(specs[0], dims[0] * dims[1])
    else:
        fl = R.flags2(specs[0], specs[1], dims[0], dims[1])
    if dims[0] * dims[1] == 0:
        cls = 'empty-dim'
    elif any('dup' in f for f in fl):
        cls = 'dup'
        kinds = 'one-arg' if len(specs) == 1 else 'two-arg'
    elif op == 'getitem' and len(specs) == 2 and specs[0][0] == 's' and 'cneg' in fl:
        cls = 'cneg'
    else:
        cls = '+'.join(fl) or 'plain'
    k = 'C16:%s:%s:%s' % (op, kinds, cls)
    if vk is not None:
        k += ':' + VCLASS[vk]
    return k


def ev_get(c, A, snapA, Am, Ad, specs):
    c.n += 1
    K = key_idx('getitem', specs, (Am.nr, Am.nc))
    sub = {'A': [Am.nr, Am.nc, Am.tc, Am.a], 'index': specs}
    try:
        exp = R.get1(Am, specs[0]) if len(specs) == 1 else R.get2(Am, specs[0], specs[1])
        err = None
    except R.RefError as e:
        exp, err = None, e.kind
    idx = idx_obj(specs[0]) if len(specs) == 1 else (idx_obj(specs[0]), idx_obj(specs[1]))
    try:
        x = A[idx]
        exc = None
    except Exception as e:
        x, exc = None, e
    if err is not None:
        if exc is None:
            c.fail(K + ':no-exception', 'documented semantics reject the index (%s) but a result was returned' % err, sub)
        c.count('get:rejected')
    elif exc is not None:
        c.fail(K + ':exception:' + type(exc).__name__, 'valid index raised %r' % exc, sub)
    else:
        if vres(c, K, x, exp, Am.tc, True, sub):
            c.count('get:ok')
            if snapA[2][-1]:
                c.nontrivial += 1
    if snap(A) != snapA:
        c.fail(K + ':operand-modified', 'indexing changed the matrix', sub)
    if DENSE_SIDE:
        try:
            xd = Ad[idx]
            if err is None:
                dense_agrees(c, 'getitem', xd, exp)
            else:
                c.count('dense-side-differs-from-model:getitem-accepts-invalid')
        except Exception:
            if err is None:
                c.count('dense-side-differs-from-model:getitem-raises')


VK_ALL = ('num', 'num0', 'numi', 'numz', 'd11', 'dfit', 'dfiti', 'dfitz', 'sfit', 'sfitz', 'sfull', 'sempty', 'lfit',
          'dwrong', 'swrong', 'dtr')
VK_SCALARIDX_SKIP = ('sfit', 'sfitz', 'sfull', 'sempty', 'swrong', 'lfit', 'dtr')


def make_value(vk, nr, nc, seed):
    """-> (cvxopt value object, model value, dense-side value object, model pattern of a sparse value or None)"""
    from cvxopt import matrix
    if vk == 'num':
        return 7.5, ('n', 7.5), 7.5, None
    if vk == 'num0':
        return 0.0, ('n', 0.0), 0.0, None
    if vk == 'numi':
        return 3, ('n', 3), 3, None
    if vk == 'numz':
        return complex(2, -1), ('n', complex(2, -1)), complex(2, -1), None
    if vk == 'd11':
        return matrix([4.25]), ('d', R.D(1, 1, 'd', [4.25])), matrix([4.25]), None
    if vk in ('dfit', 'dfiti', 'dfitz', 'dwrong', 'dtr', 'lfit'):
        tc = {'dfiti': 'i', 'dfitz': 'z'}.get(vk, 'd')
        if vk == 'dwrong':
            nr = nr + 1
        if vk == 'dtr':
            nr, nc = nc, nr
        if tc == 'i':
            a = [(k + 2) * (-1) ** k for k in range(nr * nc)]
        else:
            a = [pval(seed, k, tc, 5) for k in range(nr * nc)]
        if len(a) > 1:
            a[1] = R.zero(tc)
        if vk == 'lfit':
            return list(a), ('l', list(a)), list(a), None
        Dv = R.D(nr, nc, tc, a)
        return dn_of(Dv), ('d', Dv), dn_of(Dv), None
    tc = 'z' if vk == 'sfitz' else 'd'
    if vk == 'swrong':
        nc = nc + 1
    st = '2' * (nr * nc) if vk == 'sfull' else ('0' * (nr * nc) if vk == 'sempty' else ''.join('201'[k % 3] for k in range(nr * nc)))
    Dv, vp = model_of([nr, nc, tc, st], seed, 5)
    S = sp_of(Dv, vp)
    return S, ('s', Dv), dn_of(Dv), vp


def ev_set(c, A0, Am, pat, specs, vk, seed):
    """A0 is never mutated: the assignment is applied to a copy."""
    one = len(specs) == 1
    # shape of the left-hand side according to the model (1x1 if the index itself is invalid)
    try:
        if one:
            sc, I = R.expand(specs[0], Am.nr * Am.nc)
            lhs = (len(I), 1)
            pos = list(I)
        else:
            sci, I = R.expand(specs[0], Am.nr)
            scj, J = R.expand(specs[1], Am.nc)
            sc = sci and scj
            lhs = (len(I), len(J))
            pos = [j * Am.nr + i for j in J for i in I]
    except R.RefError:
        sc, lhs, pos = False, (1, 1), None
    if sc and vk in VK_SCALARIDX_SKIP:
        return
    if vk == 'dtr' and lhs[0] == lhs[1]:
        return
    c.n += 1
    K = key_idx('setitem', specs, (Am.nr, Am.nc), vk)
    sub = {'A': [Am.nr, Am.nc, Am.tc, Am.a], 'pattern': sorted(pat), 'index': specs, 'value': vk}
    val, mval, dval, vpat = make_value(vk, lhs[0], lhs[1], seed)
    vsnap = snap(val) if vpat is not None else (list(val) if hasattr(val, 'size') else None)
    M2 = Am.copy()
    try:
        if one:
            R.set1(M2, specs[0], mval)
        else:
            R.set2(M2, specs[0], specs[1], mval)
        err = None
    except R.RefError as e:
        M2, err = Am, e.kind
    A = +A0
    idx = idx_obj(specs[0]) if one else (idx_obj(specs[0]), idx_obj(specs[1]))
    try:
        A[idx] = val
        exc = None
    except Exception as e:
        exc = e
    pat2 = pat
    if err is None and exc is None:
        pat2 = set(pat)
        for k, p in enumerate(pos):
            if vpat is None or k in vpat:
                pat2.add(p)
            else:
                pat2.discard(p)
    if err is not None and exc is None:
        c.fail(K + ':no-exception', 'documented semantics reject the assignment (%s) but it was accepted' % err, sub)
    elif err is None and exc is not None:
        c.fail(K + ':exception:' + type(exc).__name__, 'valid assignment raised %r' % exc, sub)
    if vsp(c, K, A, M2, pat2, sub):
        c.count('set:ok' if err is None else 'set:rejected')
        if err is None and pos:
            c.nontrivial += 1
    if vsnap is not None:
        now = snap(val) if vpat is not None else list(val)
        if now != vsnap:
            c.fail(K + ':value-operand-modified', 'the assigned matrix was modified', sub)
    if DENSE_SIDE:
        Ad = dn_of(Am)
        try:
            Ad[idx] = dval
            ok = err is None and all(same(g, w) for g, w in zip(list(Ad), M2.a))
            if not ok:
                c.count('dense-side-differs-from-model:setitem' + ('' if err is None else '-accepts-invalid:' + vk))
        except Exception:
            if err is None:
                c.count('dense-side-differs-from-model:setitem-raises:' + vk)


# ====================================================================================== construction
def all_patterns(ncell, alphabet='012'):
    return [''.join(p) for p in itertools.product(alphabet, repeat=ncell)]


def attrs_ok(c, K, A, sub):
    """I, J, V, len() describe the triplets in column-major order (matrices.rst, Attributes)."""
    cp, ri, v = A.CCS
    I, J, V = list(A.I), list(A.J), list(A.V)
    lcp = list(cp)
    Jx = [j for j in range(A.size[1]) for _ in range(lcp[j], lcp[j + 1])]
    if I != list(ri) or J != Jx or V != list(v) or len(A) != len(V) or A.V.typecode != A.typecode \
            or A.I.typecode != 'i' or A.J.typecode != 'i' or A.V.size != (len(V), 1):
        return c.fail(K + ':IJV-attributes', 'I=%r J=%r V=%r len=%d vs CCS %r %r %r' % (I, J, V, len(A), lcp, list(ri), list(v)), sub)
    return True


def ev_ctor(c, desc, seed):
    from cvxopt import matrix, spmatrix, sparse
    m, n, tc, pat = desc
    Am, ps = model_of(desc, seed)
    sub = {'A': desc}
    cells = sorted(ps)
    I = [p % m for p in cells]
    J = [p // m for p in cells]
    V = [Am.a[p] for p in cells]
    nz = set(p for p in cells if Am.a[p] != 0)

    def attempt(name, f, exp, epat):
        c.n += 1
        K = 'C16:spmatrix-new:' + name
        try:
            A = f()
        except Exception as e:
            c.fail(K + ':exception:' + type(e).__name__, 'valid construction raised %r' % e, sub)
            return None
        if vsp(c, K, A, exp, epat, sub) and attrs_ok(c, K, A, sub):
            c.count('ctor:ok')
            if cells:
                c.nontrivial += 1
            return A
        return None

    # 1 canonical order, lists, explicit size and typecode
    A = attempt('sorted', lambda: spmatrix(V, I, J, (m, n), tc), Am, ps)
    # 2 reversed order, integer-matrix index sets, dense-matrix values
    if cells:
        attempt('reversed-matrix-args', lambda: spmatrix(matrix(V[::-1], (len(V), 1), tc), matrix(I[::-1], (len(I), 1), 'i'),
                                                         matrix(J[::-1], (len(J), 1), 'i'), (m, n), tc), Am, ps)
    # 3 rotated order with duplicates: nonzero v = (v+2) + (-2) ; explicit zero = 1.5 + (-1.5) ; tuple arguments
    I3, J3, V3 = [], [], []
    # (for 'z' the parts that cancel have imaginary components, in the first and in the later occurrence)
    d2, d15 = (complex(2, -3), complex(1.5, 0.5)) if tc == 'z' else (2, 1.5)
    for k in range(len(cells)):
        q = (k + 2) % len(cells)
        I3.append(I[q]); J3.append(J[q]); V3.append(V[q] + d2 if V[q] != 0 else d15)
    for k in range(len(cells)):
        I3.append(I[k]); J3.append(J[k]); V3.append(-d2 if V[k] != 0 else -d15)
    if cells:
        attempt('duplicates-unsorted', lambda: spmatrix(tuple(V3), tuple(I3), tuple(J3), (m, n), tc), Am, ps)
        # duplicates three times in the same cell, adjacent
        t3 = [V[0] - 1, 0.25, 0.75] if tc != 'z' else [V[0] - 1 - 2j, complex(0.25, 0.5), complex(0.75, 1.5)]
        attempt('duplicates-triple', lambda: spmatrix(t3 + V[1:], [I[0]] * 3 + I[1:], [J[0]] * 3 + J[1:], (m, n), tc), Am, ps)
    # 4 default size and typecode
    if cells:
        dm, dnn = max(I) + 1, max(J) + 1
        Bm = R.D(dm, dnn, tc, [Am.a[j * m + i] for j in range(dnn) for i in range(dm)])
        bps = set((p // m) * dm + p % m for p in cells)
        attempt('default-size-tc', lambda: spmatrix(V, I, J), Bm, bps)
    # 5 number as value
    x = complex(2.5, -1) if tc == 'z' else 2.5
    Cm = R.D(m, n, tc, [x if p in ps else R.zero(tc) for p in range(m * n)])
    attempt('number-value', lambda: spmatrix(x, I, J, (m, n)), Cm, ps)
    if tc == 'z':
        Cm2 = R.D(m, n, 'z', [complex(3) if p in ps else 0j for p in range(m * n)])
        attempt('int-value-tc-z', lambda: spmatrix(3, I, J, (m, n), 'z'), Cm2, ps)
    if A is None:
        return
    # sparse(): numerical zeros are removed
    for name, f, etc in (('sparse(spmatrix)', lambda: sparse(A), tc), ('sparse(matrix)', lambda: sparse(matrix(A)), tc),
                         ('sparse(spmatrix,tc=z)', lambda: sparse(A, tc='z'), 'z'),
                         ('sparse(matrix,tc=z)', lambda: sparse(matrix(A), tc='z'), 'z')):
        c.n += 1
        K = 'C16:' + name
        try:
            S = f()
        except Exception as e:
            c.fail(K + ':exception:' + type(e).__name__, 'raised %r' % e, sub)
            continue
        if vsp(c, K, S, R.as_tc(Am, etc), nz, sub):
            c.count('sparse():ok')
    if tc == 'z':
        c.n += 1
        try:
            S = sparse(A, tc='d')
            if S.typecode != 'd':
                c.fail('C16:sparse(spmatrix,tc=d):typecode', 'tc argument ignored: result has typecode %r' % S.typecode, sub)
        except Exception:
            c.count('sparse():rejected')
    # round trip through the triplet attributes
    attempt('from-V-I-J', lambda: spmatrix(A.V, A.I, A.J, A.size, tc), Am, ps)
    if snap(A) != snap(sp_of(Am, ps)):
        c.fail('C16:spmatrix-new:operand-modified', 'constructor arguments / source matrix changed', sub)


# ====================================================================================== arithmetic, attributes
def b_palette(m, n, tier):
    k = m * n
    pats = ['0' * k, '2' * k, ''.join('201'[i % 3] for i in range(k)), ''.join('120'[i % 3] for i in range(k)),
            ''.join('2' if i < m else '0' for i in range(k)), ''.join('2' if i % m == m - 1 else '0' for i in range(k))]
    return pats if tier == 'thorough' else pats[:4]


def _expr(c, K, sub, f, model, tc, sparse_expected, A=None, sA=None):
    """evaluate f() on the implementation and model() on the reference; compare."""
    c.n += 1
    try:
        exp = model()
        err = None
    except R.RefError as e:
        exp, err = None, e.kind
    try:
        x = f()
        exc = None
    except Exception as e:
        x, exc = None, e
    ok = False
    if err is not None:
        if exc is None:
            c.fail(K + ':no-exception', 'documented semantics reject the operation (%s) but a result was returned' % err, sub)
        else:
            c.count('arith:rejected')
    elif exc is not None:
        c.fail(K + ':exception:' + type(exc).__name__, 'valid operation raised %r' % exc, sub)
    else:
        ok = vres(c, K, x, exp, tc, sparse_expected, sub)
        if ok:
            c.count('arith:ok')
    if A is not None and snap(A) != sA:
        c.fail(K + ':operand-modified', 'operand changed by a non in-place operation', sub)
    return ok


def ev_unary(c, desc, seed):
    from cvxopt import matrix, spmatrix
    m, n, tc, pat = desc
    Am, ps = model_of(desc, seed)
    A = sp_of(Am, ps)
    sA = snap(A)
    sub = {'A': desc}
    nt0 = c.n
    U = (('neg', lambda: -A, lambda: R.neg(Am)), ('pos', lambda: +A, lambda: Am.copy()),
         ('abs', lambda: abs(A), lambda: R.absm(Am)), ('T', lambda: A.T, lambda: R.trans(Am)),
         ('H', lambda: A.H, lambda: R.trans(Am, True)), ('trans()', lambda: A.trans(), lambda: R.trans(Am)),
         ('ctrans()', lambda: A.ctrans(), lambda: R.trans(Am, True)), ('real()', lambda: A.real(), lambda: R.real(Am)),
         ('imag()', lambda: A.imag(), lambda: R.imag(Am)))
    for name, f, mf in U:
        _expr(c, 'C16:unary:' + name, sub, f, mf, tc, True, A, sA)
    # scalar multiplication / division: result sparse, type follows the Python conventions
    scalars = [('int', 2), ('float', -0.5), ('zero', 0), ('complex', complex(1, -2)), ('d11', matrix([3.0])), ('i11', matrix([2]))]
    for sname, s in scalars:
        sv = s[0] if isinstance(s, matrix) else s
        stc = s.typecode if isinstance(s, matrix) else R.tc_of_number(s)
        rt = R.tc_max(tc, stc, 'd')
        if isinstance(s, matrix) and n == 1:
            mr = lambda: R.matmul(Am, R.D(1, 1, stc, [sv]))
            _expr(c, 'C16:mul:sparse*dense1x1-as-matrix-product', sub, lambda: A * s, mr, rt, False, A, sA)
        else:
            _expr(c, 'C16:mul:sparse*' + sname, sub, lambda: A * s, lambda: R.scal(sv, Am, rt), rt, True, A, sA)
        if isinstance(s, matrix) and m == 1:
            ml = lambda: R.matmul(R.D(1, 1, stc, [sv]), Am)
            _expr(c, 'C16:mul:dense1x1*sparse-as-matrix-product', sub, lambda: s * A, ml, rt, False, A, sA)
        else:
            _expr(c, 'C16:mul:' + sname + '*sparse', sub, lambda: s * A, lambda: R.scal(sv, Am, rt), rt, True, A, sA)
        if sv != 0:
            _expr(c, 'C16:div:sparse/' + sname, sub, lambda: A / s, lambda: R.as_tc(R.div(Am, sv), rt), rt, True, A, sA)
        # A + c, c + A, A - c, c - A : dense
        if not (isinstance(s, matrix) and m * n == 1):
            full = R.D(m, n, stc, [sv] * (m * n))
            _expr(c, 'C16:add:sparse+' + sname, sub, lambda: A + s, lambda: R.add(Am, full), rt, False, A, sA)
            _expr(c, 'C16:add:' + sname + '+sparse', sub, lambda: s + A, lambda: R.add(full, Am), rt, False, A, sA)
            _expr(c, 'C16:sub:sparse-' + sname, sub, lambda: A - s, lambda: R.add(Am, full, -1), rt, False, A, sA)
            _expr(c, 'C16:sub:' + sname + '-sparse', sub, lambda: s - A, lambda: R.add(full, Am, -1), rt, False, A, sA)
    # in-place scalar operations keep the object and its type
    for sname, s in scalars:
        sv = s[0] if isinstance(s, matrix) else s
        stc = s.typecode if isinstance(s, matrix) else R.tc_of_number(s)
        allowed = R.tc_max(tc, stc) == tc
        for opn in ('imul', 'idiv'):
            if opn == 'idiv' and sv == 0:
                continue
            c.n += 1
            K = 'C16:%s:%s' % (opn, sname)
            B = sp_of(Am, ps)
            B0 = B
            try:
                if opn == 'imul':
                    B *= s
                else:
                    B /= s
                exc = None
            except Exception as e:
                exc = e
            if not allowed:
                if exc is None:
                    c.fail(K + ':no-exception', 'in-place operation that changes the type was accepted', sub)
                exp = Am
            elif exc is not None:
                c.fail(K + ':exception:' + type(exc).__name__, 'valid in-place operation raised %r' % exc, sub)
                continue
            else:
                if B is not B0:
                    c.fail(K + ':new-object', 'in-place operation returned a new object', sub)
                exp = R.scal(sv, Am, tc) if opn == 'imul' else R.as_tc(R.div(Am, sv), tc)
            if vsp(c, K, B0, exp, ps, sub):
                c.count('inplace:ok' if allowed else 'inplace:rejected')
    # A += number is documented as not allowed
    c.n += 1
    B = sp_of(Am, ps)
    B0 = B
    try:
        B += 1.0
        if B is B0 or isinstance(B, spmatrix):
            c.fail('C16:iadd:float:no-exception', 'A += 1.0 on a sparse matrix was accepted', sub)
    except Exception:
        c.count('inplace:rejected')
    vsp(c, 'C16:iadd:float', B0, Am, ps, sub)
    # V assignment: values change, pattern does not
    nnz = len(ps)
    cells = sorted(ps)
    vals = [pval(seed, k, tc, 7) for k in range(nnz)]
    if nnz > 1:
        vals[1] = R.zero(tc)
    Vcases = [('number', 1.25, None), ('int', 3, None), ('matrix', matrix(vals, (nnz, 1), tc), None),
              ('too-long', matrix(vals + [vals[0] if vals else R.zero(tc)], (nnz + 1, 1), tc), 'size'),
              ('row-shaped', matrix(vals, (1, nnz), tc), 'size' if nnz != 1 else None)]
    if tc == 'd':
        Vcases.append(('complex-number', complex(1, 1), 'type'))
    for name, v, err in Vcases:
        c.n += 1
        K = 'C16:V-assign:' + name
        B = sp_of(Am, ps)
        try:
            B.V = v
            exc = None
        except Exception as e:
            exc = e
        if err is not None:
            if exc is None:
                c.fail(K + ':no-exception', 'invalid V assignment (%s) accepted' % err, sub)
            exp = Am
        elif exc is not None:
            c.fail(K + ':exception:' + type(exc).__name__, 'valid V assignment raised %r' % exc, sub)
            continue
        else:
            lv = list(v) if isinstance(v, matrix) else [R.conv(v, tc)] * nnz
            exp = R.D(m, n, tc)
            for k, p in enumerate(cells):
                exp.a[p] = lv[k]
        if vsp(c, K, B, exp, ps, sub):
            c.count('V:ok' if err is None else 'V:rejected')
    # size assignment
    tot = m * n
    sizes = [(r, tot // r) for r in range(1, tot + 1) if tot % r == 0] if tot else [(0, 0), (0, 3), (2, 0)]
    sizes += [(m + 1, n), (tot + 1, 1), (-m, -n)] + ([(0, 0)] if tot else [(1, 1)])
    for (r, q) in sizes:
        c.n += 1
        K = 'C16:size-assign'
        B = sp_of(Am, ps)
        sub2 = {'A': desc, 'size': [r, q]}
        try:
            exp = R.reshape(Am, r, q)
            err = None
        except R.RefError as e:
            exp, err = Am, e.kind
        try:
            B.size = (r, q)
            exc = None
        except Exception as e:
            exc = e
        if err is not None and exc is None:
            c.fail(K + ':no-exception', 'size change that alters the number of elements accepted', sub2)
        elif err is None and exc is not None:
            c.fail(K + ':exception:' + type(exc).__name__, 'valid size change raised %r' % exc, sub2)
            continue
        if vsp(c, K, B, exp, ps, sub2):
            c.count('size:ok' if err is None else 'size:rejected')
    if ps:
        c.nontrivial += c.n - nt0


def ev_binary(c, descA, descB, seed):
    """A sparse, B sparse/dense of the same shape (sums) and of the transposed shape (products)."""
    from cvxopt import matrix
    m, n, tca, _ = descA
    tcb = descB[2]
    Am, pa = model_of(descA, seed)
    Bm, pb = model_of(descB, seed, 3)
    A, B, Bd = sp_of(Am, pa), sp_of(Bm, pb), dn_of(Bm)
    sA, sB = snap(A), snap(B)
    sub = {'A': descA, 'B': descB}
    rt = R.tc_max(tca, tcb)
    nt0 = c.n
    E = (('add:sparse+sparse', lambda: A + B, lambda: R.add(Am, Bm), True),
         ('sub:sparse-sparse', lambda: A - B, lambda: R.add(Am, Bm, -1), True),
         ('add:sparse+dense', lambda: A + Bd, lambda: R.add(Am, Bm), False),
         ('add:dense+sparse', lambda: Bd + A, lambda: R.add(Bm, Am), False),
         ('sub:sparse-dense', lambda: A - Bd, lambda: R.add(Am, Bm, -1), False),
         ('sub:dense-sparse', lambda: Bd - A, lambda: R.add(Bm, Am, -1), False))
    for name, f, mf, spx in E:
        _expr(c, 'C16:' + name, sub, f, mf, rt, spx, A, sA)
    if snap(B) != sB or list(Bd) != Bm.a:
        c.fail('C16:add:operand-modified', 'right operand changed', sub)
    # in place A += B, A -= B (only if the type of A does not change)
    for opn, sign in (('iadd', 1), ('isub', -1)):
        c.n += 1
        K = 'C16:%s:sparse' % opn
        X = sp_of(Am, pa)
        X0 = X
        try:
            if sign > 0:
                X += B
            else:
                X -= B
            exc = None
        except Exception as e:
            exc = e
        if rt != tca:
            if exc is None:
                c.fail(K + ':no-exception', 'in-place operation that changes the type was accepted', sub)
            exp = Am
        elif exc is not None:
            c.fail(K + ':exception:' + type(exc).__name__, 'valid in-place operation raised %r' % exc, sub)
            continue
        else:
            if X is not X0:
                c.fail(K + ':new-object', 'in-place operation returned a new object', sub)
            exp = R.as_tc(R.add(Am, Bm, sign), tca)
        if vsp(c, K, X0, exp, None, sub):
            c.count('inplace:ok' if rt == tca else 'inplace:rejected')
    # incompatible shapes
    Bt = R.trans(Bm)
    Bts = sp_of(Bt, set((p % m) * n + p // m for p in pb))
    Btd = dn_of(Bt)
    if m != n:
        _expr(c, 'C16:add:sparse+sparse:shape-mismatch', sub, lambda: A + Bts, lambda: R.add(Am, Bt), rt, True, A, sA)
        _expr(c, 'C16:add:sparse+dense:shape-mismatch', sub, lambda: A + Btd, lambda: R.add(Am, Bt), rt, False, A, sA)
        _expr(c, 'C16:mul:sparse*sparse:shape-mismatch', sub, lambda: A * B, lambda: R.matmul(Am, Bm), rt, True, A, sA)
    # products
    Ad = dn_of(Am)
    P = (('mul:sparse*sparse', lambda: A * Bts, lambda: R.matmul(Am, Bt), True),
         ('mul:sparse*dense', lambda: A * Btd, lambda: R.matmul(Am, Bt), False),
         ('mul:dense*sparse', lambda: Ad * Bts, lambda: R.matmul(Am, Bt), False),
         ('mul:sparse*sparse', lambda: Bts * A, lambda: R.matmul(Bt, Am), True),
         ('mul:dense*sparse', lambda: Btd * A, lambda: R.matmul(Bt, Am), False))
    for name, f, mf, spx in P:
        _expr(c, 'C16:' + name, sub, f, mf, rt, spx, A, sA)
    if pa and pb:
        c.nontrivial += c.n - nt0


# ====================================================================================== base.axpy/gemv/symv/gemm/syrk
AB = (0, 1, -2)


def pal(r, q, tier, k=None):
    P = b_palette(r, q, 'thorough')
    if r * q == 0:
        return ['']
    out = []
    for x in P:
        if x not in out:
            out.append(x)
    if k is None:
        k = 6 if tier == 'thorough' else 4
    return out[:k]


def scal_of(x, tc):
    """alpha / beta palette entry as the Python number passed to the implementation."""
    if tc == 'z' and x == -2:
        return complex(-2, 1)
    return float(x) if x != 1 else 1


def ev_axpy(c, descx, descy, seed):
    from cvxopt import base
    xm, px = model_of(descx, seed)
    ym, py = model_of(descy, seed, 3)
    sub0 = {'x': descx, 'y': descy}
    for sx, sy in ((1, 0), (0, 1), (1, 1)):
        for al in AB + (None,):
            for partial in ((False, True) if sy else (False,)):
                c.n += 1
                K = 'C16:axpy:%s,%s:partial=%s' % ('sparse' if sx else 'dense', 'sparse' if sy else 'dense', partial)
                sub = dict(sub0, alpha=al, partial=partial)
                x = sp_of(xm, px) if sx else dn_of(xm)
                y = sp_of(ym, py) if sy else dn_of(ym)
                sx0 = snap(x) if sx else list(x)
                kw = {}
                if al is not None:
                    kw['alpha'] = scal_of(al, ym.tc)
                if partial:
                    kw['partial'] = True
                bad = xm.tc != ym.tc
                try:
                    base.axpy(x, y, **kw)
                    exc = None
                except Exception as e:
                    exc = e
                if bad:
                    if exc is None:
                        c.fail(K + ':no-exception', 'operands of different type accepted', sub)
                    exp, ep = ym, py
                elif exc is not None:
                    c.fail(K + ':exception:' + type(exc).__name__, 'valid call raised %r' % exc, sub)
                    continue
                else:
                    full = R.axpy(xm, ym, kw.get('alpha', 1.0))
                    if sy and partial:
                        exp, ep = R.masked(full, ym, py), py
                    else:
                        exp, ep = full, (set(range(len(ym.a))) if (sy and not sx) else None)
                ok = vsp(c, K, y, exp, ep, sub) if sy else vdn(c, K, y, exp, sub)
                if ok:
                    c.count('axpy:ok' if not bad else 'axpy:rejected')
                    if px and not bad:
                        c.nontrivial += 1
                if (snap(x) if sx else list(x)) != sx0:
                    c.fail(K + ':operand-modified', 'x changed', sub)


def _vec(seed, n, tc, salt):
    return [pval(seed, k, tc, salt) for k in range(n)]


def _strided(logical, inc, off, tc, sent):
    """buffer holding `logical` with BLAS increment `inc` starting at `off`; other entries = sentinel."""
    n = len(logical)
    a = abs(inc)
    L = off + (1 + (n - 1) * a if n else 0) + 1
    buf = [sent] * L
    for i, v in enumerate(logical):
        buf[off + (i if inc > 0 else n - 1 - i) * a] = v
    return buf


GEMV_VARIANTS = ((1, 1, 0, 0), (1, 1, 1, 2), (2, 3, 0, 0), (-1, 1, 1, 0), (1, -2, 0, 1))   # incx, incy, offsetx, offsety
GEMV_VNAME = ('plain', 'offset', 'pos-inc', 'neg-incx', 'neg-incy')


def ev_gemv(c, desc, seed, tier):
    """A sparse; every trans, alpha, beta; increments/offsets; sub-block via m, n, offsetA."""
    from cvxopt import base, matrix
    m, n, tc, _ = desc
    Am, pa = model_of(desc, seed)
    A = sp_of(Am, pa)
    sA = snap(A)
    Ad = dn_of(Am)
    sent = complex(-777.25, 0) if tc == 'z' else -777.25
    blocks = [(m, n, 0, False)]
    if m >= 2 and n >= 2:
        blocks.append((m - 1, n - 1, 1 + m, True))
    if m >= 1 and n >= 1:
        blocks.append((m, 0, 0, True))
        blocks.append((0, n, 0, True))
    for (bm, bn, oA, explicit) in blocks:
        oi, oj = (oA % m, oA // m) if m else (0, 0)
        Sub = R.D(bm, bn, tc, [Am.a[(oj + j) * m + oi + i] for j in range(bn) for i in range(bm)])
        for t in 'NTC':
            lx, ly = (bn, bm) if t == 'N' else (bm, bn)
            for vi, (ix, iy, ox, oy) in enumerate(GEMV_VARIANTS):
                if vi and (explicit or tier != 'thorough' and t == 'C'):
                    continue
                for al in AB + (None,):
                    for be in AB + (None,):
                        c.n += 1
                        K = 'C16:gemv:trans=%s:%s' % (t, 'subblock' if explicit else GEMV_VNAME[vi])
                        sub = {'A': desc, 'trans': t, 'alpha': al, 'beta': be, 'm': bm, 'n': bn, 'offsetA': oA,
                               'inc': [ix, iy], 'off': [ox, oy]}
                        xl, yl = _vec(seed, lx, tc, 2), _vec(seed, ly, tc, 6)
                        xb, yb = _strided(xl, ix, ox, tc, sent), _strided(yl, iy, oy, tc, sent)
                        x, y = matrix(xb, (len(xb), 1), tc), matrix(yb, (len(yb), 1), tc)
                        kw = {'trans': t}
                        if al is not None:
                            kw['alpha'] = scal_of(al, tc)
                        if be is not None:
                            kw['beta'] = scal_of(be, tc)
                        if explicit:
                            kw.update(m=bm, n=bn, offsetA=oA)
                        if vi:
                            kw.update(incx=ix, incy=iy, offsetx=ox, offsety=oy)
                        yd = matrix(yb, (len(yb), 1), tc)
                        try:
                            base.gemv(A, x, y, **kw)
                        except Exception as e:
                            c.fail(K + ':exception:' + type(e).__name__, 'valid call raised %r' % e, sub)
                            continue
                        # documented: returns immediately if the output dimension is 0 ... / y := beta*y if inner dimension is 0
                        if (bm == 0 and t == 'N') or (bn == 0 and t != 'N'):
                            want = yl
                        else:
                            want = R.gemv(Sub, xl, yl, t, kw.get('alpha', 1.0), kw.get('beta', 0.0))
                        wb = _strided(want, iy, oy, tc, sent)
                        got = list(y)
                        bad = [q for q in range(len(wb)) if not same(got[q], wb[q])]
                        if bad:
                            c.fail(K + ':value', 'y[%d] is %r, expected %r; y=%r expected %r' % (bad[0], got[bad[0]], wb[bad[0]], got, wb), sub)
                        else:
                            c.count('gemv:ok')
                            if pa:
                                c.nontrivial += 1
                        if list(x) != xb or snap(A) != sA:
                            c.fail(K + ':operand-modified', 'A or x changed', sub)
                        if DENSE_SIDE:
                            try:
                                base.gemv(Ad, x, yd, **kw)
                                if any(not same(g, w) for g, w in zip(list(yd), wb)):
                                    c.count('dense-side-differs-from-model:gemv:m=%d,n=%d,trans=%s' % (bm, bn, t))
                            except Exception:
                                c.count('dense-side-differs-from-model:gemv-raises')


def ev_symv(c, desc, seed, tier):
    from cvxopt import base, matrix
    n, _, tc, _ = desc
    Am, pa = model_of(desc, seed)
    A = sp_of(Am, pa)
    sA = snap(A)
    Ad = dn_of(Am)
    sent = -777.25
    for uplo in 'LU':
        for vi, (ix, iy, ox, oy) in enumerate(GEMV_VARIANTS):
            for al in AB + (None,):
                for be in AB + (None,):
                    c.n += 1
                    K = 'C16:symv:uplo=%s:%s' % (uplo, GEMV_VNAME[vi])
                    sub = {'A': desc, 'uplo': uplo, 'alpha': al, 'beta': be, 'inc': [ix, iy], 'off': [ox, oy]}
                    xl, yl = _vec(seed, n, tc, 2), _vec(seed, n, tc, 6)
                    xb, yb = _strided(xl, ix, ox, tc, sent), _strided(yl, iy, oy, tc, sent)
                    x, y = matrix(xb, (len(xb), 1), tc), matrix(yb, (len(yb), 1), tc)
                    kw = {'uplo': uplo}
                    if al is not None:
                        kw['alpha'] = scal_of(al, tc)
                    if be is not None:
                        kw['beta'] = scal_of(be, tc)
                    if vi:
                        kw.update(incx=ix, incy=iy, offsetx=ox, offsety=oy)
                    yd = matrix(yb, (len(yb), 1), tc)
                    try:
                        base.symv(A, x, y, **kw)
                    except Exception as e:
                        c.fail(K + ':exception:' + type(e).__name__, 'valid call raised %r' % e, sub)
                        continue
                    want = R.symv(Am, xl, yl, uplo, kw.get('alpha', 1.0), kw.get('beta', 0.0)) if n else yl
                    wb = _strided(want, iy, oy, tc, sent)
                    got = list(y)
                    bad = [q for q in range(len(wb)) if not same(got[q], wb[q])]
                    if bad:
                        c.fail(K + ':value', 'y[%d] is %r, expected %r; y=%r expected %r' % (bad[0], got[bad[0]], wb[bad[0]], got, wb), sub)
                    else:
                        c.count('symv:ok')
                        if pa:
                            c.nontrivial += 1
                    if list(x) != xb or snap(A) != sA:
                        c.fail(K + ':operand-modified', 'A or x changed', sub)
                    if DENSE_SIDE and n:
                        try:
                            base.symv(Ad, x, yd, **kw)
                            if any(not same(g, w) for g, w in zip(list(yd), wb)):
                                c.count('dense-side-differs-from-model:symv')
                        except Exception:
                            c.count('dense-side-differs-from-model:symv-raises')
    # every square sub-block (order n - 1) addressed through n and offsetA, both triangles
    if n >= 2:
        n2 = n - 1
        for uplo in 'LU':
            for r0 in range(n - n2 + 1):
                for c0 in range(n - n2 + 1):
                    c.n += 1
                    K = 'C16:symv:uplo=%s:subblock' % uplo
                    sub = {'A': desc, 'uplo': uplo, 'n': n2, 'offsetA': r0 + c0 * n, 'block-at': [r0, c0]}
                    Bm = R.D(n2, n2, tc, [Am.a[(c0 + j) * n + r0 + i] for j in range(n2) for i in range(n2)])
                    xl, yl = _vec(seed, n2, tc, 3), _vec(seed, n2, tc, 5)
                    x, y = matrix(xl, (n2, 1), tc), matrix(yl, (n2, 1), tc)
                    try:
                        base.symv(A, x, y, uplo=uplo, alpha=scal_of(AB[1], tc), beta=scal_of(AB[0], tc), n=n2, offsetA=r0 + c0 * n)
                    except Exception as e:
                        c.fail(K + ':exception:' + type(e).__name__, 'valid call raised %r' % e, sub)
                        continue
                    want = R.symv(Bm, xl, yl, uplo, scal_of(AB[1], tc), scal_of(AB[0], tc))
                    got = list(y)
                    bad = [q for q in range(n2) if not same(got[q], want[q])]
                    if bad:
                        c.fail(K + ':value', 'y[%d] is %r, expected %r; y=%r expected %r' % (bad[0], got[bad[0]], want[bad[0]], got, want), sub)
                    else:
                        c.count('symv:ok')
                    if snap(A) != sA:
                        c.fail(K + ':operand-modified', 'A changed', sub)


def ev_gemm(c, m, n, k, tc, combo, tA, tB, seed, tier, npat=None, ab=None, partials=None):
    """combo = (sA, sB, sC) ; loops over operand patterns, alpha, beta, partial."""
    from cvxopt import base
    sA_, sB_, sC_ = combo
    shA = (m, k) if tA == 'N' else (k, m)
    shB = (k, n) if tB == 'N' else (n, k)
    pA = pal(shA[0], shA[1], tier, npat) if sA_ else ['2' * (m * k)]
    pB = pal(shB[0], shB[1], tier, npat) if sB_ else ['2' * (k * n)]
    pC = pal(m, n, tier, npat) if sC_ else ['2' * (m * n)]
    cname = ','.join('sparse' if s else 'dense' for s in combo)
    for a_ in pA:
        Am, ap = model_of([shA[0], shA[1], tc, a_], seed)
        A = sp_of(Am, ap) if sA_ else dn_of(Am)
        snA = snap(A) if sA_ else list(A)
        for b_ in pB:
            Bm, bp = model_of([shB[0], shB[1], tc, b_], seed, 3)
            B = sp_of(Bm, bp) if sB_ else dn_of(Bm)
            snB = snap(B) if sB_ else list(B)
            # feature of the input: some column of op(B) has no stored entry
            bflag = ''
            if sB_:
                cols = set((p // shB[0]) if tB == 'N' else (p % shB[0]) for p in bp)
                if len(cols) < n:
                    bflag = '+Bemptycol'
            for c_ in pC:
                Cm, cp = model_of([m, n, tc, c_], seed, 6)
                for partial in (partials or ((False, True) if sC_ else (False,))):
                    K = 'C16:gemm:%s:%s:transA=%s:partial=%s%s' % (tc, cname, tA, partial, bflag)
                    for al in AB:
                        for be in AB:
                            if ab is not None and (al, be) != tuple(ab):
                                continue
                            c.n += 1
                            sub = {'A': [shA[0], shA[1], tc, a_], 'B': [shB[0], shB[1], tc, b_], 'C': [m, n, tc, c_],
                                   'alpha': al, 'beta': be}
                            C = sp_of(Cm, cp) if sC_ else dn_of(Cm)
                            kw = {'transA': tA, 'transB': tB, 'alpha': scal_of(al, tc), 'beta': scal_of(be, tc)}
                            if partial:
                                kw['partial'] = True
                            try:
                                base.gemm(A, B, C, **kw)
                            except Exception as e:
                                c.fail(K + ':exception:' + type(e).__name__, 'valid call raised %r' % e, sub)
                                continue
                            if m == 0 or n == 0:
                                exp = Cm
                            else:
                                exp = R.gemm(Am, Bm, Cm, tA, tB, kw['alpha'], kw['beta'])
                            if sC_ and partial:
                                ok = vsp(c, K, C, R.masked(exp, Cm, cp), cp, sub)
                            elif sC_:
                                ok = vsp(c, K, C, exp, None, sub)
                            else:
                                ok = vdn(c, K, C, exp, sub)
                            if ok:
                                c.count('gemm:ok')
                                if (ap or not sA_) and (bp or not sB_):
                                    c.nontrivial += 1
            if (snap(B) if sB_ else list(B)) != snB:
                c.fail('C16:gemm:%s:operand-modified' % cname, 'B changed', {'B': b_})
        if (snap(A) if sA_ else list(A)) != snA:
            c.fail('C16:gemm:%s:operand-modified' % cname, 'A changed', {'A': a_})


def ev_syrk(c, n, k, tc, combo, uplo, t, seed, tier, npat=None):
    from cvxopt import base
    sA_, sC_ = combo
    shA = (n, k) if t == 'N' else (k, n)
    pA = pal(shA[0], shA[1], tier, npat) if sA_ else ['2' * (n * k)]
    pC = pal(n, n, tier, npat) if sC_ else ['2' * (n * n)]
    cname = ','.join('sparse' if s else 'dense' for s in combo)
    tri = set(p for p in range(n * n) if R.in_triangle(p, n, uplo))
    for a_ in pA:
        Am, ap = model_of([shA[0], shA[1], tc, a_], seed)
        A = sp_of(Am, ap) if sA_ else dn_of(Am)
        snA = snap(A) if sA_ else list(A)
        for c_ in pC:
            Cm, cp = model_of([n, n, tc, c_], seed, 6)
            for partial in ((False, True) if sC_ else (False,)):
                for al in AB:
                    K = 'C16:syrk:%s:%s:trans=%s:partial=%s:alpha=%s%s' % (tc, cname, t, partial, al, ',k=0' if k == 0 else '')
                    for be in AB:
                        c.n += 1
                        sub = {'A': [shA[0], shA[1], tc, a_], 'C': [n, n, tc, c_], 'alpha': al, 'beta': be}
                        C = sp_of(Cm, cp) if sC_ else dn_of(Cm)
                        kw = {'uplo': uplo, 'trans': t, 'alpha': scal_of(al, tc), 'beta': scal_of(be, tc)}
                        if partial:
                            kw['partial'] = True
                        try:
                            base.syrk(A, C, **kw)
                        except Exception as e:
                            c.fail(K + ':exception:' + type(e).__name__, 'valid call raised %r' % e, sub)
                            continue
                        exp = R.syrk(Am, Cm, uplo, t, kw['alpha'], kw['beta']) if n else Cm
                        if sC_ and partial:
                            # entries outside the pattern stay structurally zero; the pattern is kept
                            ok = vsp(c, K, C, R.masked(exp, Cm, cp), cp, sub, only=tri)
                        elif sC_:
                            ok = vsp(c, K, C, exp, None, sub, only=tri)
                        else:
                            ok = vdn(c, K, C, exp, sub, only=tri)
                        if ok:
                            c.count('syrk:ok')
                            if ap or not sA_:
                                c.nontrivial += 1
        if (snap(A) if sA_ else list(A)) != snA:
            c.fail('C16:syrk:%s:operand-modified' % cname, 'A changed', {'A': a_})


# ====================================================================================== sparse() block lists, spdiag()
def _blk(kind, r, q, tc, seed, salt):
    """block of kind 's' (sparse), 'd' (dense), 'n' (number, 1x1 only) -> (object, model)"""
    if kind == 'n':
        v = pval(seed, salt, tc) if salt % 3 else (0 if tc == 'd' else 0j)
        return v, v
    st = ''.join('201'[(i + salt) % 3] for i in range(r * q))
    Dm, ps = model_of([r, q, tc, st], seed, salt)
    return (sp_of(Dm, ps) if kind == 's' else dn_of(Dm)), Dm


def ev_blocks(c, seed, tier, part):
    """sparse([[A, C], [B, D]]) (list of block columns) over block heights/widths in {1,2} and block kinds."""
    from cvxopt import sparse
    tcmix = ('dddd', 'zzzz', 'dzdd', 'ddzd') if tier == 'thorough' else ('dddd', 'dzdd')
    idx = 0
    for r1, r2, q1, q2 in itertools.product((1, 2), repeat=4):
        for kinds in itertools.product('sdn', repeat=4):
            dims = ((r1, q1), (r2, q1), (r1, q2), (r2, q2))     # A, B (first block column), C, D
            if any(k == 'n' and d != (1, 1) for k, d in zip(kinds, dims)):
                continue
            idx += 1
            if idx % 4 != part:
                continue
            for tcs in tcmix:
                c.n += 1
                K = 'C16:sparse(blocks):%s' % ''.join(kinds)
                sub = {'heights': [r1, r2], 'widths': [q1, q2], 'kinds': ''.join(kinds), 'tcs': tcs}
                ob, mo = [], []
                for t, (k, d) in enumerate(zip(kinds, dims)):
                    o, mm = _blk(k, d[0], d[1], tcs[t], seed, 2 * t + 1)
                    ob.append(o); mo.append(mm)
                exp = R.blocks([[mo[0], mo[1]], [mo[2], mo[3]]])
                try:
                    S = sparse([[ob[0], ob[1]], [ob[2], ob[3]]])
                except Exception as e:
                    c.fail(K + ':exception:' + type(e).__name__, 'valid block matrix raised %r' % e, sub)
                    continue
                nzp = set(p for p, v in enumerate(exp.a) if v != 0)
                if vsp(c, K, S, exp, nzp, sub):
                    c.count('blocks:ok')
                    c.nontrivial += 1
                # a single block column given as a plain list, and explicit tc
                c.n += 1
                exp1 = R.blocks([[mo[0], mo[1]]])
                try:
                    S1 = sparse([ob[0], ob[1]])
                    if vsp(c, K + ':single-column', S1, exp1, set(p for p, v in enumerate(exp1.a) if v != 0), sub):
                        c.count('blocks:ok')
                    S2 = sparse([[ob[0], ob[1]]], tc='z')
                    vsp(c, K + ':tc=z', S2, R.as_tc(exp1, 'z'), None, sub)
                except Exception as e:
                    c.fail(K + ':single-column:exception:' + type(e).__name__, 'raised %r' % e, sub)
    if part == 1:
        # block columns of three blocks with a number (a 1x1 block) in the middle / first / last position
        for r1, r3 in itertools.product((1, 2, 3), (1, 2)):
            for k1, k3 in itertools.product('sd', repeat=2):
                for pos in (0, 1, 2):
                    for tc in ('d', 'z') if tier == 'thorough' else ('d',):
                        c.n += 1
                        K = 'C16:sparse(blocks):three-blocks:number-at-%d' % pos
                        sub = {'heights': [r1, r3], 'kinds': k1 + k3, 'number-at': pos, 'tc': tc}
                        cols_o, cols_m = [], []
                        for col in (0, 1):
                            o1, m1 = _blk(k1, r1, 1, tc, seed, 3 + col)
                            o3, m3 = _blk(k3, r3, 1, tc, seed, 5 + col)
                            v, vm = _blk('n', 1, 1, tc, seed, 7 + col)
                            lo, lm = [o1, o3], [m1, m3]
                            lo.insert(pos, v); lm.insert(pos, vm)
                            cols_o.append(lo); cols_m.append(lm)
                        for ncol in (1, 2):
                            exp = R.blocks(cols_m[:ncol])
                            try:
                                S = sparse(cols_o[:ncol])
                            except Exception as e:
                                c.fail(K + ':exception:' + type(e).__name__, 'valid block matrix raised %r' % e, sub)
                                continue
                            if vsp(c, K, S, exp, set(p for p, x in enumerate(exp.a) if x != 0), sub):
                                c.count('blocks:ok')
                                c.nontrivial += 1
    if part == 0:
        # incompatible block sizes are rejected
        from cvxopt import matrix, spmatrix
        for bad in ([[spmatrix(1.0, [0], [0], (2, 1)), matrix(1.0, (1, 2))]], [[matrix(1.0, (2, 1))], [spmatrix([], [], [], (3, 1))]]):
            c.n += 1
            try:
                sparse(bad)
                c.fail('C16:sparse(blocks):incompatible:no-exception', 'incompatible block dimensions accepted')
            except Exception:
                c.count('blocks:rejected')


def ev_elementwise(c, descA, descB, seed):
    """cvxopt.mul / div / max / min with sparse arguments (matrices.rst, 'Other Matrix Functions'): values equal the
    elementwise operation on the dense images; the result is sparse where the manual says so (mul: one or more sparse
    arguments; max / min: all arguments sparse) and then a valid CCS structure."""
    import cvxopt
    m, n, tca, _ = descA
    tcb = descB[2]
    Am, pa = model_of(descA, seed)
    Bm, pb = model_of(descB, seed, 3)
    A, B, Bd = sp_of(Am, pa), sp_of(Bm, pb), dn_of(Bm)
    sA, sB = snap(A), snap(B)
    sub = {'A': descA, 'B': descB}
    rt = R.tc_max(tca, tcb)

    def D(vals, tc=rt):
        return R.D(m, n, tc, [R.conv(v, tc) for v in vals])
    prod = D([a * b for a, b in zip(Am.a, Bm.a)])
    E = [('mul:sparse,sparse', lambda: cvxopt.mul(A, B), prod, True),
         ('mul:sparse,dense', lambda: cvxopt.mul(A, Bd), prod, True),
         ('mul:dense,sparse', lambda: cvxopt.mul(Bd, A), prod, True),
         ('mul:sparse,number', lambda: cvxopt.mul(A, 2.0), D([2.0 * a for a in Am.a], R.tc_max(tca, 'd')), True)]
    if tca == 'd' and tcb == 'd':
        mx = D([max(a, b) for a, b in zip(Am.a, Bm.a)])
        mn = D([min(a, b) for a, b in zip(Am.a, Bm.a)])
        E += [('max:sparse,sparse', lambda: cvxopt.max(A, B), mx, True), ('min:sparse,sparse', lambda: cvxopt.min(A, B), mn, True),
              ('max:sparse,dense', lambda: cvxopt.max(A, Bd), mx, False), ('min:dense,sparse', lambda: cvxopt.min(Bd, A), mn, False),
              ('max:sparse,number', lambda: cvxopt.max(A, 1.5), D([max(a, 1.5) for a in Am.a]), False),
              ('min:number,sparse', lambda: cvxopt.min(-0.5, A), D([min(a, -0.5) for a in Am.a]), False)]
    if all(b != 0 for b in Bm.a) and m * n:
        q = D([a / b for a, b in zip(Am.a, Bm.a)], R.tc_max(rt, 'd'))
        E += [('div:sparse,dense', lambda: cvxopt.div(A, Bd), q, None)]
    E += [('div:sparse,number', lambda: cvxopt.div(A, 4.0), D([a / 4.0 for a in Am.a], R.tc_max(tca, 'd')), None)]
    for name, f, exp, want_sparse in E:
        c.n += 1
        K = 'C16:elementwise:' + name + (':1x1' if m * n == 1 else '')
        try:
            got = f()
        except Exception as e:
            c.fail(K + ':exception:' + type(e).__name__, 'documented call raised %r' % e, sub)
            continue
        from cvxopt import spmatrix, matrix
        if want_sparse is None:
            want_sparse = isinstance(got, spmatrix)         # div: the manual does not say; values and structure are checked
        ok = vsp(c, K, got, exp, None, sub) if want_sparse else vdn(c, K, got, exp, sub)
        if ok:
            c.count('elementwise:ok')
            if pa:
                c.nontrivial += 1
    if snap(A) != sA or snap(B) != sB or list(Bd) != Bm.a:
        c.fail('C16:elementwise:operand-modified', 'an argument of mul / div / max / min changed', sub)


def ev_spdiag(c, seed, tier):
    from cvxopt import matrix, spmatrix, spdiag
    # vectors: dense column / row, sparse column / row
    for n in (1, 2, 3):      # (a 0 x 1 argument is rejected; the documentation is silent on empty vectors)
        for tc in 'idz':
            c.n += 1
            v = [(k + 1) * (-1) ** k for k in range(n)] if tc == 'i' else [pval(seed, k, tc) for k in range(n)]
            if n > 1:
                v[1] = R.zero(tc)
            Dv = R.D(n, 1, tc, v)
            for shape, name in (((n, 1), 'dense-column'), ((1, n), 'dense-row')):
                K = 'C16:spdiag:' + name
                try:
                    S = spdiag(matrix(v, shape, tc))
                    if vsp(c, K, S, R.diag(Dv), None, {'x': v, 'tc': tc}):
                        c.count('spdiag:ok')
                        c.nontrivial += 1 if n else 0
                except Exception as e:
                    c.fail(K + ':exception:' + type(e).__name__, 'raised %r' % e, {'x': v, 'tc': tc})
        for tc in 'dz':
            for st in all_patterns(n):
                Dm, ps = model_of([n, 1, tc, st], seed)
                for shape, name in (((n, 1), 'sparse-column'), ((1, n), 'sparse-row')):
                    c.n += 1
                    K = 'C16:spdiag:' + name
                    sub = {'x': [n, 1, tc, st], 'shape': list(shape)}
                    X = spmatrix([Dm.a[p] for p in sorted(ps)], [p if shape[1] == 1 else 0 for p in sorted(ps)],
                                 [0 if shape[1] == 1 else p for p in sorted(ps)], shape, tc)
                    try:
                        S = spdiag(X)
                    except Exception as e:
                        c.fail(K + ':exception:' + type(e).__name__, 'raised %r' % e, sub)
                        continue
                    if vsp(c, K, S, R.diag(Dm), None, sub):
                        c.count('spdiag:ok')
                        c.nontrivial += 1 if ps else 0
    # lists of square blocks and scalars
    items = [('n', 1, 'd'), ('n', 1, 'z'), ('d', 1, 'd'), ('d', 2, 'd'), ('s', 2, 'd'), ('s', 2, 'z'), ('d', 2, 'i'), ('s', 1, 'd'),
             ('s', 0, 'd'), ('d', 0, 'd')]
    if tier != 'thorough':
        items = items[:8]
    for L in range(0, 4):
        for combo in itertools.product(range(len(items)), repeat=L):
            c.n += 1
            ob, mo = [], []
            for t, ii in enumerate(combo):
                k, r, tc = items[ii]
                if tc == 'i':
                    Dm = R.D(r, r, 'i', [(q + 1) * (-1) ** q if q != 1 else 0 for q in range(r * r)])
                    o, mm = dn_of(Dm), Dm
                else:
                    o, mm = _blk(k, r, r, tc, seed, t + 1)
                ob.append(o); mo.append(mm)
            K = 'C16:spdiag:list'
            sub = {'items': [list(items[ii]) for ii in combo]}
            try:
                S = spdiag(ob)
            except Exception as e:
                c.fail(K + ':exception:' + type(e).__name__, 'raised %r' % e, sub)
                continue
            if vsp(c, K, S, R.blockdiag(mo), None, sub):
                c.count('spdiag:ok')
                c.nontrivial += 1 if L else 0
    c.n += 1
    try:
        spdiag([matrix(1.0, (2, 3))])
        c.fail('C16:spdiag:list:non-square:no-exception', 'non-square block accepted')
    except Exception:
        c.count('spdiag:rejected')


# ====================================================================================== hist: BFS over mutation histories
ALLROWS = ['s', None, None, None]
HIST_OPS = (
    ('set', (['i', 0], ['i', 0]), 'num'),                 # A[0,0] = 7.5
    ('set', (['i', -1], ['i', -1]), 'num0'),              # A[-1,-1] = 0.0  (explicit zero)
    ('set', (['l', [0, -1]], ['l', [0]]), 'dfit'),        # A[I,J] = dense M
    ('set', (ALLROWS, ['i', 0]), 'sfit'),                 # A[:,0] = sparse column
    ('V', 'fit'),                                         # A.V = matrix
    ('iadd', '201'),                                      # A += B
    ('imul', 2),                                          # A *= 2
    ('size', 'swap'),                                     # A.size = (ncols, nrows)
    ('set', (['i', 1], ['i', 0]), 'numi'),                # A[1,0] = 3
    ('set', (ALLROWS, ['i', -1]), 'sempty'),              # A[:,-1] = sparse column without entries
    ('set', (['l', [4, 1]],), 'sfit'),                    # A[[4,1]] = sparse 2x1
    ('V', 'number'),                                      # A.V = 1.25
    ('size', 'column'),                                   # A.size = (len, 1)
    ('set', (['i', 2],), 'num'),                          # A[2] = 7.5
    ('set', (['i', 0], ALLROWS), 'num0'),                 # A[0,:] = 0.0
    ('set', (['l', [1, 0]], ['l', [-1, 0]]), 'dfit'),     # A[[1,0],[-1,0]] = dense 2x2
    ('set', (['s', None, None, 2],), 'num0'),             # A[::2] = 0.0
    ('isub', '222'),                                      # A -= B (full)
    ('imul', 0),                                          # A *= 0
    ('size', 'row'),                                      # A.size = (1, len)
)
HIST_INIT = ([2, 3, '201020'], [3, 2, '020211'], [2, 3, '000000'])


def hist_name(op, dims=None):
    if op[0] == 'set':
        nm = 'set[%s]=%s' % (','.join(KIND[s[0]] for s in op[1]), op[2])
        if dims is not None:
            fl = R.flags1(op[1][0], dims[0] * dims[1]) if len(op[1]) == 1 else R.flags2(op[1][0], op[1][1], dims[0], dims[1])
            if any('dup' in f for f in fl):
                nm += ':dup'
        return nm
    return '%s:%s' % (op[0], op[1])


def hist_apply(c, A, M, pat, op, seed, check):
    """apply one mutating operation to the implementation object A (in place) and to the model.
    returns (A, M', pat' or None if the documentation does not define the resulting pattern)."""
    from cvxopt import matrix
    K = 'C16:hist:' + hist_name(op)
    kind = op[0]
    err = None
    M2, pat2 = M, pat
    if kind == 'set':
        specs, vk = op[1], op[2]
        one = len(specs) == 1
        try:
            if one:
                sc, I = R.expand(specs[0], M.nr * M.nc)
                lhs, pos = (len(I), 1), list(I)
            else:
                sci, I = R.expand(specs[0], M.nr)
                scj, J = R.expand(specs[1], M.nc)
                lhs, pos = (len(I), len(J)), [j * M.nr + i for j in J for i in I]
            val, mval, _, vpat = make_value(vk, lhs[0], lhs[1], seed)
            M2 = M.copy()
            if one:
                R.set1(M2, specs[0], mval)
            else:
                R.set2(M2, specs[0], specs[1], mval)
            pat2 = set(pat)
            for k, p in enumerate(pos):
                if vpat is None or k in vpat:
                    pat2.add(p)
                else:
                    pat2.discard(p)
        except R.RefError as e:
            err, M2, pat2 = e.kind, M, pat
            val = make_value(vk, 1, 1, seed)[0]
        idx = idx_obj(specs[0]) if one else (idx_obj(specs[0]), idx_obj(specs[1]))

        def f():
            A[idx] = val
    elif kind == 'V':
        cells = sorted(pat)
        if op[1] == 'number':
            v = 1.25
            lv = [R.conv(v, M.tc)] * len(cells)
        else:
            lv = [pval(seed, k, M.tc, 7) for k in range(len(cells))]
            if len(lv) > 1:
                lv[1] = R.zero(M.tc)
            v = matrix(lv, (len(lv), 1), M.tc)
        M2 = R.D(M.nr, M.nc, M.tc)
        for k, p in enumerate(cells):
            M2.a[p] = lv[k]

        def f():
            A.V = v
    elif kind in ('iadd', 'isub'):
        st = ''.join(op[1][k % 3] for k in range(M.nr * M.nc))
        Bm, bp = model_of([M.nr, M.nc, M.tc, st], seed, 3)
        B = sp_of(Bm, bp)
        M2 = R.as_tc(R.add(M, Bm, 1 if kind == 'iadd' else -1), M.tc)
        pat2 = None

        def f():
            X = A
            if kind == 'iadd':
                X += B
            else:
                X -= B
            if X is not A:
                raise AssertionError('in-place operation returned a new object')
    elif kind == 'imul':
        M2 = R.scal(op[1], M, M.tc)

        def f():
            X = A
            X *= op[1]
            if X is not A:
                raise AssertionError('in-place operation returned a new object')
    else:
        L = M.nr * M.nc
        new = {'swap': (M.nc, M.nr), 'column': (L, 1), 'row': (1, L)}[op[1]]
        M2 = R.reshape(M, new[0], new[1])

        def f():
            A.size = new
    try:
        f()
        exc = None
    except Exception as e:
        exc = e
    if check:
        c.n += 1
        if err is not None and exc is None:
            c.fail(K + ':no-exception', 'documented semantics reject the operation (%s) but it was accepted' % err,
                   {'state': [M.nr, M.nc, M.tc, M.a]})
        elif err is None and exc is not None:
            c.fail(K + ':exception:' + type(exc).__name__, 'valid operation raised %r' % exc, {'state': [M.nr, M.nc, M.tc, M.a]})
    return M2, pat2


def hist_state_check(c, A, M, pat, hist, seed, dims=None):
    """invariant + lock-step comparison + differential against a matrix built from scratch."""
    from cvxopt import spmatrix
    K = 'C16:hist:' + hist_name(hist[-1], dims) if hist else 'C16:hist:initial'
    sub = {'history': [hist_name(h) for h in hist]}
    if not vsp(c, K, A, M, pat, sub):
        return None
    s = snap(A)
    cp, ri = s[2], s[3]
    cells = [j * M.nr + ri[k] for j in range(M.nc) for k in range(cp[j], cp[j + 1])]
    S = spmatrix([M.a[p] for p in cells], [p % M.nr for p in cells], [p // M.nr for p in cells], (M.nr, M.nc), M.tc)
    t = snap(S)
    if t[:4] != s[:4] or any(not same(g, w) for g, w in zip(s[4], t[4])):
        c.fail(K + ':differs-from-scratch', 'object %r, from scratch %r' % (s, t), sub)
        return None
    return set(cells)


def run_hist(c, case, seed):
    init = HIST_INIT[case['init']]
    desc = [init[0], init[1], case['tc'], init[2]]
    ops = HIST_OPS[:case['nops']]
    depth = case['depth']
    M0, p0 = model_of(desc, seed)
    states = transitions = 0
    seen = set()

    def replay(hist):
        A, M, pat = sp_of(M0, p0), M0, p0
        for h in hist:
            M, pat = hist_apply(c, A, M, pat, h, seed, False)
            if pat is None:
                cp, ri = A.CCS[0], A.CCS[1]
                pat = set(j * M.nr + ri[k] for j in range(M.nc) for k in range(cp[j], cp[j + 1]))
        return A, M, pat

    frontier = [[]]
    if case['first'] is None:
        A, M, pat = replay([])
        hist_state_check(c, A, M, pat, [], seed)
        return 1, 0
    for level in range(depth):
        nxt = []
        for hist in frontier:
            for oi, op in enumerate(ops):
                if level == 0 and oi != case['first']:
                    continue
                A, M, pat = replay(hist)
                M2, pat2 = hist_apply(c, A, M, pat, op, seed, True)
                transitions += 1
                h2 = hist + [op]
                newpat = hist_state_check_or_known(c, A, M2, pat2, h2, seed, seen, (M.nr, M.nc))
                if newpat is not None:
                    states += 1
                    nxt.append(h2)
        frontier = nxt
    return states, transitions


def _cells(s):
    cp, ri, nr = s[2], s[3], s[0][0]
    return set(j * nr + ri[k] for j in range(s[0][1]) for k in range(cp[j], cp[j + 1]))


def hist_state_check_or_known(c, A, M2, pat2, h2, seed, seen, dims=None):
    """returns the pattern of a NEW valid state, None for an already visited or an invalid one."""
    s = snap(A)
    k = (s, tuple(M2.a), M2.nr, M2.nc)
    if k in seen and (pat2 is None or pat2 == _cells(s)):
        return None            # same implementation state and same model state: already validated
    got = hist_state_check(c, A, M2, pat2, h2, seed, dims)
    if got is None or k in seen:
        return None
    seen.add(k)
    return got


# ====================================================================================== enumeration
FIXED = ([0, 0, ''], [0, 3, ''], [3, 0, ''], [0, 1, ''], [1, 0, ''], [1, 1, '0'], [1, 1, '1'], [1, 1, '2'],
         [1, 3, '201'], [1, 3, '020'], [3, 1, '120'], [3, 1, '002'],
         [3, 3, '000000000'], [3, 3, '222222222'], [3, 3, '200020002'], [3, 3, '201020102'], [3, 3, '220022002'],
         [3, 3, '000222000'], [3, 3, '020020020'], [3, 3, '211000112'])
SEL = ([2, 3, 'd', '202120'], [3, 2, 'z', '021202'], [2, 3, 'z', '120212'], [3, 2, 'd', '220201'])
TINY = {'i': lambda d: [['i', 0], ['i', -1], ['i', 1], ['i', d]],
        's': lambda d: [['s', None, None, None], ['s', None, None, -1], ['s', 1, None, None], ['s', None, -1, None],
                        ['s', None, None, 2], ['s', 0, 0, None]],
        'l': lambda d: [['l', []], ['l', [-1]], ['l', [1, 0]], ['l', [0, 0]]],
        'm': lambda d: [['m', [0]], ['m', [-1, 0]]]}
VK_QUICK = ('num', 'num0', 'd11', 'dfit', 'sfit', 'dwrong')
VK_MID = ('num', 'dfit', 'sfit')


def chunks(L, k):
    return [L[i:i + k] for i in range(0, len(L), k)]


def cases(tier, seed, flavour):
    """Four domain sizes: plain thorough > plain quick > asan thorough ('half') > asan quick ('red').  On the sanitizer
    build every evaluation is 10-50 x more expensive (allocator quarantine, page faults), so the same enumeration
    is run over fewer pattern blocks / smaller index palettes (stated in BOUNDS); nothing is sampled."""
    san = flavour == 'asan'
    red = san and tier != 'thorough'
    half = san and tier == 'thorough'
    if san:
        tier = 'quick'
    th = tier == 'thorough'

    def keep(bi, q_red, q_half=1):
        """pattern blocks: every q_red-th on asan quick, every q_half-th on asan thorough, all otherwise"""
        return bi % (q_red if red else (q_half if half else 1)) == 0

    # ---- 0. fixed small / empty matrices: construction (safe first case for the determinism gate)
    yield {'p': 'ctor', 'descs': [[f[0], f[1], tc, f[2]] for f in FIXED for tc in 'dz']}
    # ---- 1. single-operation cases that kill the interpreter / read outside the matrix on the unchanged tree
    for (m, n) in ((0, 3), (0, 0), (3, 0)):
        for spec in (['l', []], ['m', []], ['s', None, None, None]):
            for vk in ('num', 'dfit', 'sfit'):
                for tc in ('dz' if (m, n, vk) == (0, 3, 'num') else 'd'):
                    yield {'p': 'risky', 'op': 'set', 'A': [m, n, tc, ''], 'specs': [spec], 'vk': vk,
                           'ck': 'setitem:%s:empty-dim' % KIND[spec[0]]}
    for rs in (['s', None, None, None], ['s', 0, 2, None], ['s', None, None, -1]):
        for cs in (['l', [-1]], ['l', [-2]], ['m', [-1]], ['l', [0, -1]]):
            yield {'p': 'risky', 'op': 'get', 'A': [2, 3, 'd', '202122'], 'specs': [rs, cs],
                   'ck': 'getitem:slice,%s:cneg' % KIND[cs[0]]}
    for spec, vk in ((['l', []], 'num'), (['l', []], 'dfit'), (['l', []], 'sfit'), (['m', []], 'num'), (['s', 0, 0, None], 'num')):
        yield {'p': 'risky', 'op': 'set', 'A': [2, 3, 'd', '202120'], 'specs': [spec], 'vk': vk,
               'ck': 'setitem:%s:empty-index' % KIND[spec[0]]}
    yield {'p': 'risky', 'op': 'gemm1', 'ck': 'gemm:d:sparse,sparse,sparse:transA=C:partial=True'}
    for combo in ((1, 1), (1, 0), (0, 1)):
        yield {'p': 'risky', 'op': 'syrkz', 'combo': list(combo), 'ck': 'syrk:z:sparse-operand'}
    yield {'p': 'risky', 'op': 'syrk-k0', 'ck': 'syrk:d:dense,sparse:k=0'}
    # ---- 2. fixed patterns (0x0, 0xn, mx0, 1x1, 1x3, 3x1, 3x3): every operation family
    for f in FIXED:
        for tc in 'dz':
            d = [f[0], f[1], tc, f[2]]
            yield {'p': 'unary', 'descs': [d]}
            yield {'p': 'binary', 'A': [d], 'tcb': 'dz', 'tier': 'quick' if san else 'thorough'}
            if san:
                yield {'skip_empty1': True, 'p': 'index', 'A': d, 'level': 'tiny', 'vks': list(VK_MID if red else VK_QUICK), 'get': True}
            else:
                for gi, grp in enumerate(chunks(list(VK_ALL), 4)):
                    yield {'skip_empty1': False, 'p': 'index', 'A': d, 'level': 'small', 'vks': grp, 'get': gi == 0}
            yield {'p': 'gemv', 'descs': [d]}
            if f[0] == f[1] and tc == 'd':
                yield {'p': 'symv', 'descs': [d]}
    # ---- 3. all patterns over {absent, explicit zero, nonzero}: construction, unary / attribute operations, binary
    P3 = all_patterns(6)
    P2 = all_patterns(6, '02')
    for (m, n) in SHAPES:
        for tc in 'dz':
            for bi, blk in enumerate(chunks(P3, 81)):
                ds = [[m, n, tc, p] for p in blk]
                if keep(bi, 4, 2):
                    yield {'p': 'ctor', 'descs': ds}
                if keep(bi, 8, 2):
                    yield {'p': 'unary', 'descs': ds}
            for bi, blk in enumerate(chunks(P3 if th else P3[::3], 27)):
                if keep(bi, 4, 2):
                    yield {'p': 'binary', 'A': [[m, n, tc, p] for p in blk], 'tcb': 'dz' if th else tc + ('z' if tc == 'd' else 'd'),
                           'tier': tier}
    # ---- 3b. elementwise functions mul / div / max / min with sparse arguments
    for (m, n) in SHAPES + ((1, 1), (0, 2)):
        for tc in 'dz':
            for bi, blk in enumerate(chunks(all_patterns(m * n)[::(1 if th else 5)], 27)):
                if keep(bi, 4, 2):
                    yield {'p': 'elementwise', 'A': [[m, n, tc, p] for p in blk], 'tcb': 'dz' if tc == 'd' else 'z'}
    if not san:
        for tc in 'dz':
            yield {'p': 'huge', 'tc': tc}
    # ---- 4. block matrices and spdiag
    for part in range(4):
        yield {'p': 'blocks', 'part': part, 'tier': tier}
    yield {'p': 'spdiag', 'tier': tier}
    # ---- 5. index sweeps: patterns x index palette, get and set
    for (m, n) in SHAPES:
        for tc in 'dz':
            for bi, blk in enumerate(chunks(P3 if th else P2, 8)):
                if not keep(bi, 8, 2):
                    continue
                for p in blk:
                    yield {'skip_empty1': san, 'p': 'index', 'A': [m, n, tc, p], 'level': 'tiny',
                           'vks': list(VK_MID if red else VK_QUICK), 'get': True}
            if th:
                for p in P2:
                    for gi, grp in enumerate(chunks(list(VK_ALL), 4)):
                        yield {'skip_empty1': san, 'p': 'index', 'A': [m, n, tc, p], 'level': 'small', 'vks': grp, 'get': gi == 0}
    # ---- 6. selected matrices x full index-expression domains
    sel = SEL[:1] if san else (SEL if th else SEL[:2])
    for d in sel:
        for k in 'islm':
            yield {'skip_empty1': san, 'p': 'index1', 'A': d, 'kind': k, 'level': 'mid' if red else 'full', 'vks': list(VK_ALL)}
        rl = 'small' if red else 'mid'
        for rk in 'islm':
            for ck in 'islm':
                yield {'skip_empty1': san, 'p': 'index2', 'A': d, 'rk': rk, 'ck': ck, 'rl': rl, 'cl': 'mid', 'vks': [], 'get': True}
                for vk in (VK_ALL if th else (('num', 'sfit') if red else VK_MID)):
                    yield {'skip_empty1': san, 'p': 'index2', 'A': d, 'rk': rk, 'ck': ck, 'rl': rl, 'cl': 'mid', 'vks': [vk], 'get': False}
        ll = 'mid' if red else 'full'
        for lk in 'lm':
            for ok in 'islm':
                for vks, get in ((([], True), (['num'], False)) if san else (([], True), (['num'], False), (['dfit'], False), (['sfit'], False))):
                    yield {'skip_empty1': san, 'p': 'index2', 'A': d, 'rk': lk, 'ck': ok, 'rl': ll, 'cl': 'small', 'vks': vks, 'get': get}
                    yield {'skip_empty1': san, 'p': 'index2', 'A': d, 'rk': ok, 'ck': lk, 'rl': 'small', 'cl': ll, 'vks': vks, 'get': get}
    if th:
        for d in SEL[:2]:
            for rk in 'sl':
                for ck in 'sl':
                    for part in range(8):
                        yield {'skip_empty1': san, 'p': 'index2', 'A': d, 'rk': rk, 'ck': ck, 'rl': 'full', 'cl': 'full', 'vks': [], 'get': True,
                               'part': [part, 8]}
                        yield {'skip_empty1': san, 'p': 'index2', 'A': d, 'rk': rk, 'ck': ck, 'rl': 'full', 'cl': 'full', 'vks': ['num'], 'get': False,
                               'part': [part, 8]}
    # ---- 7. base.axpy / gemv / symv / gemm / syrk
    for (m, n) in SHAPES:
        for tcx in 'dz':
            for tcy in 'dz':
                yield {'p': 'axpy', 'm': m, 'n': n, 'tcx': tcx, 'tcy': tcy, 'px': pal(m, n, 'thorough'),
                       'py': pal(m, n, 'thorough') if not th else None}
        for tc in 'dz':
            for bi, blk in enumerate(chunks(P3 if th else P2, 16)):
                if keep(bi, 4, 2):
                    yield {'p': 'gemv', 'descs': [[m, n, tc, p] for p in blk]}
    yield {'p': 'symv', 'descs': [[2, 2, 'd', p] for p in all_patterns(4)]}
    npat = 5 if th else (2 if san else 3)
    for (m, n, k) in ((2, 3, 2), (3, 2, 3), (1, 2, 3), (2, 1, 1), (2, 2, 0), (0, 2, 2), (2, 0, 2)) + (((3, 3, 1), (1, 1, 2)) if th else ()):
        for tc in 'dz':
            for combo in itertools.product((1, 0), repeat=3):
                if combo == (0, 0, 0):
                    continue
                for tA in 'NTC':
                    for tB in 'NTC':
                        g = {'p': 'gemm', 'm': m, 'n': n, 'k': k, 'tc': tc, 'combo': list(combo), 'tA': tA, 'tB': tB, 'npat': npat}
                        if tc == 'd' and combo == (1, 1, 1) and tA == 'C' and k != m:
                            # partial=True reads outside the accumulator on the unchanged tree (undefined behaviour,
                            # can kill the interpreter): only the single-operation case above exercises it
                            g['partials'] = [False]
                        yield g
    for (n, k) in ((2, 3), (3, 2), (1, 2), (3, 1), (2, 0), (0, 2)):
        for combo in ((1, 1), (1, 0), (0, 1)):
            if k == 0 and combo == (0, 1):
                continue                      # single-operation case above (uninitialised result on the unchanged tree)
            for uplo in 'LU':
                for t in 'NTC':
                    yield {'p': 'syrk', 'n': n, 'k': k, 'tc': 'd', 'combo': list(combo), 'uplo': uplo, 't': t, 'npat': npat + 1}
    # ---- 8. hist: BFS over mutation histories, one sub-search per first operation
    nops, depth = (20, 4) if th else (14, 3)
    if red:
        nops = 10
    for init in range(len(HIST_INIT)):
        for tc in 'dz':
            yield {'p': 'hist', 'init': init, 'tc': tc, 'first': None, 'nops': nops, 'depth': depth}
            for first in range(nops):
                yield {'p': 'hist', 'init': init, 'tc': tc, 'first': first, 'nops': nops, 'depth': depth}


def crash_key(case):
    if case.get('ck'):
        return case['ck']
    p = case.get('p')
    if p in ('index', 'index1', 'index2'):
        A = case['A']
        return '%s:%dx%d:%s:%s' % (p, A[0], A[1], A[2], case.get('kind') or (case.get('rk', '') + case.get('ck', '')) or case.get('level'))
    if p == 'gemm':
        return 'gemm:%s:%s:transA=%s,transB=%s' % (case['tc'], ','.join('sparse' if s else 'dense' for s in case['combo']), case['tA'], case['tB'])
    if p == 'syrk':
        return 'syrk:%s:%s' % (case['tc'], ','.join('sparse' if s else 'dense' for s in case['combo']))
    if p == 'hist':
        return 'hist:%s' % (hist_name(HIST_OPS[case['first']]) if case['first'] is not None else 'initial')
    return str(p)


# ====================================================================================== execution
def run(case):
    import os
    seed = int(os.environ.get('VERIF_SEED', '0') or 0)
    c = Ctx()
    extra = {}
    try:
        _run(c, case, seed, extra)
    except Exception as e:
        import traceback
        c.fail('C16:harness:%s:%s' % (case.get('p'), type(e).__name__), traceback.format_exc()[-1500:], None)
    return c.result(**extra)


def _index_eval(c, d, seed, pairs1, pairs2, vks, get, skip_empty1=False):
    Am, pat = model_of(d, seed)
    A = sp_of(Am, pat)
    sA = snap(A)
    Ad = dn_of(Am)
    nc = d[1]
    for specs in itertools.chain(pairs1, pairs2):
        if len(specs) == 2 and risky_get(specs[0], specs[1], nc):
            rg = True
        else:
            rg = False
        if get and not rg:
            ev_get(c, A, sA, Am, Ad, specs)
        if len(specs) == 1 and specs[0][0] != 'i' and d[0] == 0:
            continue            # kills the interpreter on the unchanged tree: single-operation cases only
        if skip_empty1 and len(specs) == 1 and 'empty' in R.flags1(specs[0], d[0] * d[1]):
            continue            # asan flavour: every such assignment is an (expensive) sanitizer report on the
                                # unchanged tree; exercised there by single-operation cases only
        for vk in vks:
            ev_set(c, A, Am, pat, specs, vk, seed)
    if snap(A) != sA:
        c.fail('C16:setitem:source-modified', 'assignment to a copy changed the original', {'A': d})


def _run(c, case, seed, extra):
    p = case['p']
    if p == 'ctor':
        for d in case['descs']:
            ev_ctor(c, d, seed)
    elif p == 'unary':
        for d in case['descs']:
            ev_unary(c, d, seed)
    elif p == 'binary':
        for d in case['A']:
            for tcb in case['tcb']:
                for pb in b_palette(d[0], d[1], case['tier']) if d[0] * d[1] else ['']:
                    ev_binary(c, d, [d[0], d[1], tcb, pb], seed)
    elif p == 'elementwise':
        for d in case['A']:
            for tcb in case['tcb']:
                for pb in b_palette(d[0], d[1], 'thorough') if d[0] * d[1] else ['']:
                    ev_elementwise(c, d, [d[0], d[1], tcb, pb], seed)
    elif p == 'huge':
        # spmatrix from triplets with more than 2^31 rows (entries on both sides of 2^31 and 2^32, given in every order):
        # column-wise ascending row indices, values in place, copies equal - the enumeration of checks/C20.py, keyed here
        from checks import C20

        class _Adapt(object):
            def ev(self, nt=False):
                c.n += 1
                if nt:
                    c.nontrivial += 1

            def bad(self, key, msg, sub=None):
                c.fail(key.replace('C20:', 'C16:huge-dimension:'), msg, sub)

            def asan(self, *a):
                pass
        C20._run_sparse_huge({'tc': case['tc']}, _Adapt())
    elif p == 'blocks':
        ev_blocks(c, seed, case['tier'], case['part'])
    elif p == 'spdiag':
        ev_spdiag(c, seed, case['tier'])
    elif p == 'index':
        d = case['A']
        m, n = d[0], d[1]
        lv = case['level']
        if lv == 'tiny':
            dom = lambda k, dim, one=False: TINY[k](dim)
        else:
            dom = lambda k, dim, one=False: dom_kind(k, dim, lv, one)
        p1 = [(s,) for k in 'islm' for s in dom(k, m * n, True)]
        p2 = [(s1, s2) for k1 in 'islm' for k2 in 'islm' for s1 in dom(k1, m) for s2 in dom(k2, n)]
        _index_eval(c, d, seed, p1, p2, case['vks'], case['get'], case.get('skip_empty1', False))
    elif p == 'index1':
        d = case['A']
        p1 = [(s,) for s in dom_kind(case['kind'], d[0] * d[1], case['level'], True)]
        _index_eval(c, d, seed, p1, [], case['vks'], True, case.get('skip_empty1', False))
    elif p == 'index2':
        d = case['A']
        R1 = dom_kind(case['rk'], d[0], case['rl'])
        C1 = dom_kind(case['ck'], d[1], case['cl'])
        p2 = ((s1, s2) for s1 in R1 for s2 in C1)
        if case.get('part'):
            k, nk = case['part']
            p2 = ((s1, s2) for i, s1 in enumerate(R1) if i % nk == k for s2 in C1)
        _index_eval(c, d, seed, [], p2, case['vks'], case['get'], case.get('skip_empty1', False))
    elif p == 'axpy':
        m, n = case['m'], case['n']
        pys = case['py'] if case['py'] is not None else all_patterns(m * n)
        for px in case['px']:
            for py in pys:
                ev_axpy(c, [m, n, case['tcx'], px], [m, n, case['tcy'], py], seed)
    elif p == 'gemv':
        for d in case['descs']:
            ev_gemv(c, d, seed, 'thorough')
    elif p == 'symv':
        for d in case['descs']:
            ev_symv(c, d, seed, 'thorough')
    elif p == 'gemm':
        ev_gemm(c, case['m'], case['n'], case['k'], case['tc'], tuple(case['combo']), case['tA'], case['tB'], seed,
                'thorough', case['npat'], partials=case.get('partials'))
    elif p == 'syrk':
        ev_syrk(c, case['n'], case['k'], case['tc'], tuple(case['combo']), case['uplo'], case['t'], seed, 'thorough', case['npat'])
    elif p == 'hist':
        st, tr = run_hist(c, case, seed)
        extra.update(states=st, transitions=tr, traces=tr)
    elif p == 'risky':
        _run_risky(c, case, seed)
    else:
        raise AssertionError('unknown part %r' % p)


def _run_risky(c, case, seed):
    op = case['op']
    if op == 'set':
        d = case['A']
        Am, pat = model_of(d, seed)
        ev_set(c, sp_of(Am, pat), Am, pat, tuple(case['specs']), case['vk'], seed)
    elif op == 'get':
        d = case['A']
        Am, pat = model_of(d, seed)
        A = sp_of(Am, pat)
        ev_get(c, A, snap(A), Am, dn_of(Am), tuple(case['specs']))
    elif op == 'gemm1':
        ev_gemm(c, 1, 2, 3, 'd', (1, 1, 1), 'C', 'N', seed, 'quick', 2, ab=(1, 0), partials=[True])
    elif op == 'syrkz':
        ev_syrk(c, 2, 3, 'z', tuple(case['combo']), 'L', 'N', seed, 'quick', 2)
    elif op == 'syrk-k0':
        # BLAS' xerbla prints "On entry to DSYRK parameter number 7 had an illegal value" on the unchanged tree:
        # keep the runner's output clean
        import sys
        sys.stdout.flush(); sys.stderr.flush()
        saved = os.dup(1), os.dup(2)
        null = os.open(os.devnull, os.O_WRONLY)
        os.dup2(null, 1); os.dup2(null, 2)
        try:
            ev_syrk(c, 2, 0, 'd', (0, 1), 'L', 'T', seed, 'quick', 2)
            ev_syrk(c, 2, 0, 'd', (0, 1), 'U', 'N', seed, 'quick', 2)
        finally:
            os.dup2(saved[0], 1); os.dup2(saved[1], 2)
            os.close(null); os.close(saved[0]); os.close(saved[1])
    else:
        raise AssertionError(op)
