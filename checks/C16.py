"""C16 - sparse matrices are a faithful, structurally valid image of the dense semantics.

Two parts, both emitted by `cases`:
  bex   bounded-exhaustive sweeps over sparsity patterns x operations (construction, indexing, indexed
        assignment, arithmetic, attributes, base.axpy/gemv/gemm/syrk/symv)
  hist  explicit-state breadth-first search over histories of mutating operations on ONE spmatrix object

Oracle: mc/ref/sparse.py (plain Python lists) for every result; the same operation is also applied to the dense
copies with cvxopt's own dense `matrix` code (property statement) and compared with the Python model.
Structural invariant of every produced / mutated spmatrix is read from A.CCS.
"""
import itertools
from mc.ref import sparse as R

PROPERTY = 'C16'
LEVEL = 'model_checking'
ENGINE = 'hist'
FLAVOURS = ('plain', 'asan')
TECHNIQUE = ('bounded exhaustive enumeration of sparsity patterns x operations against a list-based reference '
             'model and the dense implementation; explicit-state BFS over mutation histories with canonical '
             'state hashing of (CCS arrays, size, typecode, model)')
RULE = ('bex: every pattern over {absent, explicit 0, nonzero} of 2x3 / 3x2 matrices (typecodes d, z) x every '
        'operation of a fixed operation list (constructors incl. duplicates / unsorted triplets / sparse() / '
        'spdiag(), unary and binary arithmetic with result type, V and size assignment); every {absent, nonzero} '
        'pattern x a reduced index palette and selected matrices x the full index-expression domain (integers, '
        'slices, lists, integer matrices incl. negative and duplicate entries, all row-kind x column-kind '
        'pairs) for get and set with number / 1x1 / dense / sparse / sequence values of right and wrong size and '
        'type; base.axpy, gemv, symv, gemm, syrk on every sparse/dense operand combination x trans flags x '
        'alpha, beta in {0,1,-2} x partial; fixed 3x3, 0xn, mx0, 0x0 patterns; operations that can kill the '
        'interpreter (empty dimensions, empty index sets, out-of-pattern reads) are single-operation cases.  '
        'hist: BFS from 3 initial matrices x 2 typecodes, one sub-search per first operation, over a fixed list '
        'of mutating operations; a state is (CCS arrays, size, typecode) of the object + the dense model; on '
        'every state: CCS invariant, dense image == model, object == matrix constructed from scratch from the '
        'model (states are counted per sub-search).  non-trivial = the operand has at least one stored entry '
        'and the operation succeeded')
ASSUME = ['the sparsity pattern of a result is only checked where matrices.rst defines it (spmatrix(), sparse(), '
          'V assignment, indexed assignment examples, partial=True); elsewhere only the dense image and the CCS '
          'invariant are checked',
          'after syrk only the `uplo` triangle of C is compared (the other triangle is not referenced by BLAS and '
          'undocumented for sparse C)',
          'when the documented semantics reject an operation (index out of range, wrong size, type change) any '
          'Python exception is accepted; the object must be unchanged and valid afterwards',
          'floating point agreement within 1e-10 relative (all inputs are small dyadic rationals)',
          'sizes of gemm/syrk output operands always match the product (mismatching C is not documented)',
          'the ASan flavour observes only accesses made by cvxopt\'s own C code']
BOUNDS = {'quick': 'shapes 2x3, 3x2 (+ fixed 3x3, 1xn, empty); 3^6 patterns for construction/arithmetic, 2^6 '
                   'patterns x small index palette, 2 matrices x (full one-argument domain, mid x mid two-argument '
                   'pairs, full lists x small partner); slices de-duplicated by slice.indices(dim); BLAS-like: '
                   'pattern palettes of 4-6 per operand; hist depth 3 over 14 operations; asan: half of the '
                   'pattern blocks and 1 matrix for the index domains',
          'thorough': 'as quick plus 3^6 patterns x small index palette, 4 matrices x (full x full slices/lists '
                      'two-argument pairs for get and scalar set), raw slices start/stop/step over {None,-3..3}, '
                      'larger BLAS-like palettes, hist depth 4 over 20 operations'}

TOL = 1e-10
DENSE_SIDE = True
PALS = ((1, 2, 3, 4, 5, 6, 7, 8, 9),
        (-1.5, 2, 0.5, 3, -0.25, 4, -2.5, 1.5, -3),
        (2, -1, 4, -3, 0.5, -0.75, 5, 1.25, -6),
        (0.5, 0.25, -4, 8, -1, 3, -0.125, 2, 6))
SHAPES = ((2, 3), (3, 2))


# ====================================================================================== small utilities
def pval(seed, p, tc, salt=0):
    P = PALS[seed % 4]
    v = float(P[(p + salt) % 9])
    if tc == 'z':
        w = float(P[(p + salt + 4) % 9])
        return complex(v, w) if (p + salt) % 3 else complex(0.0, w)
    return v


def cnum(x):
    """JSON number -> Python number ([re, im] encodes a complex)."""
    return complex(x[0], x[1]) if isinstance(x, list) else x


def same(g, w):
    try:
        return abs(g - w) <= TOL * max(1.0, abs(w))
    except Exception:
        return False


def model_of(desc, seed, salt=0):
    """desc = [m, n, tc, pattern string] -> (R.D, pattern set)."""
    m, n, tc, pat = desc
    a = [R.zero(tc)] * (m * n)
    for p, ch in enumerate(pat):
        if ch == '2':
            a[p] = pval(seed, p, tc, salt)
    return R.D(m, n, tc, a), set(p for p, ch in enumerate(pat) if ch != '0')


def sp_of(Dm, pat):
    from cvxopt import spmatrix
    ps = sorted(pat)
    m = Dm.nr
    return spmatrix([Dm.a[p] for p in ps], [p % m for p in ps], [p // m for p in ps], (Dm.nr, Dm.nc), Dm.tc)


def dn_of(Dm, tc=None):
    from cvxopt import matrix
    tc = tc or Dm.tc
    return matrix(list(Dm.a), (Dm.nr, Dm.nc), tc)


def idx_obj(spec):
    from cvxopt import matrix
    k = spec[0]
    if k == 'i':
        return spec[1]
    if k == 's':
        return slice(spec[1], spec[2], spec[3])
    if k == 'l':
        return list(spec[1])
    return matrix(list(spec[1]), (len(spec[1]), 1), 'i')


KIND = {'i': 'int', 's': 'slice', 'l': 'list', 'm': 'imat'}


class Ctx(object):
    def __init__(self):
        self.viol = []
        self.n = 0
        self.nontrivial = 0
        self.out = {}
        self.maxerr = 0.0
        self._cnt = {}

    def fail(self, key, msg, sub=None):
        c = self._cnt.get(key, 0)
        self._cnt[key] = c + 1
        if c < 2:
            self.viol.append({'key': key, 'msg': msg[:700], 'sub': sub})
        return False

    def count(self, label, k=1):
        self.out[label] = self.out.get(label, 0) + k

    def result(self, **extra):
        r = {'n': self.n, 'nontrivial': self.nontrivial, 'viol': self.viol, 'outcomes': self.out,
             'maxerr': {'value': self.maxerr}}
        r.update(extra)
        return r


def snap(A):
    """complete observable state of an spmatrix (no validation)."""
    cp, ri, v = A.CCS
    return (A.size, A.typecode, tuple(cp), tuple(ri), tuple(v))


def vsp(c, K, A, exp, pat=None, sub=None, only=None):
    """validate a produced / mutated spmatrix: type, size, typecode, CCS invariant, dense image, pattern."""
    from cvxopt import matrix, spmatrix
    if not isinstance(A, spmatrix):
        return c.fail(K + ':result-type', 'expected spmatrix, got %s' % type(A).__name__, sub)
    size, tc = A.size, A.typecode
    if size != (exp.nr, exp.nc):
        return c.fail(K + ':shape', 'size %r, expected %r' % (size, (exp.nr, exp.nc)), sub)
    if tc != exp.tc:
        return c.fail(K + ':typecode', 'typecode %r, expected %r' % (tc, exp.tc), sub)
    cp, ri, v = A.CCS
    lcp, lri, lv = list(cp), list(ri), list(v)
    if cp.typecode != 'i' or ri.typecode != 'i' or v.typecode != tc:
        return c.fail(K + ':ccs:typecodes', 'CCS typecodes %s%s%s for a %r matrix' % (cp.typecode, ri.typecode, v.typecode, tc), sub)
    e = R.ccs_error(lcp, lri, len(lv), size[0], size[1])
    if e:
        return c.fail(K + ':ccs:' + e, 'invalid CCS: colptr=%r rowind=%r nvalues=%d size=%r' % (lcp, lri, len(lv), size), sub)
    img, p = R.ccs_image(lcp, lri, lv, size[0], size[1], tc)
    for q in range(len(img)):
        if only is not None and q not in only:
            continue
        if not same(img[q], exp.a[q]):
            return c.fail(K + ':value', 'entry (%d,%d) is %r, expected %r; image %r expected %r'
                          % (q % max(size[0], 1), q // max(size[0], 1), img[q], exp.a[q], img, exp.a), sub)
    if pat is not None and p != pat:
        return c.fail(K + ':pattern', 'stored positions %r, documented %r' % (sorted(p), sorted(pat)), sub)
    Dn = matrix(A)
    if Dn.size != size or Dn.typecode != tc or list(Dn) != img:
        return c.fail(K + ':dense-conversion', 'matrix(A) = %r %r, CCS image %r' % (Dn.size, list(Dn), img), sub)
    return True


def vdn(c, K, M, exp, sub=None, only=None):
    from cvxopt import matrix
    if not isinstance(M, matrix):
        return c.fail(K + ':result-type', 'expected dense matrix, got %s' % type(M).__name__, sub)
    if M.size != (exp.nr, exp.nc):
        return c.fail(K + ':shape', 'size %r, expected %r' % (M.size, (exp.nr, exp.nc)), sub)
    if M.typecode != exp.tc:
        return c.fail(K + ':typecode', 'typecode %r, expected %r' % (M.typecode, exp.tc), sub)
    L = list(M)
    for q in range(len(L)):
        if only is not None and q not in only:
            continue
        if not same(L[q], exp.a[q]):
            return c.fail(K + ':value', 'entry %d is %r, expected %r; got %r expected %r' % (q, L[q], exp.a[q], L, exp.a), sub)
    return True


def vnum(c, K, x, exp, tc, sub=None):
    want = complex if tc == 'z' else float
    if type(x) is not want:
        return c.fail(K + ':result-type', 'expected %s, got %r' % (want.__name__, x), sub)
    if not same(x, exp):
        return c.fail(K + ':value', 'got %r, expected %r' % (x, exp), sub)
    return True


def vres(c, K, x, exp, tc, sparse_expected, sub=None, pat=None):
    """result of an expression: number / D (sparse or dense as documented)."""
    if isinstance(exp, R.D):
        if sparse_expected:
            return vsp(c, K, x, exp, pat, sub)
        return vdn(c, K, x, exp, sub)
    return vnum(c, K, x, exp, tc, sub)


def dense_agrees(c, label, x, exp):
    """same operation on the dense copies (cvxopt's dense code) against the Python model; counted, and
    reported by the caller only together with the sparse result."""
    from cvxopt import matrix
    if isinstance(exp, R.D):
        ok = isinstance(x, matrix) and x.size == (exp.nr, exp.nc) and all(same(g, w) for g, w in zip(list(x), exp.a))
    else:
        ok = not isinstance(x, matrix) and same(x, exp)
    if not ok:
        c.count('dense-side-differs-from-model:' + label)
    return ok


# ====================================================================================== index domains
SVALS = (None, -3, -2, -1, 0, 1, 2, 3)


def dom_int(dim, one=False):
    return [['i', k] for k in (range(-dim - 1, dim + 1) if one else range(-4, 5))]


def dom_slice(dim, level):
    if level == 'small':
        return [['s', None, None, None], ['s', None, None, -1], ['s', 1, None, None], ['s', None, -1, None],
                ['s', None, None, 2], ['s', -1, None, -2], ['s', 0, 0, None], ['s', 1, 2, None],
                ['s', 2, 0, -1], ['s', 0, 2, None]]
    out, seen = [], set()
    for a in SVALS:
        for b in SVALS:
            for s in SVALS:
                if level == 'mid':
                    # declared symmetry: the C code only sees PySlice_GetIndicesEx(dim) = slice.indices(dim)
                    k = slice(a, b, s).indices(dim) if s != 0 else 'step0'
                    if k in seen:
                        continue
                    seen.add(k)
                out.append(['s', a, b, s])
    return out


def dom_list(kind, dim, level, one=False):
    if level == 'small':
        if one:
            L = [[], [0], [-1], [dim - 2, 1], [2, 2], [-2, 0, -dim], [dim], [-dim - 1]]
        else:
            L = [[], [0], [-1], [1, 0], [0, 0], [-1, 0, -1], [dim], [-dim - 1]]
        return [[kind, l] for l in L]
    maxlen = 3 if level == 'full' else 2
    out = []
    for n in range(maxlen + 1):
        for l in itertools.product(range(-3, 4), repeat=n):
            out.append([kind, list(l)])
    return out


def dom_kind(kind, dim, level, one=False):
    if kind == 'i':
        return dom_int(dim, one)
    if kind == 's':
        return dom_slice(dim, level)
    return dom_list(kind, dim, level, one)


def risky_get(si, sj, nc):
    """slice rows x list/imat columns with an in-range negative entry: reads colptr[j] with j < 0 on the
    unchanged tree (undefined behaviour) -> only executed in single-operation cases."""
    return si[0] == 's' and sj[0] in 'lm' and any(-nc <= j < 0 for j in sj[1])


# ====================================================================================== get / set evaluation
def key_idx(op, specs, dims):
    kinds = ','.join(KIND[s[0]] for s in specs)
    if len(specs) == 1:
        fl = R.flags1(specs[0], dims[0] * dims[1])
    else:
        fl = R.flags2(specs[0], specs[1], dims[0], dims[1])
    if dims[0] * dims[1] == 0:
        fl = ['empty-dim'] + fl
    return 'C16:%s:%s:%s' % (op, kinds, '+'.join(fl) or 'plain')


def ev_get(c, A, snapA, Am, Ad, specs):
    c.n += 1
    K = key_idx('getitem', specs, (Am.nr, Am.nc))
    sub = {'A': [Am.nr, Am.nc, Am.tc, Am.a], 'index': specs}
    try:
        exp = R.get1(Am, specs[0]) if len(specs) == 1 else R.get2(Am, specs[0], specs[1])
        err = None
    except R.RefError as e:
        exp, err = None, e.kind
    idx = idx_obj(specs[0]) if len(specs) == 1 else (idx_obj(specs[0]), idx_obj(specs[1]))
    try:
        x = A[idx]
        exc = None
    except Exception as e:
        x, exc = None, e
    if err is not None:
        if exc is None:
            c.fail(K + ':no-exception', 'documented semantics reject the index (%s) but a result was returned' % err, sub)
        c.count('get:rejected')
    elif exc is not None:
        c.fail(K + ':exception:' + type(exc).__name__, 'valid index raised %r' % exc, sub)
    else:
        if vres(c, K, x, exp, Am.tc, True, sub):
            c.count('get:ok')
            if snapA[2][-1]:
                c.nontrivial += 1
    if snap(A) != snapA:
        c.fail(K + ':operand-modified', 'indexing changed the matrix', sub)
    if DENSE_SIDE:
        try:
            xd = Ad[idx]
            if err is None:
                dense_agrees(c, 'getitem', xd, exp)
            else:
                c.count('dense-side-differs-from-model:getitem-accepts-invalid')
        except Exception:
            if err is None:
                c.count('dense-side-differs-from-model:getitem-raises')


VK_ALL = ('num', 'num0', 'numi', 'numz', 'd11', 'dfit', 'dfiti', 'dfitz', 'sfit', 'sfitz', 'sfull', 'lfit',
          'dwrong', 'swrong', 'dtr')
VK_SCALARIDX_SKIP = ('sfit', 'sfitz', 'sfull', 'swrong', 'lfit', 'dtr')


def make_value(vk, nr, nc, seed):
    """-> (cvxopt value object, model value, dense-side value object, model pattern of a sparse value or None)"""
    from cvxopt import matrix
    if vk == 'num':
        return 7.5, ('n', 7.5), 7.5, None
    if vk == 'num0':
        return 0.0, ('n', 0.0), 0.0, None
    if vk == 'numi':
        return 3, ('n', 3), 3, None
    if vk == 'numz':
        return complex(2, -1), ('n', complex(2, -1)), complex(2, -1), None
    if vk == 'd11':
        return matrix([4.25]), ('d', R.D(1, 1, 'd', [4.25])), matrix([4.25]), None
    if vk in ('dfit', 'dfiti', 'dfitz', 'dwrong', 'dtr', 'lfit'):
        tc = {'dfiti': 'i', 'dfitz': 'z'}.get(vk, 'd')
        if vk == 'dwrong':
            nr = nr + 1
        if vk == 'dtr':
            nr, nc = nc, nr
        if tc == 'i':
            a = [(k + 2) * (-1) ** k for k in range(nr * nc)]
        else:
            a = [pval(seed, k, tc, 5) for k in range(nr * nc)]
        if len(a) > 1:
            a[1] = R.zero(tc)
        if vk == 'lfit':
            return list(a), ('l', list(a)), list(a), None
        Dv = R.D(nr, nc, tc, a)
        return dn_of(Dv), ('d', Dv), dn_of(Dv), None
    tc = 'z' if vk == 'sfitz' else 'd'
    if vk == 'swrong':
        nc = nc + 1
    st = '2' * (nr * nc) if vk == 'sfull' else ''.join('201'[k % 3] for k in range(nr * nc))
    Dv, vp = model_of([nr, nc, tc, st], seed, 5)
    S = sp_of(Dv, vp)
    return S, ('s', Dv), dn_of(Dv), vp


def ev_set(c, A0, Am, pat, specs, vk, seed):
    """A0 is never mutated: the assignment is applied to a copy."""
    one = len(specs) == 1
    # shape of the left-hand side according to the model (1x1 if the index itself is invalid)
    try:
        if one:
            sc, I = R.expand(specs[0], Am.nr * Am.nc)
            lhs = (len(I), 1)
            pos = list(I)
        else:
            sci, I = R.expand(specs[0], Am.nr)
            scj, J = R.expand(specs[1], Am.nc)
            sc = sci and scj
            lhs = (len(I), len(J))
            pos = [j * Am.nr + i for j in J for i in I]
    except R.RefError:
        sc, lhs, pos = False, (1, 1), None
    if sc and vk in VK_SCALARIDX_SKIP:
        return
    if vk == 'dtr' and lhs[0] == lhs[1]:
        return
    c.n += 1
    K = key_idx('setitem', specs, (Am.nr, Am.nc)) + ':' + vk
    sub = {'A': [Am.nr, Am.nc, Am.tc, Am.a], 'pattern': sorted(pat), 'index': specs, 'value': vk}
    val, mval, dval, vpat = make_value(vk, lhs[0], lhs[1], seed)
    vsnap = snap(val) if vpat is not None else (list(val) if hasattr(val, 'size') else None)
    M2 = Am.copy()
    try:
        if one:
            R.set1(M2, specs[0], mval)
        else:
            R.set2(M2, specs[0], specs[1], mval)
        err = None
    except R.RefError as e:
        M2, err = Am, e.kind
    A = +A0
    idx = idx_obj(specs[0]) if one else (idx_obj(specs[0]), idx_obj(specs[1]))
    try:
        A[idx] = val
        exc = None
    except Exception as e:
        exc = e
    pat2 = pat
    if err is None and exc is None:
        pat2 = set(pat)
        for k, p in enumerate(pos):
            if vpat is None or k in vpat:
                pat2.add(p)
            else:
                pat2.discard(p)
    if err is not None and exc is None:
        c.fail(K + ':no-exception', 'documented semantics reject the assignment (%s) but it was accepted' % err, sub)
    elif err is None and exc is not None:
        c.fail(K + ':exception:' + type(exc).__name__, 'valid assignment raised %r' % exc, sub)
    if vsp(c, K, A, M2, pat2, sub):
        c.count('set:ok' if err is None else 'set:rejected')
        if err is None and pos:
            c.nontrivial += 1
    if vsnap is not None:
        now = snap(val) if vpat is not None else list(val)
        if now != vsnap:
            c.fail(K + ':value-operand-modified', 'the assigned matrix was modified', sub)
    if DENSE_SIDE:
        Ad = dn_of(Am)
        try:
            Ad[idx] = dval
            ok = err is None and all(same(g, w) for g, w in zip(list(Ad), M2.a))
            if not ok:
                c.count('dense-side-differs-from-model:setitem' + ('' if err is None else '-accepts-invalid:' + vk))
        except Exception:
            if err is None:
                c.count('dense-side-differs-from-model:setitem-raises:' + vk)


# ====================================================================================== construction
def all_patterns(ncell, alphabet='012'):
    return [''.join(p) for p in itertools.product(alphabet, repeat=ncell)]


def attrs_ok(c, K, A, sub):
    """I, J, V, len() describe the triplets in column-major order (matrices.rst, Attributes)."""
    cp, ri, v = A.CCS
    I, J, V = list(A.I), list(A.J), list(A.V)
    lcp = list(cp)
    Jx = [j for j in range(A.size[1]) for _ in range(lcp[j], lcp[j + 1])]
    if I != list(ri) or J != Jx or V != list(v) or len(A) != len(V) or A.V.typecode != A.typecode \
            or A.I.typecode != 'i' or A.J.typecode != 'i' or A.V.size != (len(V), 1):
        return c.fail(K + ':IJV-attributes', 'I=%r J=%r V=%r len=%d vs CCS %r %r %r' % (I, J, V, len(A), lcp, list(ri), list(v)), sub)
    return True


def ev_ctor(c, desc, seed):
    from cvxopt import matrix, spmatrix, sparse
    m, n, tc, pat = desc
    Am, ps = model_of(desc, seed)
    sub = {'A': desc}
    cells = sorted(ps)
    I = [p % m for p in cells]
    J = [p // m for p in cells]
    V = [Am.a[p] for p in cells]
    nz = set(p for p in cells if Am.a[p] != 0)

    def attempt(name, f, exp, epat):
        c.n += 1
        K = 'C16:spmatrix-new:' + name
        try:
            A = f()
        except Exception as e:
            c.fail(K + ':exception:' + type(e).__name__, 'valid construction raised %r' % e, sub)
            return None
        if vsp(c, K, A, exp, epat, sub) and attrs_ok(c, K, A, sub):
            c.count('ctor:ok')
            if cells:
                c.nontrivial += 1
            return A
        return None

    # 1 canonical order, lists, explicit size and typecode
    A = attempt('sorted', lambda: spmatrix(V, I, J, (m, n), tc), Am, ps)
    # 2 reversed order, integer-matrix index sets, dense-matrix values
    if cells:
        attempt('reversed-matrix-args', lambda: spmatrix(matrix(V[::-1], (len(V), 1), tc), matrix(I[::-1], (len(I), 1), 'i'),
                                                         matrix(J[::-1], (len(J), 1), 'i'), (m, n), tc), Am, ps)
    # 3 rotated order with duplicates: nonzero v = (v+2) + (-2) ; explicit zero = 1.5 + (-1.5) ; tuple arguments
    I3, J3, V3 = [], [], []
    for k in range(len(cells)):
        q = (k + 2) % len(cells)
        I3.append(I[q]); J3.append(J[q]); V3.append(V[q] + 2 if V[q] != 0 else 1.5)
    for k in range(len(cells)):
        I3.append(I[k]); J3.append(J[k]); V3.append(-2.0 if V[k] != 0 else -1.5)
    if cells:
        attempt('duplicates-unsorted', lambda: spmatrix(tuple(V3), tuple(I3), tuple(J3), (m, n), tc), Am, ps)
        # duplicates three times in the same cell, adjacent
        attempt('duplicates-triple', lambda: spmatrix([V[0] - 1, 0.25, 0.75] + V[1:], [I[0]] * 3 + I[1:], [J[0]] * 3 + J[1:],
                                                      (m, n), tc), Am, ps)
    # 4 default size and typecode
    if cells:
        dm, dnn = max(I) + 1, max(J) + 1
        Bm = R.D(dm, dnn, tc, [Am.a[j * m + i] for j in range(dnn) for i in range(dm)])
        bps = set((p // m) * dm + p % m for p in cells)
        attempt('default-size-tc', lambda: spmatrix(V, I, J), Bm, bps)
    # 5 number as value
    x = complex(2.5, -1) if tc == 'z' else 2.5
    Cm = R.D(m, n, tc, [x if p in ps else R.zero(tc) for p in range(m * n)])
    attempt('number-value', lambda: spmatrix(x, I, J, (m, n)), Cm, ps)
    if tc == 'z':
        Cm2 = R.D(m, n, 'z', [complex(3) if p in ps else 0j for p in range(m * n)])
        attempt('int-value-tc-z', lambda: spmatrix(3, I, J, (m, n), 'z'), Cm2, ps)
    if A is None:
        return
    # sparse(): numerical zeros are removed
    for name, f, etc in (('sparse(spmatrix)', lambda: sparse(A), tc), ('sparse(matrix)', lambda: sparse(matrix(A)), tc),
                         ('sparse(spmatrix,tc=z)', lambda: sparse(A, tc='z'), 'z'),
                         ('sparse(matrix,tc=z)', lambda: sparse(matrix(A), tc='z'), 'z')):
        c.n += 1
        K = 'C16:' + name
        try:
            S = f()
        except Exception as e:
            c.fail(K + ':exception:' + type(e).__name__, 'raised %r' % e, sub)
            continue
        if vsp(c, K, S, R.as_tc(Am, etc), nz, sub):
            c.count('sparse():ok')
    if tc == 'z':
        c.n += 1
        try:
            S = sparse(A, tc='d')
            if S.typecode != 'd':
                c.fail('C16:sparse(spmatrix,tc=d):typecode', 'tc argument ignored: result has typecode %r' % S.typecode, sub)
        except Exception:
            c.count('sparse():rejected')
    # round trip through the triplet attributes
    attempt('from-V-I-J', lambda: spmatrix(A.V, A.I, A.J, A.size, tc), Am, ps)
    if snap(A) != snap(sp_of(Am, ps)):
        c.fail('C16:spmatrix-new:operand-modified', 'constructor arguments / source matrix changed', sub)


# ====================================================================================== arithmetic, attributes
def b_palette(m, n, tier):
    k = m * n
    pats = ['0' * k, '2' * k, ''.join('201'[i % 3] for i in range(k)), ''.join('120'[i % 3] for i in range(k)),
            ''.join('2' if i < m else '0' for i in range(k)), ''.join('2' if i % m == m - 1 else '0' for i in range(k))]
    return pats if tier == 'thorough' else pats[:4]


def _expr(c, K, sub, f, model, tc, sparse_expected, A=None, sA=None):
    """evaluate f() on the implementation and model() on the reference; compare."""
    c.n += 1
    try:
        exp = model()
        err = None
    except R.RefError as e:
        exp, err = None, e.kind
    try:
        x = f()
        exc = None
    except Exception as e:
        x, exc = None, e
    ok = False
    if err is not None:
        if exc is None:
            c.fail(K + ':no-exception', 'documented semantics reject the operation (%s) but a result was returned' % err, sub)
        else:
            c.count('arith:rejected')
    elif exc is not None:
        c.fail(K + ':exception:' + type(exc).__name__, 'valid operation raised %r' % exc, sub)
    else:
        ok = vres(c, K, x, exp, tc, sparse_expected, sub)
        if ok:
            c.count('arith:ok')
    if A is not None and snap(A) != sA:
        c.fail(K + ':operand-modified', 'operand changed by a non in-place operation', sub)
    return ok


def ev_unary(c, desc, seed):
    from cvxopt import matrix, spmatrix
    m, n, tc, pat = desc
    Am, ps = model_of(desc, seed)
    A = sp_of(Am, ps)
    sA = snap(A)
    sub = {'A': desc}
    nt0 = c.n
    U = (('neg', lambda: -A, lambda: R.neg(Am)), ('pos', lambda: +A, lambda: Am.copy()),
         ('abs', lambda: abs(A), lambda: R.absm(Am)), ('T', lambda: A.T, lambda: R.trans(Am)),
         ('H', lambda: A.H, lambda: R.trans(Am, True)), ('trans()', lambda: A.trans(), lambda: R.trans(Am)),
         ('ctrans()', lambda: A.ctrans(), lambda: R.trans(Am, True)), ('real()', lambda: A.real(), lambda: R.real(Am)),
         ('imag()', lambda: A.imag(), lambda: R.imag(Am)))
    for name, f, mf in U:
        _expr(c, 'C16:unary:' + name, sub, f, mf, tc, True, A, sA)
    # scalar multiplication / division: result sparse, type follows the Python conventions
    scalars = [('int', 2), ('float', -0.5), ('zero', 0), ('complex', complex(1, -2)), ('d11', matrix([3.0])), ('i11', matrix([2]))]
    for sname, s in scalars:
        sv = s[0] if isinstance(s, matrix) else s
        stc = s.typecode if isinstance(s, matrix) else R.tc_of_number(s)
        rt = R.tc_max(tc, stc, 'd')
        if isinstance(s, matrix) and n == 1:
            mr = lambda: R.matmul(Am, R.D(1, 1, stc, [sv]))
            _expr(c, 'C16:mul:sparse*dense1x1-as-matrix-product', sub, lambda: A * s, mr, rt, False, A, sA)
        else:
            _expr(c, 'C16:mul:sparse*' + sname, sub, lambda: A * s, lambda: R.scal(sv, Am, rt), rt, True, A, sA)
        if isinstance(s, matrix) and m == 1:
            ml = lambda: R.matmul(R.D(1, 1, stc, [sv]), Am)
            _expr(c, 'C16:mul:dense1x1*sparse-as-matrix-product', sub, lambda: s * A, ml, rt, False, A, sA)
        else:
            _expr(c, 'C16:mul:' + sname + '*sparse', sub, lambda: s * A, lambda: R.scal(sv, Am, rt), rt, True, A, sA)
        if sv != 0:
            _expr(c, 'C16:div:sparse/' + sname, sub, lambda: A / s, lambda: R.as_tc(R.div(Am, sv), rt), rt, True, A, sA)
        # A + c, c + A, A - c, c - A : dense
        if not (isinstance(s, matrix) and m * n == 1):
            full = R.D(m, n, stc, [sv] * (m * n))
            _expr(c, 'C16:add:sparse+' + sname, sub, lambda: A + s, lambda: R.add(Am, full), rt, False, A, sA)
            _expr(c, 'C16:add:' + sname + '+sparse', sub, lambda: s + A, lambda: R.add(full, Am), rt, False, A, sA)
            _expr(c, 'C16:sub:sparse-' + sname, sub, lambda: A - s, lambda: R.add(Am, full, -1), rt, False, A, sA)
            _expr(c, 'C16:sub:' + sname + '-sparse', sub, lambda: s - A, lambda: R.add(full, Am, -1), rt, False, A, sA)
    # in-place scalar operations keep the object and its type
    for sname, s in scalars:
        sv = s[0] if isinstance(s, matrix) else s
        stc = s.typecode if isinstance(s, matrix) else R.tc_of_number(s)
        allowed = R.tc_max(tc, stc) == tc
        for opn in ('imul', 'idiv'):
            if opn == 'idiv' and sv == 0:
                continue
            c.n += 1
            K = 'C16:%s:%s' % (opn, sname)
            B = sp_of(Am, ps)
            B0 = B
            try:
                if opn == 'imul':
                    B *= s
                else:
                    B /= s
                exc = None
            except Exception as e:
                exc = e
            if not allowed:
                if exc is None:
                    c.fail(K + ':no-exception', 'in-place operation that changes the type was accepted', sub)
                exp = Am
            elif exc is not None:
                c.fail(K + ':exception:' + type(exc).__name__, 'valid in-place operation raised %r' % exc, sub)
                continue
            else:
                if B is not B0:
                    c.fail(K + ':new-object', 'in-place operation returned a new object', sub)
                exp = R.scal(sv, Am, tc) if opn == 'imul' else R.as_tc(R.div(Am, sv), tc)
            if vsp(c, K, B0, exp, ps, sub):
                c.count('inplace:ok' if allowed else 'inplace:rejected')
    # A += number is documented as not allowed
    c.n += 1
    B = sp_of(Am, ps)
    B0 = B
    try:
        B += 1.0
        if B is B0 or isinstance(B, spmatrix):
            c.fail('C16:iadd:float:no-exception', 'A += 1.0 on a sparse matrix was accepted', sub)
    except Exception:
        c.count('inplace:rejected')
    vsp(c, 'C16:iadd:float', B0, Am, ps, sub)
    # V assignment: values change, pattern does not
    nnz = len(ps)
    cells = sorted(ps)
    vals = [pval(seed, k, tc, 7) for k in range(nnz)]
    if nnz > 1:
        vals[1] = R.zero(tc)
    Vcases = [('number', 1.25, None), ('int', 3, None), ('matrix', matrix(vals, (nnz, 1), tc), None),
              ('too-long', matrix(vals + [vals[0] if vals else R.zero(tc)], (nnz + 1, 1), tc), 'size'),
              ('row-shaped', matrix(vals, (1, nnz), tc), 'size' if nnz != 1 else None)]
    if tc == 'd':
        Vcases.append(('complex-number', complex(1, 1), 'type'))
    for name, v, err in Vcases:
        c.n += 1
        K = 'C16:V-assign:' + name
        B = sp_of(Am, ps)
        try:
            B.V = v
            exc = None
        except Exception as e:
            exc = e
        if err is not None:
            if exc is None:
                c.fail(K + ':no-exception', 'invalid V assignment (%s) accepted' % err, sub)
            exp = Am
        elif exc is not None:
            c.fail(K + ':exception:' + type(exc).__name__, 'valid V assignment raised %r' % exc, sub)
            continue
        else:
            lv = list(v) if isinstance(v, matrix) else [R.conv(v, tc)] * nnz
            exp = R.D(m, n, tc)
            for k, p in enumerate(cells):
                exp.a[p] = lv[k]
        if vsp(c, K, B, exp, ps, sub):
            c.count('V:ok' if err is None else 'V:rejected')
    # size assignment
    tot = m * n
    sizes = [(r, tot // r) for r in range(1, tot + 1) if tot % r == 0] if tot else [(0, 0), (0, 3), (2, 0)]
    sizes += [(m + 1, n), (tot + 1, 1), (-m, -n)] + ([(0, 0)] if tot else [(1, 1)])
    for (r, q) in sizes:
        c.n += 1
        K = 'C16:size-assign'
        B = sp_of(Am, ps)
        sub2 = {'A': desc, 'size': [r, q]}
        try:
            exp = R.reshape(Am, r, q)
            err = None
        except R.RefError as e:
            exp, err = Am, e.kind
        try:
            B.size = (r, q)
            exc = None
        except Exception as e:
            exc = e
        if err is not None and exc is None:
            c.fail(K + ':no-exception', 'size change that alters the number of elements accepted', sub2)
        elif err is None and exc is not None:
            c.fail(K + ':exception:' + type(exc).__name__, 'valid size change raised %r' % exc, sub2)
            continue
        if vsp(c, K, B, exp, ps, sub2):
            c.count('size:ok' if err is None else 'size:rejected')
    if ps:
        c.nontrivial += c.n - nt0


def ev_binary(c, descA, descB, seed):
    """A sparse, B sparse/dense of the same shape (sums) and of the transposed shape (products)."""
    from cvxopt import matrix
    m, n, tca, _ = descA
    tcb = descB[2]
    Am, pa = model_of(descA, seed)
    Bm, pb = model_of(descB, seed, 3)
    A, B, Bd = sp_of(Am, pa), sp_of(Bm, pb), dn_of(Bm)
    sA, sB = snap(A), snap(B)
    sub = {'A': descA, 'B': descB}
    rt = R.tc_max(tca, tcb)
    nt0 = c.n
    E = (('add:sparse+sparse', lambda: A + B, lambda: R.add(Am, Bm), True),
         ('sub:sparse-sparse', lambda: A - B, lambda: R.add(Am, Bm, -1), True),
         ('add:sparse+dense', lambda: A + Bd, lambda: R.add(Am, Bm), False),
         ('add:dense+sparse', lambda: Bd + A, lambda: R.add(Bm, Am), False),
         ('sub:sparse-dense', lambda: A - Bd, lambda: R.add(Am, Bm, -1), False),
         ('sub:dense-sparse', lambda: Bd - A, lambda: R.add(Bm, Am, -1), False))
    for name, f, mf, spx in E:
        _expr(c, 'C16:' + name, sub, f, mf, rt, spx, A, sA)
    if snap(B) != sB or list(Bd) != Bm.a:
        c.fail('C16:add:operand-modified', 'right operand changed', sub)
    # in place A += B, A -= B (only if the type of A does not change)
    for opn, sign in (('iadd', 1), ('isub', -1)):
        c.n += 1
        K = 'C16:%s:sparse' % opn
        X = sp_of(Am, pa)
        X0 = X
        try:
            if sign > 0:
                X += B
            else:
                X -= B
            exc = None
        except Exception as e:
            exc = e
        if rt != tca:
            if exc is None:
                c.fail(K + ':no-exception', 'in-place operation that changes the type was accepted', sub)
            exp = Am
        elif exc is not None:
            c.fail(K + ':exception:' + type(exc).__name__, 'valid in-place operation raised %r' % exc, sub)
            continue
        else:
            if X is not X0:
                c.fail(K + ':new-object', 'in-place operation returned a new object', sub)
            exp = R.as_tc(R.add(Am, Bm, sign), tca)
        if vsp(c, K, X0, exp, None, sub):
            c.count('inplace:ok' if rt == tca else 'inplace:rejected')
    # incompatible shapes
    Bt = R.trans(Bm)
    Bts = sp_of(Bt, set((p % m) * n + p // m for p in pb))
    Btd = dn_of(Bt)
    if m != n:
        _expr(c, 'C16:add:sparse+sparse:shape-mismatch', sub, lambda: A + Bts, lambda: R.add(Am, Bt), rt, True, A, sA)
        _expr(c, 'C16:add:sparse+dense:shape-mismatch', sub, lambda: A + Btd, lambda: R.add(Am, Bt), rt, False, A, sA)
        _expr(c, 'C16:mul:sparse*sparse:shape-mismatch', sub, lambda: A * B, lambda: R.matmul(Am, Bm), rt, True, A, sA)
    # products
    Ad = dn_of(Am)
    P = (('mul:sparse*sparse', lambda: A * Bts, lambda: R.matmul(Am, Bt), True),
         ('mul:sparse*dense', lambda: A * Btd, lambda: R.matmul(Am, Bt), False),
         ('mul:dense*sparse', lambda: Ad * Bts, lambda: R.matmul(Am, Bt), False),
         ('mul:sparse*sparse', lambda: Bts * A, lambda: R.matmul(Bt, Am), True),
         ('mul:dense*sparse', lambda: Btd * A, lambda: R.matmul(Bt, Am), False))
    for name, f, mf, spx in P:
        _expr(c, 'C16:' + name, sub, f, mf, rt, spx, A, sA)
    if pa and pb:
        c.nontrivial += c.n - nt0


# ====================================================================================== base.axpy/gemv/symv/gemm/syrk
AB = (0, 1, -2)


def pal(r, q, tier, k=None):
    P = b_palette(r, q, 'thorough')
    if r * q == 0:
        return ['']
    out = []
    for x in P:
        if x not in out:
            out.append(x)
    if k is None:
        k = 6 if tier == 'thorough' else 4
    return out[:k]


def scal_of(x, tc):
    """alpha / beta palette entry as the Python number passed to the implementation."""
    if tc == 'z' and x == -2:
        return complex(-2, 1)
    return float(x) if x != 1 else 1


def ev_axpy(c, descx, descy, seed):
    from cvxopt import base
    xm, px = model_of(descx, seed)
    ym, py = model_of(descy, seed, 3)
    sub0 = {'x': descx, 'y': descy}
    for sx, sy in ((1, 0), (0, 1), (1, 1)):
        for al in AB + (None,):
            for partial in ((False, True) if sy else (False,)):
                c.n += 1
                K = 'C16:axpy:%s,%s:partial=%s' % ('sparse' if sx else 'dense', 'sparse' if sy else 'dense', partial)
                sub = dict(sub0, alpha=al, partial=partial)
                x = sp_of(xm, px) if sx else dn_of(xm)
                y = sp_of(ym, py) if sy else dn_of(ym)
                sx0 = snap(x) if sx else list(x)
                kw = {}
                if al is not None:
                    kw['alpha'] = scal_of(al, ym.tc)
                if partial:
                    kw['partial'] = True
                bad = xm.tc != ym.tc
                try:
                    base.axpy(x, y, **kw)
                    exc = None
                except Exception as e:
                    exc = e
                if bad:
                    if exc is None:
                        c.fail(K + ':no-exception', 'operands of different type accepted', sub)
                    exp, ep = ym, py
                elif exc is not None:
                    c.fail(K + ':exception:' + type(exc).__name__, 'valid call raised %r' % exc, sub)
                    continue
                else:
                    full = R.axpy(xm, ym, kw.get('alpha', 1.0))
                    if sy and partial:
                        exp, ep = R.masked(full, ym, py), py
                    else:
                        exp, ep = full, (set(range(len(ym.a))) if (sy and not sx) else None)
                ok = vsp(c, K, y, exp, ep, sub) if sy else vdn(c, K, y, exp, sub)
                if ok:
                    c.count('axpy:ok' if not bad else 'axpy:rejected')
                    if px and not bad:
                        c.nontrivial += 1
                if (snap(x) if sx else list(x)) != sx0:
                    c.fail(K + ':operand-modified', 'x changed', sub)


def _vec(seed, n, tc, salt):
    return [pval(seed, k, tc, salt) for k in range(n)]


def _strided(logical, inc, off, tc, sent):
    """buffer holding `logical` with BLAS increment `inc` starting at `off`; other entries = sentinel."""
    n = len(logical)
    a = abs(inc)
    L = off + (1 + (n - 1) * a if n else 0) + 1
    buf = [sent] * L
    for i, v in enumerate(logical):
        buf[off + (i if inc > 0 else n - 1 - i) * a] = v
    return buf


GEMV_VARIANTS = ((1, 1, 0, 0), (1, 1, 1, 2), (2, 3, 0, 0), (-1, 1, 1, 0), (1, -2, 0, 1))   # incx, incy, offsetx, offsety
GEMV_VNAME = ('plain', 'offset', 'pos-inc', 'neg-incx', 'neg-incy')


def ev_gemv(c, desc, seed, tier):
    """A sparse; every trans, alpha, beta; increments/offsets; sub-block via m, n, offsetA."""
    from cvxopt import base, matrix
    m, n, tc, _ = desc
    Am, pa = model_of(desc, seed)
    A = sp_of(Am, pa)
    sA = snap(A)
    Ad = dn_of(Am)
    sent = complex(-777.25, 0) if tc == 'z' else -777.25
    blocks = [(m, n, 0, False)]
    if m >= 2 and n >= 2:
        blocks.append((m - 1, n - 1, 1 + m, True))
    if m >= 1 and n >= 1:
        blocks.append((m, 0, 0, True))
        blocks.append((0, n, 0, True))
    for (bm, bn, oA, explicit) in blocks:
        oi, oj = (oA % m, oA // m) if m else (0, 0)
        Sub = R.D(bm, bn, tc, [Am.a[(oj + j) * m + oi + i] for j in range(bn) for i in range(bm)])
        for t in 'NTC':
            lx, ly = (bn, bm) if t == 'N' else (bm, bn)
            for vi, (ix, iy, ox, oy) in enumerate(GEMV_VARIANTS):
                if vi and (explicit or tier != 'thorough' and t == 'C'):
                    continue
                for al in AB + (None,):
                    for be in AB + (None,):
                        c.n += 1
                        K = 'C16:gemv:trans=%s:%s' % (t, 'subblock' if explicit else GEMV_VNAME[vi])
                        sub = {'A': desc, 'trans': t, 'alpha': al, 'beta': be, 'm': bm, 'n': bn, 'offsetA': oA,
                               'inc': [ix, iy], 'off': [ox, oy]}
                        xl, yl = _vec(seed, lx, tc, 2), _vec(seed, ly, tc, 6)
                        xb, yb = _strided(xl, ix, ox, tc, sent), _strided(yl, iy, oy, tc, sent)
                        x, y = matrix(xb, (len(xb), 1), tc), matrix(yb, (len(yb), 1), tc)
                        kw = {'trans': t}
                        if al is not None:
                            kw['alpha'] = scal_of(al, tc)
                        if be is not None:
                            kw['beta'] = scal_of(be, tc)
                        if explicit:
                            kw.update(m=bm, n=bn, offsetA=oA)
                        if vi:
                            kw.update(incx=ix, incy=iy, offsetx=ox, offsety=oy)
                        yd = matrix(yb, (len(yb), 1), tc)
                        try:
                            base.gemv(A, x, y, **kw)
                        except Exception as e:
                            c.fail(K + ':exception:' + type(e).__name__, 'valid call raised %r' % e, sub)
                            continue
                        # documented: returns immediately if the output dimension is 0 ... / y := beta*y if inner dimension is 0
                        if (bm == 0 and t == 'N') or (bn == 0 and t != 'N'):
                            want = yl
                        else:
                            want = R.gemv(Sub, xl, yl, t, kw.get('alpha', 1.0), kw.get('beta', 0.0))
                        wb = _strided(want, iy, oy, tc, sent)
                        got = list(y)
                        bad = [q for q in range(len(wb)) if not same(got[q], wb[q])]
                        if bad:
                            c.fail(K + ':value', 'y[%d] is %r, expected %r; y=%r expected %r' % (bad[0], got[bad[0]], wb[bad[0]], got, wb), sub)
                        else:
                            c.count('gemv:ok')
                            if pa:
                                c.nontrivial += 1
                        if list(x) != xb or snap(A) != sA:
                            c.fail(K + ':operand-modified', 'A or x changed', sub)
                        if DENSE_SIDE:
                            try:
                                base.gemv(Ad, x, yd, **kw)
                                if any(not same(g, w) for g, w in zip(list(yd), wb)):
                                    c.count('dense-side-differs-from-model:gemv:m=%d,n=%d,trans=%s' % (bm, bn, t))
                            except Exception:
                                c.count('dense-side-differs-from-model:gemv-raises')


def ev_symv(c, desc, seed, tier):
    from cvxopt import base, matrix
    n, _, tc, _ = desc
    Am, pa = model_of(desc, seed)
    A = sp_of(Am, pa)
    sA = snap(A)
    Ad = dn_of(Am)
    sent = -777.25
    for uplo in 'LU':
        for vi, (ix, iy, ox, oy) in enumerate(GEMV_VARIANTS):
            for al in AB + (None,):
                for be in AB + (None,):
                    c.n += 1
                    K = 'C16:symv:uplo=%s:%s' % (uplo, GEMV_VNAME[vi])
                    sub = {'A': desc, 'uplo': uplo, 'alpha': al, 'beta': be, 'inc': [ix, iy], 'off': [ox, oy]}
                    xl, yl = _vec(seed, n, tc, 2), _vec(seed, n, tc, 6)
                    xb, yb = _strided(xl, ix, ox, tc, sent), _strided(yl, iy, oy, tc, sent)
                    x, y = matrix(xb, (len(xb), 1), tc), matrix(yb, (len(yb), 1), tc)
                    kw = {'uplo': uplo}
                    if al is not None:
                        kw['alpha'] = scal_of(al, tc)
                    if be is not None:
                        kw['beta'] = scal_of(be, tc)
                    if vi:
                        kw.update(incx=ix, incy=iy, offsetx=ox, offsety=oy)
                    yd = matrix(yb, (len(yb), 1), tc)
                    try:
                        base.symv(A, x, y, **kw)
                    except Exception as e:
                        c.fail(K + ':exception:' + type(e).__name__, 'valid call raised %r' % e, sub)
                        continue
                    want = R.symv(Am, xl, yl, uplo, kw.get('alpha', 1.0), kw.get('beta', 0.0)) if n else yl
                    wb = _strided(want, iy, oy, tc, sent)
                    got = list(y)
                    bad = [q for q in range(len(wb)) if not same(got[q], wb[q])]
                    if bad:
                        c.fail(K + ':value', 'y[%d] is %r, expected %r; y=%r expected %r' % (bad[0], got[bad[0]], wb[bad[0]], got, wb), sub)
                    else:
                        c.count('symv:ok')
                        if pa:
                            c.nontrivial += 1
                    if list(x) != xb or snap(A) != sA:
                        c.fail(K + ':operand-modified', 'A or x changed', sub)
                    if DENSE_SIDE and n:
                        try:
                            base.symv(Ad, x, yd, **kw)
                            if any(not same(g, w) for g, w in zip(list(yd), wb)):
                                c.count('dense-side-differs-from-model:symv')
                        except Exception:
                            c.count('dense-side-differs-from-model:symv-raises')


def ev_gemm(c, m, n, k, tc, combo, tA, tB, seed, tier, npat=None):
    """combo = (sA, sB, sC) ; loops over operand patterns, alpha, beta, partial."""
    from cvxopt import base
    sA_, sB_, sC_ = combo
    shA = (m, k) if tA == 'N' else (k, m)
    shB = (k, n) if tB == 'N' else (n, k)
    pA = pal(shA[0], shA[1], tier, npat) if sA_ else ['2' * (m * k)]
    pB = pal(shB[0], shB[1], tier, npat) if sB_ else ['2' * (k * n)]
    pC = pal(m, n, tier, npat) if sC_ else ['2' * (m * n)]
    cname = ','.join('sparse' if s else 'dense' for s in combo)
    for a_ in pA:
        Am, ap = model_of([shA[0], shA[1], tc, a_], seed)
        A = sp_of(Am, ap) if sA_ else dn_of(Am)
        snA = snap(A) if sA_ else list(A)
        for b_ in pB:
            Bm, bp = model_of([shB[0], shB[1], tc, b_], seed, 3)
            B = sp_of(Bm, bp) if sB_ else dn_of(Bm)
            snB = snap(B) if sB_ else list(B)
            for c_ in pC:
                Cm, cp = model_of([m, n, tc, c_], seed, 6)
                for partial in ((False, True) if sC_ else (False,)):
                    K = 'C16:gemm:%s:transA=%s,transB=%s:partial=%s' % (cname, tA, tB, partial)
                    for al in AB:
                        for be in AB:
                            c.n += 1
                            sub = {'A': [shA[0], shA[1], tc, a_], 'B': [shB[0], shB[1], tc, b_], 'C': [m, n, tc, c_],
                                   'alpha': al, 'beta': be}
                            C = sp_of(Cm, cp) if sC_ else dn_of(Cm)
                            kw = {'transA': tA, 'transB': tB, 'alpha': scal_of(al, tc), 'beta': scal_of(be, tc)}
                            if partial:
                                kw['partial'] = True
                            try:
                                base.gemm(A, B, C, **kw)
                            except Exception as e:
                                c.fail(K + ':exception:' + type(e).__name__, 'valid call raised %r' % e, sub)
                                continue
                            if m == 0 or n == 0:
                                exp = Cm
                            else:
                                exp = R.gemm(Am, Bm, Cm, tA, tB, kw['alpha'], kw['beta'])
                            if sC_ and partial:
                                ok = vsp(c, K, C, R.masked(exp, Cm, cp), cp, sub)
                            elif sC_:
                                ok = vsp(c, K, C, exp, None, sub)
                            else:
                                ok = vdn(c, K, C, exp, sub)
                            if ok:
                                c.count('gemm:ok')
                                if (ap or not sA_) and (bp or not sB_):
                                    c.nontrivial += 1
            if (snap(B) if sB_ else list(B)) != snB:
                c.fail('C16:gemm:%s:operand-modified' % cname, 'B changed', {'B': b_})
        if (snap(A) if sA_ else list(A)) != snA:
            c.fail('C16:gemm:%s:operand-modified' % cname, 'A changed', {'A': a_})


def ev_syrk(c, n, k, tc, combo, uplo, t, seed, tier, npat=None):
    from cvxopt import base
    sA_, sC_ = combo
    shA = (n, k) if t == 'N' else (k, n)
    pA = pal(shA[0], shA[1], tier, npat) if sA_ else ['2' * (n * k)]
    pC = pal(n, n, tier, npat) if sC_ else ['2' * (n * n)]
    cname = ','.join('sparse' if s else 'dense' for s in combo)
    tri = set(p for p in range(n * n) if R.in_triangle(p, n, uplo))
    for a_ in pA:
        Am, ap = model_of([shA[0], shA[1], tc, a_], seed)
        A = sp_of(Am, ap) if sA_ else dn_of(Am)
        snA = snap(A) if sA_ else list(A)
        for c_ in pC:
            Cm, cp = model_of([n, n, tc, c_], seed, 6)
            for partial in ((False, True) if sC_ else (False,)):
                K = 'C16:syrk:%s:uplo=%s,trans=%s:partial=%s' % (cname, uplo, t, partial)
                for al in AB:
                    for be in AB:
                        c.n += 1
                        sub = {'A': [shA[0], shA[1], tc, a_], 'C': [n, n, tc, c_], 'alpha': al, 'beta': be}
                        C = sp_of(Cm, cp) if sC_ else dn_of(Cm)
                        kw = {'uplo': uplo, 'trans': t, 'alpha': scal_of(al, tc), 'beta': scal_of(be, tc)}
                        if partial:
                            kw['partial'] = True
                        try:
                            base.syrk(A, C, **kw)
                        except Exception as e:
                            c.fail(K + ':exception:' + type(e).__name__, 'valid call raised %r' % e, sub)
                            continue
                        exp = R.syrk(Am, Cm, uplo, t, kw['alpha'], kw['beta']) if n else Cm
                        if sC_ and partial:
                            # entries outside the pattern stay structurally zero; the pattern is kept
                            ok = vsp(c, K, C, R.masked(exp, Cm, cp), cp, sub, only=tri)
                        elif sC_:
                            ok = vsp(c, K, C, exp, None, sub, only=tri)
                        else:
                            ok = vdn(c, K, C, exp, sub, only=tri)
                        if ok:
                            c.count('syrk:ok')
                            if ap or not sA_:
                                c.nontrivial += 1
        if (snap(A) if sA_ else list(A)) != snA:
            c.fail('C16:syrk:%s:operand-modified' % cname, 'A changed', {'A': a_})
