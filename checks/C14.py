"""C14 - writing an LP to MPS and reading it back preserves the problem; fromfile implements the fixed MPS subset."""
import os, itertools
from fractions import Fraction as Fr

PROPERTY = 'C14'
LEVEL = 'exploration'
ENGINE = 'bex'
FLAVOURS = ('plain',)
TECHNIQUE = 'bounded exhaustive round trips + grammar-generated MPS files against an independent MPS semantics and an exact LP solver'
RULE = ('(a) every LP in the bounded family (variable lengths, naming mode, objective template, 1-3 constraint templates, '
        'relation vector, dense/sparse, palette rotation) is built in the modeling layer, written with op.tofile, read with '
        'op().fromfile into a fresh op; both ops are reduced to (c,d,G,h,A,b) through the public API only (evaluating '
        'objective/constraint functions at 0 and at scaled unit vectors) and compared (counts, coefficients to 6 '
        'significant digits under the variable renaming, exact LP status/value with mc.ref.lpexact, op.solve status); '
        'non-trivial = the LP has an optimal solution or a constraint with a matrix coefficient. '
        '(b) every fixed-format MPS text of the bounded grammar (row types, N-row placement, one/two entries per line, RHS, '
        'RANGES, BOUNDS in every order, comment/blank lines) is read with fromfile and the resulting op must equal, as a '
        'canonical multiset of normalised rows plus objective, the constraint set computed by mc.ref.mps; non-trivial = '
        'the file has a RANGES or BOUNDS entry, a two-entry line or an objective RHS. '
        '(c) every non-LP in a small family must be refused by tofile. '
        '(d) two programs whose distinct names share a prefix longer than the MPS label; (z) LPs with a vector-variable '
        'component that has no nonzero coefficient.')
ASSUME = [
    'format semantics are those of the fixed-format MPS description linked from doc/source/modeling.rst (lp_solve): '
    'RHS on the objective row = minus the objective constant; RANGES table for L/G/E rows; default bounds [0,+inf)',
    'not asserted (dialect-dependent, undefined by modeling.rst and the fromfile docstring): lower bound after "UP b" with '
    'b<0 and no lower bound given (0 or -inf accepted); upper bound after "MI" without explicit upper bound (+inf or 0 '
    'accepted); any effect of a RANGES entry on an N row (outcome only recorded, including the KeyError cvxopt raises when '
    'that entry is the first on its line)',
    'constraints without variables: fromfile removes them when they hold (announcing it on stdout) and raises ValueError '
    'when they are violated; the oracle drops satisfied empty rows before counting and accepts the ValueError for a '
    'violated one (the round trip of an LP that contains 0 <= -1 is therefore not asserted)',
    'the objective constant is not compared in round trips (the property exempts it; tofile does not write it)',
    'status / optimal value / op.solve status are compared only for programs whose data survive 6 significant digits '
    'exactly; op.solve statuses of the two ops are compared only when both calls return (exceptions of op.solve itself - no '
    'inequality, scalar coefficient, rank - belong to other properties) and either both solve bit-identical matrices or '
    'both statuses are definitive (not "unknown") and the exact classification says the LP is well posed (full rank, '
    'strictly feasible or strict certificate); conelp does return "unknown" (singular KKT matrix) on one of two '
    'column-permuted copies of some well-posed but degenerate tiny LPs',
    'the known zero-column defect is reported by the dedicated family only; in the general family it is counted as an '
    'outcome (otherwise thousands of identical reports would truncate the enumeration)',
    'variable renaming: labels name_i are tried first, then any column permutation (bounded search)',
    'tofile on a non-LP: only "raises an exception and leaves no complete MPS file" is demanded (the doc names no exception class)',
    'palette values with |exponent| < 100 only (a 3-digit exponent does not fit the 12-character numeric field)']
BOUNDS = {'quick': '(a) 10 length vectors, 14 constraint / 5 objective templates, singles in full, pairs over 6 templates, '
                   'triples over 3 templates, 3 relations each, dense+sparse, 1 palette rotation (selected by VERIF_SEED), '
                   'inexact palette on singles; (b) <=3 rows x <=3 columns: all row-type vectors x all RANGES vectors '
                   '{none,-2,0,3}^m x 3 RHS patterns, 24 bound combinations per column: all pairs in every interleaving, '
                   'triples over 8 combinations in 3 interleavings, entry-presence patterns of <=9 cells x 4 layouts, '
                   'comment/blank insertion at every line, second N row with entries, RANGES on N rows; (c) 66 non-LPs; (d) 4 programs; (z) 16 programs',
          'thorough': '(a) all 39 length vectors, singles in full with 7 rotations (11 for the inexact palette), pairs over all 14 templates (2 objectives, 2 naming modes, 2 rotations), triples over 5 '
                      'templates, inexact palette on singles and pairs; (b) additionally all 3^m RHS vectors (objective-row RHS cycling through none/-2/5), '
                      'bound triples over all 24 combinations (3 interleavings) and over 8 combinations in every '
                      'interleaving, entry-presence patterns up to 12 cells'}

VERIF = os.path.dirname(os.path.dirname(os.path.abspath(__file__)))

EXACT = [1.0, -2.0, 0.5, 3.0, -1.0, 1.25, 0.0]
INEXACT = [1.0 / 3.0, 1.0, 1e-7, -2.0, 123456.789, 0.5, -1.0 / 3.0, 0.0, -1e-7, 3.0, -123456.789]
VNAMES = ['x', 'yy', 'abcdef']
CNAMES = ['c', 'dd', 'limit6']
T40 = 2.0 ** 40

# ---------------------------------------------------------------------------------------------- (a) templates
TPL = ['sc', 'scv', 'row', 'mat1', 'mat2', 'mat3', 'all', 'rowbc', 'svbc', 'idx', 'sum', 'pair', 'splx', 'spc']
OBJ = ['dot', 'lin', 'sumc', 'cst', 'last']
TPL_PAIRS_Q = ['scv', 'mat2', 'rowbc', 'svbc', 'splx', 'all']
TPL_TRIPLES_Q = ['sc', 'mat2', 'row']
TPL_TRIPLES_T = ['sc', 'mat2', 'row', 'all', 'splx']


def _other(lens, k, pred):
    for d in range(1, len(lens)):
        j = (k + d) % len(lens)
        if pred(lens[j]):
            return j
    return None


def _applicable(t, lens, k):
    if t == 'all':
        return len(lens) >= 2 and k == 0
    if t == 'rowbc':
        return _other(lens, k, lambda n: n >= 2) is not None
    if t == 'svbc':
        return _other(lens, k, lambda n: n == 1) is not None
    if t == 'pair':
        return _other(lens, k, lambda n: n == lens[k]) is not None
    return True


def _lens_all():
    out = []
    for nv in (1, 2, 3):
        out += [list(t) for t in itertools.product((1, 2, 3), repeat=nv)]
    return out


LENS_Q = [[1], [2], [3], [1, 1], [2, 1], [1, 3], [2, 2], [3, 2], [1, 1, 1], [2, 1, 3]]
NAMING = [('named', 'named'), ('unnamed', 'unnamed'), ('mixed', 'mixed'), ('named', 'unnamed')]


def _cases_a(tier, seed):
    thorough = tier == 'thorough'
    lens_list = _lens_all() if thorough else LENS_Q
    rots = [(seed * 7 + i) % 7 for i in range(7)] if thorough else [seed % 7]
    # singles
    for lens in lens_list:
        for k in range(len(lens)):
            for t in TPL:
                if not _applicable(t, lens, k):
                    continue
                for o in OBJ:
                    for nm in (NAMING if thorough else NAMING[:3]):
                        yield {'fam': 'a', 'lens': lens, 'tpl': [[t, k]], 'obj': o, 'vn': nm[0], 'cn': nm[1],
                               'pal': 'exact', 'rots': rots}
                if t in ('mat2', 'mat3', 'all', 'scv', 'splx', 'rowbc'):
                    yield {'fam': 'a', 'lens': lens, 'tpl': [[t, k]], 'obj': 'lin', 'vn': 'named', 'cn': 'unnamed',
                           'pal': 'inexact', 'rots': [seed % 11] if not thorough else list(range(11))}
    # pairs
    plist = TPL if thorough else TPL_PAIRS_Q
    plens = lens_list if thorough else [[2], [1, 1], [2, 1], [3, 2], [2, 1, 3]]
    for lens in plens:
        nv = len(lens)
        for t1 in plist:
            for t2 in plist:
                k1, k2 = 0, (1 % nv)
                if not (_applicable(t1, lens, k1) and _applicable(t2, lens, k2)):
                    continue
                for o in ('lin', 'dot'):
                    for nm in NAMING[:2]:
                        yield {'fam': 'a', 'lens': lens, 'tpl': [[t1, k1], [t2, k2]], 'obj': o, 'vn': nm[0], 'cn': nm[1],
                               'pal': 'exact', 'rots': rots[:2]}
                if thorough and t1 in ('mat2', 'all') and t2 in ('mat2', 'scv', 'rowbc'):
                    yield {'fam': 'a', 'lens': lens, 'tpl': [[t1, k1], [t2, k2]], 'obj': 'lin', 'vn': 'named',
                           'cn': 'unnamed', 'pal': 'inexact', 'rots': [seed % 11]}
    # triples
    tlist = TPL_TRIPLES_T if thorough else TPL_TRIPLES_Q
    tlens = ([[1], [2], [3], [1, 1], [2, 1], [2, 2], [3, 2], [1, 1, 1], [2, 1, 3], [3, 3, 3]] if thorough
             else [[2], [2, 1], [2, 1, 3]])
    for lens in tlens:
        nv = len(lens)
        for ts in itertools.product(tlist, repeat=3):
            ks = [0, 1 % nv, 2 % nv]
            if not all(_applicable(t, lens, k) for t, k in zip(ts, ks)):
                continue
            for nm in NAMING[:2]:
                yield {'fam': 'a', 'lens': lens, 'tpl': [[t, k] for t, k in zip(ts, ks)], 'obj': 'lin',
                       'vn': nm[0], 'cn': nm[1], 'pal': 'exact', 'rots': rots[:1]}


class _Stream(object):
    def __init__(self, vals, pos):
        self.vals, self.pos = vals, pos

    def __call__(self):
        v = self.vals[self.pos % len(self.vals)]
        self.pos += 1
        return v

    def nz(self):
        for _ in range(len(self.vals)):
            v = self()
            if v != 0.0:
                return v
        return 1.0


def _names(mode, pool, n):
    if mode == 'named':
        return [pool[i] for i in range(n)]
    if mode == 'unnamed':
        return [''] * n
    return [pool[i] if i % 2 == 0 else '' for i in range(n)]


def _build(desc, rels, sp, rot):
    """-> (op, has_matrix_coefficient)"""
    from cvxopt import matrix, sparse, spmatrix
    from cvxopt.modeling import variable, op, dot, sum as msum
    pal = _Stream(EXACT if desc['pal'] == 'exact' else INEXACT, rot)
    lens = desc['lens']
    vs = [variable(n, nm) for n, nm in zip(lens, _names(desc['vn'], VNAMES, len(lens)))]

    def M(m, n):
        A = matrix([pal() for _ in range(m * n)], (m, n))
        return sparse(A) if sp else A

    def V(m):
        return matrix([pal() for _ in range(m)], (m, 1))

    o = desc['obj']
    if o == 'dot':
        obj = dot(V(lens[0]), vs[0])
    elif o == 'lin':
        obj = M(1, lens[0]) * vs[0]
        for j in range(1, len(vs)):
            obj = obj + M(1, lens[j]) * vs[j]
        obj = obj + pal.nz()
    elif o == 'sumc':
        obj = msum(vs[0]) + pal.nz()
    elif o == 'cst':
        obj = 3.0
    else:
        obj = pal.nz() * vs[-1][0]
    cons = []
    cnames = _names(desc['cn'], CNAMES, len(desc['tpl']))
    for (t, k), rel, cname in zip(desc['tpl'], rels, cnames):
        x = vs[k]
        n = lens[k]
        if t == 'sc':
            f, rhs = pal.nz() * x, pal()
        elif t == 'scv':
            f, rhs = pal.nz() * x + V(n), pal()
        elif t == 'row':
            f, rhs = M(1, n) * x, pal()
        elif t in ('mat1', 'mat2', 'mat3'):
            m = int(t[3])
            f, rhs = M(m, n) * x, (V(m) if m > 1 else pal())
        elif t == 'all':
            f = M(2, n) * x
            for j in range(1, len(vs)):
                f = f + M(2, lens[j]) * vs[j]
            f, rhs = f + V(2), pal()
        elif t == 'rowbc':
            j = _other(lens, k, lambda q: q >= 2)
            f, rhs = M(1, n) * x + pal.nz() * vs[j], V(lens[j])
        elif t == 'svbc':
            j = _other(lens, k, lambda q: q == 1)
            m = 2 if n != 2 else 3
            f, rhs = M(m, n) * x + pal.nz() * vs[j], V(m)
        elif t == 'idx':
            f, rhs = x[0] - pal.nz() * x[n - 1] + pal(), pal()
        elif t == 'sum':
            f = msum(x)
            if len(vs) > 1:
                f = f + pal.nz() * vs[(k + 1) % len(vs)][0]
            rhs = pal()
        elif t == 'pair':
            j = _other(lens, k, lambda q: q == n)
            f, rhs = pal.nz() * x + pal.nz() * vs[j], V(n)
        elif t == 'splx':
            A = matrix(0.0, (n + 1, n))
            for i in range(n):
                A[i, i] = -1.0
                A[n, i] = 1.0
            f, rhs = (sparse(A) if sp else A) * x, matrix([0.0] * n + [3.0])
        elif t == 'spc':
            cv = V(2)
            f, rhs = M(2, n) * x + sparse(cv), pal()
        else:
            raise AssertionError(t)
        c = (f <= rhs) if rel == 0 else ((f >= rhs) if rel == 1 else (f == rhs))
        if cname:
            c.name = cname
        cons.append(c)
    return op(obj, cons, 'prob'), any(t in ('mat2', 'mat3', 'all', 'svbc', 'splx', 'spc') for t, k in desc['tpl'])


# ---------------------------------------------------------------------------------------------- extraction
def _extract(lp):
    """(c, d, G, h, A, b, labels) of an op through its public API: f(0) and f(T e_j)."""
    from cvxopt import matrix
    vs = lp.variables()
    ineq, eq = lp.inequalities(), lp.equalities()
    saved = [v.value for v in vs]
    for v in vs:
        v.value = matrix(0.0, (len(v), 1))

    def snapshot():
        o = lp.objective.value()
        return (float(o[0]) if o is not None else 0.0,
                [x for c in ineq for x in list(c.value())], [x for c in eq for x in list(c.value())])

    d, g0, a0 = snapshot()
    cvec, Gc, Ac, labels = [], [], [], []
    for k, v in enumerate(vs):
        for i in range(len(v)):
            e = matrix(0.0, (len(v), 1))
            e[i] = T40
            v.value = e
            o, g1, a1 = snapshot()
            cvec.append((o - d) / T40)
            Gc.append([(p - q) / T40 for p, q in zip(g1, g0)])
            Ac.append([(p - q) / T40 for p, q in zip(a1, a0)])
            labels.append((v.name, k, i, len(v)))
        v.value = matrix(0.0, (len(v), 1))
    for v, s in zip(vs, saved):
        v.value = s
    N = len(cvec)
    G = [[Gc[j][r] for j in range(N)] for r in range(len(g0))]
    A = [[Ac[j][r] for j in range(N)] for r in range(len(a0))]
    return {'c': cvec, 'd': d, 'G': G, 'h': [-t for t in g0], 'A': A, 'b': [-t for t in a0], 'labels': labels,
            'N': N}


def _half_unit(a):
    """half a unit of the 6th significant digit of a."""
    import math
    if a == 0.0:
        return 0.0
    e = math.floor(math.log10(abs(a)))
    if abs(a) >= 10.0 ** (e + 1):
        e += 1
    if abs(a) < 10.0 ** e:
        e -= 1
    return 0.5 * 10.0 ** (e - 5)


def _survives(a):
    from decimal import Decimal, Context, ROUND_HALF_EVEN
    return float(Context(prec=6, rounding=ROUND_HALF_EVEN).create_decimal(Decimal(a))) == a


def _close6(a1, a2):
    """a2 is a1 written with 6 significant digits."""
    if a1 == 0.0:
        return a2 == 0.0
    if _survives(a1):
        return abs(a2 - a1) <= 1e-12 * abs(a1)
    return abs(a2 - a1) <= _half_unit(a1) * (1.0 + 1e-6)


def _rows_close(r1, r2):
    return len(r1) == len(r2) and all(_close6(p, q) for p, q in zip(r1, r2))


def _match_rows(R1, R2):
    """rows of R1 (original) against rows of R2: in order first, then as multisets."""
    if len(R1) != len(R2):
        return False
    if all(_rows_close(p, q) for p, q in zip(R1, R2)):
        return True
    left = list(R2)
    for p in R1:
        hit = None
        for i, q in enumerate(left):
            if _rows_close(p, q):
                hit = i
                break
        if hit is None:
            return False
        left.pop(hit)
    return True


def _problem_matches(M1, M2, perm):
    """perm[j] = column of M2 corresponding to column j of M1."""
    if not all(_close6(M1['c'][j], M2['c'][perm[j]]) for j in range(M1['N'])):
        return 'objective-coefficients'
    G2 = [[r[perm[j]] for j in range(M1['N'])] + [hh] for r, hh in zip(M2['G'], M2['h'])]
    G1 = [r + [hh] for r, hh in zip(M1['G'], M1['h'])]
    if not _match_rows(G1, G2):
        return 'inequality-rows'
    A2 = [[r[perm[j]] for j in range(M1['N'])] + [hh] for r, hh in zip(M2['A'], M2['b'])]
    A1 = [r + [hh] for r, hh in zip(M1['A'], M1['b'])]
    if not _match_rows(A1, A2):
        return 'equality-rows'
    return None


def _find_perm(M1, M2):
    """name-implied permutation first; then a bounded search over all permutations.  -> (perm or None, how, why)"""
    N = M1['N']
    pred = ['%s_%d' % (nm if nm else str(k), i) for (nm, k, i, ln) in M1['labels']]
    got = [lab[0] for lab in M2['labels']]
    why = None
    if len(set(pred)) == N and sorted(pred) == sorted(got):
        perm = [got.index(p) for p in pred]
        why = _problem_matches(M1, M2, perm)
        if why is None:
            return perm, 'names', None
    ident = list(range(N))
    w2 = _problem_matches(M1, M2, ident)
    if w2 is None:
        return ident, 'order', None
    why = why or w2
    # bounded search
    from decimal import Decimal, Context
    ctx = Context(prec=6)

    def sig(M, j):
        r6 = lambda a: float(ctx.create_decimal(Decimal(a)))
        return (r6(M['c'][j]), tuple(sorted(r6(r[j]) for r in M['G'])), tuple(sorted(r6(r[j]) for r in M['A'])))
    s1 = [sig(M1, j) for j in range(N)]
    s2 = [sig(M2, j) for j in range(N)]
    if sorted(s1) != sorted(s2):
        return None, None, why
    budget = [20000]

    def rec(j, used, perm):
        if budget[0] <= 0:
            return None
        if j == N:
            budget[0] -= 1
            return list(perm) if _problem_matches(M1, M2, perm) is None else None
        for q in range(N):
            if q not in used and s2[q] == s1[j]:
                used.add(q); perm.append(q)
                r = rec(j + 1, used, perm)
                used.discard(q); perm.pop()
                if r is not None:
                    return r
        return None
    p = rec(0, set(), [])
    if p is not None:
        return p, 'search', None
    return None, None, why


def _drop_trivial(M):
    """remove empty rows that hold; report empty rows that are violated."""
    bad = False
    G, h, A, b = [], [], [], []
    for r, t in zip(M['G'], M['h']):
        if all(v == 0.0 for v in r):
            if t < 0.0:
                bad = True
            continue
        G.append(r); h.append(t)
    for r, t in zip(M['A'], M['b']):
        if all(v == 0.0 for v in r):
            if t != 0.0:
                bad = True
            continue
        A.append(r); b.append(t)
    M2 = dict(M)
    M2.update(G=G, h=h, A=A, b=b)
    return M2, bad


def _zero_columns(M):
    return [j for j in range(M['N']) if M['c'][j] == 0.0 and all(r[j] == 0.0 for r in M['G'])
            and all(r[j] == 0.0 for r in M['A'])]


def _quiet_fromfile(path):
    import io, contextlib
    from cvxopt.modeling import op
    lp = op()
    buf = io.StringIO()
    with contextlib.redirect_stdout(buf):
        lp.fromfile(path)
    return lp, buf.getvalue()


def _solve_status(lp):
    import io, contextlib
    buf = io.StringIO()
    try:
        with contextlib.redirect_stdout(buf):
            lp.solve()
        return lp.status
    except Exception as e:
        return 'exc:' + type(e).__name__


class _Ctx(object):
    def __init__(self):
        self.n = 0
        self.nontrivial = 0
        self.programs = 0
        self.viol = []
        self.outcomes = {}
        self.maxerr = 0.0
        self.tmp = None

    def out(self, label):
        self.outcomes[label] = self.outcomes.get(label, 0) + 1

    def bad(self, key, msg, sub=None):
        if key not in [v['key'] for v in self.viol]:
            self.viol.append({'key': key, 'msg': msg, 'sub': sub})

    def path(self):
        if self.tmp is None:
            self.tmp = os.path.join(VERIF, '.cache', 'tmp-C14-%d' % os.getpid())
            os.makedirs(self.tmp, exist_ok=True)
        return os.path.join(self.tmp, 'p.mps')

    def cleanup(self):
        if self.tmp is not None:
            import shutil
            shutil.rmtree(self.tmp, ignore_errors=True)

    def result(self):
        return {'n': self.n, 'nontrivial': self.nontrivial, 'outcomes': self.outcomes, 'viol': self.viol,
                'maxerr': {'6-digit': self.maxerr}, 'extra': {'programs': self.programs}}


def _roundtrip(ctx, lp, K, sub, exact, hasmat=False, report_zero_column=False):
    """One round trip of `lp`; K = key prefix."""
    from mc.ref import lpexact
    ctx.n += 1
    ctx.programs += 1
    path = ctx.path()
    try:
        M1 = _extract(lp)
    except Exception as e:
        ctx.bad('C14:harness:extract-original:%s' % type(e).__name__, repr(e), sub)
        return
    if os.path.exists(path):
        os.unlink(path)
    try:
        lp.tofile(path)
    except Exception as e:
        ctx.bad(K + ':tofile-exception:%s' % type(e).__name__, 'tofile raised %r on an LP' % (e,), sub)
        return
    M1d, violated_empty = _drop_trivial(M1)
    zc = _zero_columns(M1)
    try:
        lp2, said = _quiet_fromfile(path)
    except Exception as e:
        msg = str(e)
        if isinstance(e, ValueError) and 'has no variables' in msg and violated_empty:
            ctx.out('a:rejected:violated-empty-row')
            return
        if isinstance(e, ValueError) and 'unknown column label' in msg and zc:
            ctx.out('a:zero-column')
            if not report_zero_column:
                return              # reported once, by the dedicated cases of family 'z' (keeps the evidence exhaustive)
            ctx.bad('C14:roundtrip:zero-column:fromfile-ValueError',
                    'variable component %r has only zero coefficients: tofile writes its FR bound but no COLUMNS entry and '
                    'fromfile rejects the file: %s' % (M1['labels'][zc[0]][:3], msg), sub)
            return
        ctx.bad(K + ':fromfile-exception:%s' % type(e).__name__,
                'fromfile raised %r on the file written by tofile' % (e,), dict(sub or {}, file=open(path).read()[:1500]))
        return
    try:
        M2 = _extract(lp2)
    except Exception as e:
        ctx.bad(K + ':extract-reread:%s' % type(e).__name__, repr(e), sub)
        return
    subf = dict(sub or {})
    # all variables scalar and free: there is no bound row beyond the constraints compared below (count check)
    if any(lab[3] != 1 for lab in M2['labels']):
        ctx.bad(K + ':reread-variable-not-scalar', 'fromfile produced a vector variable', subf)
        return
    if M2['N'] != M1['N']:
        if zc and M2['N'] == M1['N'] - len(zc):
            ctx.bad('C14:roundtrip:zero-column:variable-lost', 'zero column dropped by the round trip', subf)
        else:
            ctx.bad(K + ':variable-count', 'original has %d scalar variables, re-read problem %d (%r)'
                    % (M1['N'], M2['N'], [l[0] for l in M2['labels']]), subf)
        return
    if len(M2['G']) != len(M1d['G']) or len(M2['A']) != len(M1d['A']):
        ctx.bad(K + ':row-count', 'original %d inequality / %d equality rows (empty rows dropped), re-read %d / %d'
                % (len(M1d['G']), len(M1d['A']), len(M2['G']), len(M2['A'])), subf)
        return
    perm, how, why = _find_perm(M1d, M2)
    if perm is None:
        ctx.bad(K + ':coefficients:' + str(why), 'no variable renaming makes the re-read problem equal to the original to 6 '
                'significant digits (%s differ): original c=%r G|h=%r A|b=%r ; re-read labels=%r c=%r G|h=%r A|b=%r'
                % (why, M1d['c'], [r + [t] for r, t in zip(M1d['G'], M1d['h'])], [r + [t] for r, t in zip(M1d['A'], M1d['b'])],
                   [l[0] for l in M2['labels']], M2['c'], [r + [t] for r, t in zip(M2['G'], M2['h'])],
                   [r + [t] for r, t in zip(M2['A'], M2['b'])]), subf)
        return
    ctx.out('a:renaming-by-' + how)
    for j in range(M1['N']):
        for r1, r2 in ((M1d['c'][j], M2['c'][perm[j]]),):
            if r1 != 0.0:
                ctx.maxerr = max(ctx.maxerr, abs(r1 - r2) / abs(r1))
    if violated_empty:
        ctx.out('a:violated-empty-row-survived')
        return
    if not exact:
        ctx.out('a:inexact-coefficients-only')
        if hasmat:
            ctx.nontrivial += 1
        return
    # exact status and value of the linear part
    P2 = {'c': [M2['c'][perm[j]] for j in range(M1['N'])],
          'G': [[r[perm[j]] for j in range(M1['N'])] for r in M2['G']], 'h': M2['h'],
          'A': [[r[perm[j]] for j in range(M1['N'])] for r in M2['A']], 'b': M2['b']}
    r1 = lpexact.solve(M1d['c'], M1d['G'], M1d['h'], M1d['A'], M1d['b'])
    r2 = lpexact.solve(P2['c'], P2['G'], P2['h'], P2['A'], P2['b'])
    ctx.out('a:exact:' + r1['status'])
    if r1['status'] == 'optimal' or hasmat:
        ctx.nontrivial += 1
    if r1['status'] != r2['status'] or r1['value'] != r2['value']:
        ctx.bad(K + ':exact-status-or-value', 'exact LP: original %s %r, re-read %s %r'
                % (r1['status'], r1['value'], r2['status'], r2['value']), subf)
        return
    # op.solve on both
    s1 = _solve_status(lp)
    s2 = _solve_status(lp2)
    ctx.out('a:solve:' + str(s1))
    if s1.startswith('exc:') or s2.startswith('exc:'):
        # exceptions of op.solve() itself (no inequality, scalar coefficient in matrix form, rank) are the subject of
        # other properties; the two ops reach solvers.lp through different conversion paths
        if s1 != s2:
            ctx.out('a:solve-exception-differs')
        return
    if s1 != s2:
        same_data = (how != 'search' and perm == list(range(M1['N'])) and M1['G'] == M2['G'] and M1['h'] == M2['h']
                     and M1['A'] == M2['A'] and M1['b'] == M2['b'] and M1['c'] == M2['c'])
        well = False
        if not same_data and 'unknown' in (s1, s2):
            # conelp gave up on one of two differently ordered (or trivially-reduced) copies: e.g. 'Terminated (singular
            # KKT matrix)' on a degenerate vertex - a matter of the numerical solver, not of the MPS round trip
            ctx.out('a:solve-unknown-on-one-side')
            return
        if not same_data:
            cl = lpexact.classify(M1d['c'], M1d['G'], M1d['h'], M1d['A'], M1d['b'])
            well = cl['rank_ok'] and ((cl['status'] == 'optimal' and cl['strict_primal'] and cl['strict_dual'])
                                      or (cl['status'] == 'infeasible' and cl['strict_pinf_cert'])
                                      or (cl['status'] == 'unbounded' and cl['strict_dinf_ray'] and cl['strict_primal']))
        if same_data or well:
            ctx.bad(K + ':solve-status', 'op.solve(): original %r, re-read %r (exact status %s)' % (s1, s2, r1['status']), subf)
        else:
            ctx.out('a:solve-status-differs-ill-posed')


def _run_a(case, ctx):
    nk = len(case['tpl'])
    exact = case['pal'] == 'exact'
    tag = '+'.join(t for t, k in case['tpl'])
    for rot in case['rots']:
        for sp in (False, True):
            for rels in itertools.product((0, 1, 2), repeat=nk):
                sub = {'rels': list(rels), 'sparse': sp, 'rot': rot}
                try:
                    lp, hasmat = _build(case, rels, sp, rot)
                except Exception as e:
                    ctx.bad('C14:harness:build:%s' % type(e).__name__, repr(e), sub)
                    continue
                K = 'C14:roundtrip:%s%s' % (tag if nk == 1 else '%d-constraints' % nk, ':sparse' if sp else '')
                _roundtrip(ctx, lp, K, sub, exact, hasmat)


# ---------------------------------------------------------------------------------------------- (b) grammar
RVALS = [None, -2.0, 0.0, 3.0]
BCOMBOS = [[], [['LO', 3.0]], [['LO', -2.0]], [['UP', 3.0]], [['UP', -2.0]], [['UP', 0.0]],
           [['LO', -2.0], ['UP', 3.0]], [['UP', 3.0], ['LO', -2.0]], [['LO', 0.0], ['UP', -2.0]],
           [['FX', 3.0]], [['FX', -2.0]], [['FX', 0.0]], [['FR', None]], [['MI', None]],
           [['MI', None], ['UP', 3.0]], [['UP', 3.0], ['MI', None]], [['MI', None], ['UP', -2.0]],
           [['UP', -2.0], ['MI', None]], [['PL', None]], [['LO', 3.0], ['PL', None]], [['PL', None], ['LO', -2.0]],
           [['LO', 3.0], ['UP', 3.0]], [['MI', None], ['PL', None]], [['UP', 0.0], ['LO', -2.0]]]
BCOMBOS_SMALL = [0, 2, 3, 4, 9, 12, 14, 17]
COLLABELS = ['X1', 'YY2', 'COL00003']
ROWLABELS = ['R1', 'LIM2', 'ROW00003']
COEF = [1.0, -1.0, 2.0, 0.5, -3.0, 1.25, 4.0, -0.5, 1.0, 3.0, -2.0, 0.25]


def _interleavings(lists):
    """all merges of the lists preserving the order within each list."""
    lists = [l for l in lists]
    total = sum(len(l) for l in lists)

    def rec(pos, acc):
        if len(acc) == total:
            yield list(acc)
            return
        for i, l in enumerate(lists):
            if pos[i] < len(l):
                pos[i] += 1
                acc.append(l[pos[i] - 1])
                for r in rec(pos, acc):
                    yield r
                acc.pop()
                pos[i] -= 1
    return rec([0] * len(lists), [])


def _cases_b(tier, seed):
    thorough = tier == 'thorough'
    # b1: row types x ranges x rhs
    for m in (1, 2, 3):
        for types in itertools.product('LGE', repeat=m):
            for npos in ([0, m, 1, None] if m > 1 else [0, 1, None]):     # index of the N row among the rows; None = no N row
                for n2 in (0, 1):                                          # second N row declared (without entries)
                    if npos is None and n2:
                        continue
                    if not thorough and m == 3 and n2 == 1 and npos not in (0,):
                        continue
                    yield {'fam': 'b', 'sub': 'rows', 'types': ''.join(types), 'npos': npos, 'n2': n2,
                           'ncols': 1 + (m + (npos or 0)) % 3, 'style': (seed + m + n2) % 3,
                           'rhs': 'all' if thorough else 'patterns', 'rot': seed}
    # b2: bounds
    for i in range(len(BCOMBOS)):
        yield {'fam': 'b', 'sub': 'bounds', 'combos': [[i]], 'inter': 'all', 'style': seed % 3}
    for i in range(len(BCOMBOS)):
        yield {'fam': 'b', 'sub': 'bounds', 'combos': [[i, j] for j in range(len(BCOMBOS))], 'inter': 'all',
               'style': (seed + i) % 3}
    small = BCOMBOS_SMALL
    for i in small:
        for j in small:
            yield {'fam': 'b', 'sub': 'bounds', 'combos': [[i, j, k] for k in small],
                   'inter': 'all' if thorough else 'three', 'style': (seed + i + j) % 3}
    if thorough:
        for i in range(len(BCOMBOS)):
            for j in range(len(BCOMBOS)):
                yield {'fam': 'b', 'sub': 'bounds', 'combos': [[i, j, k] for k in range(len(BCOMBOS))], 'inter': 'three',
                       'style': (seed + i + j) % 3}
    # b3: presence patterns and layouts
    for m in (1, 2, 3):
        for n in (1, 2, 3):
            cells = (m + 1) * n
            if cells > (12 if thorough else 9):
                continue
            chunk = 64
            for start in range(0, 2 ** cells, chunk):
                yield {'fam': 'b', 'sub': 'cols', 'm': m, 'n': n, 'start': start, 'stop': min(2 ** cells, start + chunk),
                       'style': (seed + m + n) % 3, 'rot': seed}
    # b4: comments / blank lines ; b5: range on N rows
    for style in (0, 1, 2):
        yield {'fam': 'b', 'sub': 'comments', 'style': style}
    yield {'fam': 'b', 'sub': 'range-on-N', 'style': seed % 3}
    yield {'fam': 'b', 'sub': 'second-N', 'style': seed % 3}


def _mps_text(rows, cols, entries, rhs, ranges, bounds, style=0, layout='one', name='TESTPROB', sections='auto'):
    """rows [(label,type)], cols [labels], entries {col: [(row, val), ...]} in file order, rhs/ranges [(row,val)],
    bounds [(type, col, val)]."""
    from mc.ref import mps
    L = ['NAME          %s\n' % name, 'ROWS\n']
    for lab, t in rows:
        L.append(mps.line(t, lab))
    L.append('COLUMNS\n')
    for c in cols:
        es = entries.get(c, [])
        if layout == 'rev':
            es = es[::-1]
        i = 0
        while i < len(es):
            if layout in ('two', 'rev') and i + 1 < len(es):
                L.append(mps.line('', c, es[i][0], es[i][1], es[i + 1][0], es[i + 1][1], style=style))
                i += 2
            elif layout == 'mix' and i + 1 < len(es) and (i // 2) % 2 == 0:
                L.append(mps.line('', c, es[i][0], es[i][1], es[i + 1][0], es[i + 1][1], style=style))
                i += 2
            else:
                L.append(mps.line('', c, es[i][0], es[i][1], style=style))
                i += 1
    L.append('RHS\n')
    two = layout in ('two', 'rev')
    for sec, lab, data in (('RHS', 'RHS', rhs), ('RANGES', 'RNG', ranges)):
        if sec == 'RANGES':
            if not data and sections == 'auto':
                continue
            L.append('RANGES\n')
        i = 0
        while i < len(data):
            if two and i + 1 < len(data):
                L.append(mps.line('', lab, data[i][0], data[i][1], data[i + 1][0], data[i + 1][1], style=style))
                i += 2
            else:
                L.append(mps.line('', lab, data[i][0], data[i][1], style=style))
                i += 1
    if bounds or sections != 'auto':
        L.append('BOUNDS\n')
        for t, c, v in bounds:
            L.append(mps.line(t, 'BND', c, v, style=style) if v is not None else mps.line(t, 'BND', c))
    L.append('ENDATA\n')
    return L


def _impl_problem(lp, cols):
    """canonical rows / objective of the op read by fromfile, columns ordered as `cols` (labels)."""
    M = _extract(lp)
    names = [l[0] for l in M['labels']]
    if any(l[3] != 1 for l in M['labels']) or sorted(names) != sorted(cols):
        return None, 'variables %r, file has columns %r' % (names, cols)
    perm = [names.index(c) for c in cols]
    F = lambda v: Fr(v)
    obj = [F(M['c'][p]) for p in perm]
    rows = [('<', [F(r[p]) for p in perm], F(t)) for r, t in zip(M['G'], M['h'])]
    rows += [('=', [F(r[p]) for p in perm], F(t)) for r, t in zip(M['A'], M['b'])]
    return {'obj': obj, 'const': F(M['d']), 'rows': rows}, None


def _check_text(ctx, lines, K, sub, nontrivial=True, second_n_entries=False):
    """Read the text with fromfile and compare with the reference semantics."""
    from mc.ref import mps
    text = ''.join(lines)
    ctx.n += 1
    ctx.programs += 1
    if nontrivial:
        ctx.nontrivial += 1
    subf = dict(sub or {}, file=text)
    try:
        p = mps.parse(text)
        alts = mps.constraint_sets(p)
    except Exception as e:
        ctx.bad('C14:harness:ref-mps:%s' % type(e).__name__, repr(e), subf)
        return
    canons = [mps.canon_problem(a) for a in alts]
    infeasible_empty = any(('!',) in c for c in canons)
    path = ctx.path()
    with open(path, 'w') as f:
        f.write(text)
    flagged = 'range-on-N-row' in alts[0]['flags']
    try:
        lp, said = _quiet_fromfile(path)
    except Exception as e:
        if flagged:
            ctx.out('b:range-on-N:raises-%s' % type(e).__name__)
            return
        if isinstance(e, ValueError) and 'has no variables' in str(e) and infeasible_empty:
            ctx.out('b:rejected:violated-empty-row')
            return
        if second_n_entries and isinstance(e, KeyError):
            ctx.bad('C14:fromfile:second-N-row-with-entries:KeyError',
                    'a second N (free) row that has COLUMNS/RHS entries makes fromfile raise %r; the format defines no '
                    'constraint for it' % (e,), subf)
            return
        ctx.bad(K + ':exception:%s' % type(e).__name__, 'fromfile raised %r on a well-formed file' % (e,), subf)
        return
    if flagged:
        ctx.out('b:range-on-N:accepted')
        return
    try:
        I, err = _impl_problem(lp, p['cols'])
    except Exception as e:
        ctx.bad(K + ':extract:%s' % type(e).__name__, repr(e), subf)
        return
    if I is None:
        ctx.bad(K + ':variables', err, subf)
        return
    if I['obj'] != alts[0]['obj']:
        ctx.bad(K + ':objective-coefficients', 'objective %r, format defines %r' % ([float(v) for v in I['obj']],
                                                                                  [float(v) for v in alts[0]['obj']]), subf)
        return
    if I['const'] != alts[0]['const']:
        ctx.bad(K + ':objective-constant', 'objective constant %r, format defines %r (= minus the RHS entry of the '
                'objective row)' % (float(I['const']), float(alts[0]['const'])), subf)
        return
    ci = mps.canon(I['rows'])
    for a, cn in zip(alts, canons):
        if ci == cn:
            ctx.out('b:match' + (':dialect-alternative' if a is not alts[0] else ''))
            return
    # blame the first group of the primary reading that is not represented
    have = [mps.norm_row(*r) for r in I['rows']]
    blame = 'extra-constraints'
    for tag, g in alts[0]['groups']:
        want = mps.canon(g)
        pool = mps.canon([r for r in I['rows']])
        if not all(w in pool for w in want):
            # also accept un-merged representation
            wn = [mps.norm_row(*r) for r in g]
            if not all(w in have for w in wn if w is not None):
                blame = tag
                break
    ctx.bad('%s:%s' % (K, blame), 'constraint set differs from what the format defines (%s): got %s ; want %s'
            % (blame, _show(ci), _show(canons[0])), subf)


def _show(rows):
    out = []
    for r in rows:
        if r == ('!',):
            out.append('0<=-1')
        else:
            out.append('%s%s%g' % ([float(v) for v in r[1]], '<=' if r[0] == '<' else '==', float(r[2])))
    return '{' + '; '.join(out) + '}'


def _run_b(case, ctx):
    sub = case['sub']
    style = case.get('style', 0)
    if sub == 'rows':
        types = case['types']
        m = len(types)
        n = case['ncols']
        rot = case['rot']
        labs = ROWLABELS[:m]
        rows = [(labs[i], types[i]) for i in range(m)]
        if case['npos'] is not None:
            rows.insert(case['npos'], ('COST', 'N'))
            if case['n2']:
                rows.append(('FREE', 'N'))
        cols = COLLABELS[:n]
        entries = {}
        q = rot
        for j, c in enumerate(cols):
            es = []
            for lab, t in rows:
                if lab == 'FREE':
                    continue
                q += 1
                if (q % 5) == 4 and n > 1:
                    continue                      # absent entry
                es.append((lab, COEF[q % len(COEF)]))
            if not es:
                es.append((labs[0], 1.0))
            entries[c] = es
        if case['rhs'] == 'all':
            rhs_vecs = list(itertools.product((None, -2.0, 3.0), repeat=m))
            obj_rhs = (None, -2.0, 5.0)
        else:
            pats = [(None, None, None), (3.0, -2.0, None), (-2.0, None, 3.0)]
            rhs_vecs = [tuple(pats[(k + rot) % 3][(i + k) % 3] for i in range(m)) for k in range(3)]
            obj_rhs = (None, -2.0, 5.0)
        it = 0
        for rv in rhs_vecs:
            for rng in itertools.product(RVALS, repeat=m):
                it += 1
                orhs = obj_rhs[it % 3] if case['npos'] is not None else None
                rhs = [(labs[i], rv[i]) for i in range(m) if rv[i] is not None]
                if orhs is not None:
                    rhs.insert(it % (len(rhs) + 1), ('COST', orhs))
                ranges = [(labs[i], rng[i]) for i in range(m) if rng[i] is not None]
                layout = ('one', 'two', 'mix')[it % 3]
                lines = _mps_text(rows, cols, entries, rhs, ranges, [], style=style, layout=layout,
                                  sections='auto' if it % 2 else 'all')
                # blame key: the row types present; per-row tags are added by _check_text
                _check_text(ctx, lines, 'C14:fromfile:rows', {'types': types, 'rhs': list(rv), 'ranges': list(rng)},
                            nontrivial=bool(ranges) or orhs is not None or layout != 'one')
        return
    if sub == 'bounds':
        for combo in case['combos']:
            n = len(combo)
            cols = COLLABELS[:n]
            rows = [('COST', 'N'), ('R1', 'L')]
            entries = {c: [('COST', COEF[j]), ('R1', 1.0)] for j, c in enumerate(cols)}
            per = [[(t, cols[j], v) for t, v in BCOMBOS[ci]] for j, ci in enumerate(combo)]
            if case['inter'] == 'all':
                orders = list(_interleavings(per))
            else:
                seq = [b for l in per for b in l]
                rev = [b for l in per[::-1] for b in l]
                rr = []
                for d in range(3):
                    for l in per:
                        if d < len(l):
                            rr.append(l[d])
                orders = []
                for o in (seq, rev, rr):
                    if o not in orders:
                        orders.append(o)
            for bl in orders:
                lines = _mps_text(rows, cols, entries, [('R1', 10.0)], [], bl, style=style, sections='all' if len(bl) % 2 else 'auto')
                tag = ','.join('+'.join(t for t, v in BCOMBOS[ci]) or 'default' for ci in combo)
                _check_text(ctx, lines, 'C14:fromfile:bounds', {'bounds': [list(b) for b in bl]}, nontrivial=bool(bl))
        return
    if sub == 'cols':
        m, n = case['m'], case['n']
        labs = ROWLABELS[:m]
        types = 'LGE'[:m] if (m + n) % 2 else 'GEL'[:m]
        rows = [('COST', 'N')] + [(labs[i], types[i]) for i in range(m)]
        if n == 2:
            rows = rows[1:2] + [rows[0]] + rows[2:]
        cols = COLLABELS[:n]
        rowlabs = [r[0] for r in rows]
        for pat in range(case['start'], case['stop']):
            entries = {}
            bit = 0
            for c in cols:
                es = []
                for lab in rowlabs:
                    if (pat >> bit) & 1:
                        es.append((lab, COEF[(bit + case['rot']) % len(COEF)]))
                    bit += 1
                if es:
                    entries[c] = es
            present = [c for c in cols if c in entries]
            rhs = [(labs[i], (3.0, -2.0, 1.0)[i]) for i in range(m)]
            for layout in ('one', 'two', 'rev', 'mix'):
                if layout != 'one' and not any(len(e) > 1 for e in entries.values()):
                    continue
                lines = _mps_text(rows, present, entries, rhs, [], [], style=style, layout=layout)
                _check_text(ctx, lines, 'C14:fromfile:columns:%s' % layout, {'pattern': pat, 'layout': layout},
                            nontrivial=layout != 'one')
        return
    if sub == 'second-N':
        # a second free row WITH entries (COLUMNS in first / second position of a line, RHS)
        for m in (1, 2):
            labs = ROWLABELS[:m]
            for n in (1, 2):
                cols = COLLABELS[:n]
                for fpos in (0, 1, 2):
                    for where in ('columns-first', 'columns-second', 'rhs'):
                        rows = [('COST', 'N')] + [(labs[i], 'LG'[i]) for i in range(m)]
                        rows.insert(1 + fpos % (m + 1), ('FREE', 'N'))
                        entries = {c: [('COST', 1.0 + j)] + [(l, COEF[i + j]) for i, l in enumerate(labs)] for j, c in enumerate(cols)}
                        rhs = [(labs[i], 3.0) for i in range(m)]
                        if where == 'columns-first':
                            entries[cols[-1]] = [('FREE', 7.0)] + entries[cols[-1]]
                        elif where == 'columns-second':
                            entries[cols[0]] = entries[cols[0]][:1] + [('FREE', 7.0)] + entries[cols[0]][1:]
                        else:
                            rhs.append(('FREE', 2.0))
                        lines = _mps_text(rows, cols, entries, rhs, [], [], style=style, layout='two')
                        _check_text(ctx, lines, 'C14:fromfile:second-N', {'where': where, 'm': m, 'n': n}, second_n_entries=True)
        return
    if sub == 'comments':
        rows = [('R1', 'L'), ('COST', 'N'), ('LIM2', 'G'), ('ROW00003', 'E')]
        cols = COLLABELS
        entries = {'X1': [('R1', 1.0), ('COST', 2.0), ('ROW00003', -1.0)], 'YY2': [('COST', -1.0), ('LIM2', 3.0)],
                   'COL00003': [('R1', 0.5), ('LIM2', 1.0), ('ROW00003', 1.25)]}
        base = _mps_text(rows, cols, entries, [('R1', 3.0), ('COST', -2.0), ('LIM2', -2.0)],
                         [('R1', 3.0), ('ROW00003', -2.0)], [('UP', 'X1', 3.0), ('MI', 'YY2', None), ('UP', 'YY2', 3.0),
                                                             ('FX', 'COL00003', -2.0)], style=style, layout='two')
        _check_text(ctx, base, 'C14:fromfile:comments:none', {})
        kinds = ['* a comment line\n', '\n', '*\n', '      \n', '*ROWS\n', '* RHS       R1                9.\n']
        for pos in range(0, len(base)):
            for kind in kinds:
                lines = base[:pos] + [kind] + base[pos:]
                _check_text(ctx, lines, 'C14:fromfile:comments:%s' % ('blank' if not kind.strip() else 'star'),
                            {'pos': pos, 'kind': kind})
        for kind in kinds[:4]:
            lines = []
            for l in base:
                lines += [kind, l]
            _check_text(ctx, lines, 'C14:fromfile:comments:%s' % ('blank' if not kind.strip() else 'star'), {'everywhere': kind})
        return
    if sub == 'range-on-N':
        rows = [('COST', 'N'), ('R1', 'L')]
        entries = {'X1': [('COST', 1.0), ('R1', 1.0)]}
        for R in (-2.0, 0.0, 3.0):
            for order in (0, 1):
                rng = [('COST', R), ('R1', 3.0)] if order == 0 else [('R1', 3.0), ('COST', R)]
                for layout in ('one', 'two'):
                    lines = _mps_text(rows, ['X1'], entries, [('R1', 3.0)], rng, [], style=style, layout=layout)
                    _check_text(ctx, lines, 'C14:fromfile:range-on-N', {'R': R, 'order': order, 'layout': layout})
        return
    raise AssertionError(sub)


# ---------------------------------------------------------------------------------------------- (c) non-LPs
NONLP = ['max-obj', 'sumabs-obj', 'maxabs-obj', 'abs-con', 'max-con', 'min-con', 'pwl-obj-and-con', 'max2-obj',
         'affine-plus-max-obj', 'abs-eq-free', 'sum-max0-con', 'neg-min-obj']


def _cases_c():
    for n in (1, 2, 3):
        yield {'fam': 'c', 'n': n}


def _run_c(case, ctx):
    from cvxopt import matrix
    from cvxopt.modeling import variable, op, max as mmax, min as mmin, sum as msum
    n = case['n']
    for named in (False, True):
        for kind in NONLP:
            if n == 1 and kind in ('max-obj', 'affine-plus-max-obj', 'neg-min-obj'):
                continue            # max / min of a vector of length 1 is that element: an affine function
            x = variable(n, 'x' if named else '')
            y = variable(n, 'yy' if named else '')
            if kind == 'max-obj':
                lp = op(mmax(x), [x >= -1])
            elif kind == 'sumabs-obj':
                lp = op(msum(abs(x)), [x <= 2])
            elif kind == 'maxabs-obj':
                lp = op(mmax(abs(x - 1.25)))
            elif kind == 'abs-con':
                lp = op(msum(x), [abs(x) <= 1])
            elif kind == 'max-con':
                lp = op(-msum(x), [mmax(x, y) <= 3, y >= 0.5])
            elif kind == 'min-con':
                lp = op(msum(x), [mmin(x, 2 * y) >= 0, y == 1])
            elif kind == 'pwl-obj-and-con':
                lp = op(mmax(x), [abs(x) <= 1])
            elif kind == 'max2-obj':
                lp = op(mmax(msum(x), -2 * msum(x)), [x <= 3])
            elif kind == 'affine-plus-max-obj':
                lp = op(msum(x) + mmax(x), [x >= -2])
            elif kind == 'abs-eq-free':
                lp = op(msum(abs(x)), [msum(x) == 1])
            elif kind == 'sum-max0-con':
                lp = op(msum(x), [msum(mmax(0, x)) <= 1, x >= -1])
            else:
                lp = op(-mmin(x), [x <= 1])
            ctx.n += 1
            ctx.programs += 1
            ctx.nontrivial += 1
            path = ctx.path()
            if os.path.exists(path):
                os.unlink(path)
            sub = {'kind': kind, 'n': n, 'named': named}
            try:
                lp.tofile(path)
            except Exception as e:
                ctx.out('c:refused:' + type(e).__name__)
            else:
                ctx.bad('C14:tofile:non-LP:%s:not-refused' % kind, 'tofile returned normally for a problem with a '
                        'piecewise-linear objective or constraint', sub)
                continue
            if os.path.exists(path) and 'ENDATA' in open(path).read():
                ctx.bad('C14:tofile:non-LP:%s:file-written' % kind, 'tofile raised but left a complete MPS file', sub)


# ---------------------------------------------------------------------------------------------- (d) long names
def _cases_d():
    yield {'fam': 'd', 'what': 'variables'}
    yield {'fam': 'd', 'what': 'constraints'}


def _run_d(case, ctx):
    from cvxopt import matrix
    from cvxopt.modeling import variable, op
    for (n1, n2) in (('alphabet1', 'alphabet2'), ('abcdefg', 'abcdefh')):
        if case['what'] == 'variables':
            a, b = variable(1, n1), variable(1, n2)
            c1, c2 = (a >= 0), (b >= 1)
            c1.name, c2.name = 'c', 'dd'
        else:
            a, b = variable(1, 'x'), variable(1, 'yy')
            c1, c2 = (a >= 0), (b >= 1)
            c1.name, c2.name = n1, n2
        lp = op(a + 2 * b, [c1, c2, a + b <= 3])
        _roundtrip(ctx, lp, 'C14:roundtrip:long-names-shared-prefix:%s' % case['what'], {'names': [n1, n2]}, True)


# ---------------------------------------------------------------------------------------------- (z) zero columns
def _cases_z():
    yield {'fam': 'z'}


def _run_z(case, ctx):
    """LPs in which one component of a vector variable has no nonzero coefficient anywhere."""
    from cvxopt import matrix, sparse
    from cvxopt.modeling import variable, op, sum as msum
    for n in (2, 3):
        for named in (False, True):
            for kind in ('index', 'matrix-zero-column', 'sparse-zero-column', 'row'):
                x = variable(n, 'x' if named else '')
                if kind == 'index':
                    lp = op(x[0], [x[0] >= -1])
                else:
                    A = matrix(1.0, (2, n))
                    A[1, 0] = -1.0
                    A[:, n - 1] = 0.0
                    c = matrix(1.0, (1, n))
                    c[n - 1] = 0.0
                    if kind == 'sparse-zero-column':
                        A = sparse(A)
                    if kind == 'row':
                        A = A[0, :]
                    lp = op(c * x, [A * x <= 3, A * x >= -2])
                _roundtrip(ctx, lp, 'C14:roundtrip:zero-column-family', {'kind': kind, 'n': n, 'named': named}, True,
                           report_zero_column=True)


# ---------------------------------------------------------------------------------------------- driver
def cases(tier, seed, flavour):
    for c in _cases_c():
        yield c
    for c in _cases_d():
        yield c
    for c in _cases_z():
        yield c
    for c in _cases_b(tier, seed):
        yield c
    for c in _cases_a(tier, seed):
        yield c


def crash_key(case):
    return '%s:%s' % (case.get('fam'), case.get('sub') or '+'.join(t for t, k in case.get('tpl', [])) or case.get('what', ''))


def run(case):
    from mc import cvx          # asserts the staged build
    import cvxopt.solvers
    cvxopt.solvers.options['show_progress'] = False
    ctx = _Ctx()
    try:
        try:
            {'a': _run_a, 'b': _run_b, 'c': _run_c, 'd': _run_d, 'z': _run_z}[case['fam']](case, ctx)
        except Exception as e:
            import traceback
            ctx.bad('C14:harness:exception:%s' % type(e).__name__, traceback.format_exc()[-1500:])
    finally:
        ctx.cleanup()
    return ctx.result()
