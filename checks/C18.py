"""C18 - LAPACK wrappers return results that satisfy their defining equations."""
import itertools, os
from mc.ref import lapackeq as R
from mc.ref.lapackeq import Mat, TOL, INF

PROPERTY = 'C18'
LEVEL = 'exploration'
ENGINE = 'bex'
FLAVOURS = ('plain',)
# plain flavour under the glibc malloc checker: a byte written past the end of a heap block by the (uninstrumented) Fortran
# library aborts the process in free() and is reported as a killed interpreter
EXTRA_ENV = {'plain': {'LD_PRELOAD': '/lib/x86_64-linux-gnu/libc_malloc_debug.so.0', 'MALLOC_CHECK_': '3'}}
TECHNIQUE = 'bounded-exhaustive enumeration of wrapper arguments against defining-equation oracles'
RULE = ('every wrapper exported by cvxopt.lapack x typecode (d, z) x order / shape x every flag value '
        '(uplo, trans, diag, side, jobz, range, jobu, jobvt, itype, select) x band widths x (ld, offset) layout x '
        'optional pivot/factor argument given or omitted x every matrix of an enumerated integer pool; one case '
        'bundles all pool matrices and right-hand-side counts for one such combination.  An evaluation is one wrapper '
        'call whose outputs are pushed through the defining equation (residual / reconstruction / orthonormality / '
        'ordering), whose buffers are compared bytewise outside the documented output footprint, and whose '
        'exception class is compared with the exact (integer arithmetic) classification of the input; non-trivial = '
        'order >= 1 and the call reached LAPACK (returned a result or raised ArithmeticError).  Call histories (explicit-state, depth 2 + a displacing '
        'prefix): for every wrapper all ordered pairs (a, b) of configurations - order 3 / 4 x optional outputs given / omitted x every flag '
        'keyword given each value or omitted; b observed right after a must equal b observed in a process that has called nothing')
ASSUME = ['floating-point results are accepted within 1e-9 relative to the magnitudes involved (observed < 1e-12)',
          'an exactly singular / semidefinite input must raise ArithmeticError only when the elimination is exact in '
          'binary floating point (order <= 2 with entries 0, +-1, +-2, +-4 times 1 or i, or hand-verified fixed '
          'matrices); for other exactly singular inputs either ArithmeticError or a result is accepted',
          'strict opposite triangles are required to be untouched only where the documentation names the triangle '
          'that is overwritten (potrf, potri, posv); for sytrf/hetrf/sysv/hesv/sytri/hetri/trtri and the eigenvalue '
          'routines the opposite triangle holds junk that must not influence the result but may be overwritten',
          'contents of A after gels / syev* / gesv* with jobz=N ("destroyed") and of factors after a failed '
          'factorization are not inspected',
          'LDL^T factors of sytrf/hetrf and LU factors of gbtrf/gttrf are validated through the solve / inverse '
          'routines that consume them, not reconstructed',
          'gels is exercised on full-rank matrices only (the documentation says rank is not checked)',
          'ordered Schur forms use selection thresholds at least 1e-3 away from every eigenvalue; singular pencils '
          '(|a| + |b| < 1e-6) are excluded from ordered generalized Schur forms',
          'pbsv / pbtrs never receive offsetB in the bulk enumeration (the documented keyword kills the interpreter on '
          'the current tree; it is exercised in forked children by family pboff); when gbsv / hegv reject or misassign '
          'their documented keywords the arithmetic is still checked through the names / positions the C code uses',
          'the default of iu in syevx/syevr/heevx/heevr is not exercised (docstring and lapack.rst disagree)',
          'integer arguments near 2^31 belong to C19']
BOUNDS = {'quick': 'orders 0..2 over the full integer pools plus the fixed order-3 matrices; nrhs 0..2; 4 (ld, offset) '
                   'layouts; band widths 0..2; all flag values; gbtrf with m = n only; gels on full-rank matrices',
          'thorough': 'orders 0..3 (0..4 for eigenvalue / SVD / Schur routines); nrhs 0..2; default layout plus all '
                      '(ld - min in {0,1}) x (offset in {0,1,2}) combinations for the first two operands; band widths '
                      '0..2; all flag values; gbtrf with m = n only; gels on full-rank matrices'}

PALETTES = [(-1, 0, 1, 2), (-2, 0, 1, 2), (-1, 0, 2, 4), (-4, -1, 0, 1)]


# ============================================================================================== matrix pools
def _pal(seed, tc):
    p = PALETTES[seed % len(PALETTES)]
    if tc == 'd':
        return [float(v) for v in p]
    # complex palette: one mixed value, an exact zero, one purely imaginary value, one real value
    return [complex(p[0], p[2] if p[2] else 1), complex(p[1], 0.0) if p[1] == 0 else complex(0, 0),
            complex(0.0, p[2] if p[2] else 1), complex(p[3] if p[3] else 2, 0.0)]


def _cx(M, tc, kind='ge'):
    """complex companion of a fixed real integer matrix (exactly classified afterwards, never assumed)."""
    if tc == 'd':
        return Mat(M.m, M.n, [[float(x) for x in r] for r in M.a])
    Z = Mat(M.m, M.n)
    for i in range(M.m):
        for j in range(M.n):
            x = float(M.a[i][j])
            if kind == 'he':        # D^H M D with D = diag(1, i, 1, i, ..) : Hermitian, same inertia
                di = 1j if i % 2 else 1.0
                dj = 1j if j % 2 else 1.0
                Z.a[i][j] = complex(di).conjugate() * x * dj + 0j
            elif kind == 'sy':      # complex symmetric
                k = ((i + j) % 3) - 1
                Z.a[i][j] = complex(x, float(k))
            elif kind == 'tr':
                Z.a[i][j] = complex(x, float((i + 2 * j) % 3 - 1)) if x != 0 else 0j
            else:
                Z.a[i][j] = complex(x, float((i + 2 * j) % 3 - 1))
    return Z


# fixed order-3/4 matrices (rows)
F_GE3 = [[[2, 1, 0], [1, -1, 2], [0, 2, 1]],            # well conditioned
         [[0, 2, 1], [1, 1, -1], [2, -1, 0]],           # needs row exchanges
         [[1, 2, -1], [2, 0, 1], [-1, 1, 2]]]
F_GE3_SING = [[[1, 2, 0], [2, 4, 0], [0, 0, 1]],        # exactly singular, exact elimination (hand-verified)
              [[1, 0, 1], [0, 2, 2], [1, 2, 4 - 1]],
              [[0, 0, 0], [0, 1, 0], [0, 0, 1]]]
F_PD3 = [[[2, -1, 0], [-1, 2, -1], [0, -1, 2]],          # tridiagonal / banded SPD
         [[4, 1, 2], [1, 2, 0], [2, 0, 4]]]
F_SY3 = [[[0, 1, 2], [1, 0, -1], [2, -1, 1]],            # indefinite, zero diagonal (2x2 pivots)
         [[1, 2, 0], [2, -1, 1], [0, 1, 2]]]
F_SY3_SING = [[[1, 1, 0], [1, 1, 0], [0, 0, 2]]]
F_TR3 = [[[2, 0, 0], [1, -1, 0], [-1, 2, 1]],
         [[1, 0, 0], [2, 2, 0], [0, 1, -2]]]
F_TR3_SING = [[[1, 0, 0], [2, 0, 0], [1, 1, 2]]]
F_GT3 = [[[2, 1, 0], [1, 2, 1], [0, 1, 2]],
         [[0, 1, 0], [2, 1, -1], [0, 2, 1]]]              # zero leading entry: pivoting inside gttrf
F_GT3_SING = [[[1, 1, 0], [1, 1, 0], [0, 1, 2 - 2]]]
F_HE3Z = [[2, 1 - 1j, 0], [1 + 1j, 3, 1j], [0, -1j, 2]]   # genuinely complex Hermitian positive definite
F_GE4 = [[[1, 2, 0, -1], [0, 1, 2, 1], [2, -1, 1, 0], [1, 0, -1, 2]],
         [[0, -1, 0, 0], [1, 0, 0, 0], [0, 0, 2, 1], [0, 0, 0, -1]]]   # complex-conjugate eigenvalue pair
F_SY4 = [[[2, 1, 0, 0], [1, 2, 1, 0], [0, 1, 2, 1], [0, 0, 1, 2]],
         [[4, 1, -2, 2], [1, 2, 0, 1], [-2, 0, 3, -2], [2, 1, -2, -1]]]
F_RECT = {(3, 1): [[[1], [2], [-1]]], (1, 3): [[[1, -1, 2]]],
          (3, 2): [[[1, 0], [1, 1], [-1, 2]], [[2, 1], [0, 1], [1, -1]]],
          (2, 3): [[[1, 1, -1], [0, 1, 2]], [[2, 0, 1], [1, 1, -1]]],
          (4, 2): [[[1, 0], [1, 1], [1, 2], [1, -1]]], (2, 4): [[[1, 1, 1, 1], [0, 1, 2, -1]]],
          (4, 3): [[[1, 0, 1], [1, 1, 0], [1, 2, -1], [1, -1, 2]]], (3, 4): [[[1, 1, 1, 1], [0, 1, 2, -1], [1, 0, 2, 1]]],
          (4, 1): [[[1], [-1], [2], [0]]], (1, 4): [[[2, 0, -1, 1]]]}


def _all_over(pal, m, n):
    for vals in itertools.product(pal, repeat=m * n):
        yield Mat(m, n, [[vals[i * n + j] for j in range(n)] for i in range(m)])


_POOL_CACHE = {}


def pool(kind, m, n, tc, seed):
    """Enumerated matrix pools.  kinds: ge (m x n general), sy (symmetric), he (Hermitian; = sy for 'd'),
    tr (lower triangular, caller transposes), gt (tridiagonal)."""
    key = (kind, m, n, tc, seed % len(PALETTES))
    if key in _POOL_CACHE:
        return _POOL_CACHE[key]
    pal = _pal(seed, tc)
    rpal = [float(v) for v in PALETTES[seed % len(PALETTES)]]
    out = []
    if m == 0 or n == 0:
        out = [Mat(m, n)]
    elif kind == 'ge':
        if m <= 2 and n <= 2:
            out = list(_all_over(pal, m, n))
        elif m == n == 3:
            out = [_cx(Mat.rows(r), tc) for r in F_GE3 + F_GE3_SING]
        elif m == n == 4:
            out = [_cx(Mat.rows(r), tc) for r in F_GE4]
        else:
            out = [_cx(Mat.rows(r), tc) for r in F_RECT.get((m, n), [])]
    elif kind in ('sy', 'he'):
        herm = (kind == 'he')
        if n == 1:
            out = [Mat(1, 1, [[v]]) for v in ((rpal if tc == 'd' else [complex(v) for v in rpal]) if herm else pal)]
        elif n == 2:
            dpal = (rpal if tc == 'd' else [complex(v) for v in rpal]) if herm else pal
            for a in dpal:
                for b in pal:
                    for c in dpal:
                        out.append(Mat(2, 2, [[a, R._cj(b) if herm else b], [b, c]]))
        elif n == 3:
            out = [_cx(Mat.rows(r), tc, kind) for r in F_PD3 + F_SY3 + F_SY3_SING]
            if tc == 'z' and herm:
                out.append(Mat.rows(F_HE3Z))
        elif n == 4:
            out = [_cx(Mat.rows(r), tc, kind) for r in F_SY4]
    elif kind == 'tr':
        if n == 1:
            out = [Mat(1, 1, [[v]]) for v in pal]
        elif n == 2:
            for a in pal:
                for b in pal:
                    for c in pal:
                        out.append(Mat(2, 2, [[a, 0.0 * a], [b, c]]))
        elif n == 3:
            out = [_cx(Mat.rows(r), tc, 'tr') for r in F_TR3 + F_TR3_SING]
    elif kind == 'gt':
        if n <= 2:
            out = list(_all_over(pal, n, n))
        elif n == 3:
            out = [_cx(R.band_mask(Mat.rows(r), 1, 1), tc, 'tr') for r in F_GT3 + F_GT3_SING]
    _POOL_CACHE[key] = out
    return out


def rhs(n, nrhs, tc):
    """fixed integer right-hand sides (no zero column)"""
    B = Mat(n, nrhs)
    for i in range(n):
        for j in range(nrhs):
            v = float(((i + 1) * (j + 2) + j) % 5 - 2) or 3.0
            B.a[i][j] = complex(v, float((i + j) % 3 - 1)) if tc == 'z' else v
    return B


def lu_expect(A, hand_exact=False):
    if not R.is_singular(A):
        return 'ok'
    if hand_exact or (A.n <= 2 and R.dyadic_safe(A)):
        return 'arith'
    return 'either'


_HAND_SING = None


def _is_hand_singular(A):
    """the fixed exactly singular order-3 matrices (real versions) are hand-verified to eliminate exactly"""
    global _HAND_SING
    if _HAND_SING is None:
        _HAND_SING = [Mat.rows(r).tolist() for r in F_GE3_SING + F_SY3_SING + F_TR3_SING + F_GT3_SING]
        _HAND_SING = [[[float(x) for x in row] for row in m] for m in _HAND_SING]
    return A.tolist() in _HAND_SING


def chol_expect(Af):
    c = R.chol_class(Af)
    if c == 'pd':
        return 'ok'
    if c == 'notpd':
        return 'arith'
    # boundary: exact zero pivot is guaranteed only if no rounded square root precedes it
    if Af.n == 1 or R.det_exact(Af.sub(0, 1, 0, 1))[0] == 0:
        return 'arith'
    if Af.n == 2 and R.det_exact(Af.sub(0, 1, 0, 1)) in ((1, 0), (4, 0)) and R.dyadic_safe(Af):
        return 'arith'
    return 'either'


# ============================================================================================ buffers / context
def _sent(tc, k):
    if tc == 'd':
        return 1000.25 + k
    if tc == 'z':
        return complex(1000.25 + k, -(500.5 + k))
    return -7000 - k


_ESZ = {'d': 8, 'z': 16, 'i': 8}


def _raw(M):
    """memory image (column-major order) of a dense matrix"""
    return memoryview(M).tobytes('F')


class Arr(object):
    """An r x c operand stored in a cvxopt matrix.
    lay None : the matrix has exactly shape (r, c) (the wrapper's defaults for dimensions/ld/offset apply)
    lay (dld, off) : a flat buffer; element (i, j) lives at off + j*ld + i with ld = max(1, r) + dld; everything
                     else (including `tail` trailing elements) is filled with distinct sentinels."""

    def __init__(self, tc, r, c, data=None, lay=None, tail=2, junk=None):
        from cvxopt import matrix
        self.tc, self.r, self.c, self.lay = tc, r, c, lay
        if lay is None:
            self.ld, self.off = max(1, r), 0
            L = r * c
            self.shape = (r, c)
        elif lay == 'tall':
            # a matrix with two rows more than the operand and NO ld / offset keywords: the wrapper's default leading
            # dimension is this matrix's own row count, the operand sits in its leading r rows
            self.ld, self.off = max(1, r) + 2, 0
            L = self.ld * c
            self.shape = (self.ld, c)
        else:
            self.ld, self.off = max(1, r) + lay[0], lay[1]
            # layouts with an offset end exactly with the operand (the minimal length the documentation requires);
            # the others carry `tail` trailing sentinels
            if lay[1] > 0 and c > 0 and r > 0:
                tail = 0
            L = self.off + ((c - 1) * self.ld + r if (c > 0 and r > 0) else 0) + tail
            self.shape = (L, 1)
        flat = [_sent(tc, k) for k in range(L)]
        self.inside = set()
        for j in range(c):
            for i in range(r):
                k = self.off + j * self.ld + i if lay is not None else j * r + i
                self.inside.add(k)
                if data is not None:
                    flat[k] = data.a[i][j]
        if tc == 'i':
            flat = [int(v) for v in flat]
        self.M = matrix(flat, self.shape, tc) if L else matrix(0 if tc == 'i' else 0.0, self.shape, tc)
        self.raw0 = _raw(self.M) if L else b''
        self.L = L

    def idx(self, i, j):
        return self.off + j * self.ld + i if self.lay is not None else j * self.r + i

    def mat(self):
        f = list(self.M)
        return Mat(self.r, self.c, [[f[self.idx(i, j)] for j in range(self.c)] for i in range(self.r)])

    def vec(self, k=None):
        f = list(self.M)
        return [f[self.idx(i, 0)] for i in range(self.r if k is None else k)]

    def _diffs(self):
        raw = _raw(self.M) if self.L else b''
        if raw == self.raw0:
            return []
        e = _ESZ[self.tc]
        return [k for k in range(self.L) if raw[k * e:(k + 1) * e] != self.raw0[k * e:(k + 1) * e]]

    def changed_outside(self, also=()):
        """indices changed outside the r x c footprint, or inside it at the (i, j) pairs listed in `also`."""
        d = self._diffs()
        if not d:
            return []
        prot = set(self.idx(i, j) for (i, j) in also)
        return [k for k in d if k not in self.inside or k in prot]

    def changed_any(self):
        return self._diffs()

    def kw(self, name):
        """ld / offset keywords (only for explicit layouts)"""
        if self.lay is None or self.lay == 'tall':
            return {}
        return {'ld' + name: self.ld, 'offset' + name: self.off}

    def kwo(self, name):
        if self.lay is None or self.lay == 'tall':
            return {}
        return {'offset' + name: self.off}


def strict_other(n, uplo):
    """(i, j) pairs of the strict triangle opposite to uplo"""
    return [(i, j) for i in range(n) for j in range(n) if (uplo == 'L' and i < j) or (uplo == 'U' and i > j)]


def junk_other(A, uplo, tc, diag=False):
    """copy of square A whose strict opposite triangle (and diagonal if `diag`) holds distinct junk values"""
    J = A.copy()
    for i in range(A.n):
        for j in range(A.n):
            if (uplo == 'L' and i < j) or (uplo == 'U' and i > j) or (diag and i == j):
                v = 37.5 + 3 * i + 7 * j
                J.a[i][j] = complex(v, -v / 2) if tc == 'z' else v
    return J


KEYCAP = 4
_REPORTED = {}


class Ctx(object):
    def __init__(self, case):
        self.case = case
        self.n = 0
        self.nontrivial = 0
        self.viol = []
        self.keys = {}
        self.maxerr = {}
        self.outcomes = {}
        self.suppressed = 0
        self.live = True                 # False while a family issues calls with nrhs = 0
        self.case_live = not any(case.get(k) == 0 for k in ('n', 'm'))
        self.states = self.transitions = 0      # call-history family only

    def count(self, label, nontrivial=True):
        self.n += 1
        if nontrivial and self.live and self.case_live:
            self.nontrivial += 1
        self.outcomes[label] = self.outcomes.get(label, 0) + 1

    def bad(self, key, msg, sub=None):
        """record a violation.  The number of *entries* per key is capped per worker process (the engine stops a
        worker after 200 entries); every further occurrence is still counted in extra['suppressed_violation_entries']."""
        key = 'C18:' + key
        c = self.keys.get(key, 0)
        self.keys[key] = c + 1
        g = _REPORTED.get(key, 0)
        if c < 1 and g < KEYCAP:
            _REPORTED[key] = g + 1
            self.viol.append({'key': key, 'msg': msg, 'sub': sub})
        else:
            self.suppressed += 1

    def err(self, cls, e, key, what, sub=None, tol=TOL):
        """record a relative error of tolerance class `cls`; violation if it exceeds tol"""
        if e == e and e != INF and e > self.maxerr.get(cls, -1.0):
            self.maxerr[cls] = e
        if not e <= tol:
            self.bad(key, '%s: relative error %.3g exceeds %.1g' % (what, e, tol), sub)
            return False
        return True

    def unchanged(self, arr, key, what, sub=None, also=()):
        d = arr.changed_outside(also)
        if d:
            self.bad(key, '%s: %d element(s) outside the documented output footprint changed (first flat index %d of %d)'
                     % (what, len(d), d[0], arr.L), sub)
            return False
        return True

    def untouched(self, arr, key, what, sub=None):
        d = arr.changed_any()
        if d:
            self.bad(key, '%s was modified (%d element(s), first flat index %d)' % (what, len(d), d[0]), sub)
            return False
        return True

    def call(self, fname, fn, args, kwargs, expect, keybase, sub=None):
        """Call a wrapper. expect in ok / arith / either / reject.  Returns ('ok', value) | ('arith', None) |
        ('bad', None).  'bad' means a violation was recorded (or the call was legitimately rejected)."""
        try:
            v = fn(*args, **kwargs)
        except ArithmeticError as e:
            if expect in ('arith', 'either'):
                self.count(fname + ':ArithmeticError')
                return ('arith', None)
            self.count(fname + ':unexpected-exception')
            self.bad(keybase + ':unexpected-ArithmeticError', '%s raised ArithmeticError(%s) on an input that is '
                     'exactly nonsingular / positive definite' % (fname, e), sub)
            return ('bad', None)
        except (TypeError, ValueError) as e:
            if expect == 'reject':
                self.count(fname + ':rejected', False)
                return ('reject', None)
            self.count(fname + ':unexpected-exception')
            kind = 'singular-input-raised-' if expect in ('arith', 'either') else 'valid-input-raised-'
            self.bad(keybase + ':' + kind + type(e).__name__, '%s raised %s(%s); expected %s' %
                     (fname, type(e).__name__, e, 'ArithmeticError' if expect in ('arith', 'either') else 'a result'), sub)
            return ('bad', None)
        if expect == 'arith':
            self.count(fname + ':missing-exception')
            self.bad(keybase + ':singular-input-accepted', '%s returned normally on an exactly singular / not positive '
                     'definite input; ArithmeticError expected' % fname, sub)
            return ('bad', None)
        if expect == 'reject':
            self.count(fname + ':missing-exception', False)
            self.bad(keybase + ':inconsistent-arguments-accepted', '%s accepted size-inconsistent arguments' % fname, sub)
            return ('bad', None)
        if expect == 'either':
            self.count(fname + ':ill-posed-accepted')
            return ('skip', v)
        self.count(fname + ':ok', True)
        return ('ok', v)

    def result(self):
        return {'n': self.n, 'nontrivial': self.nontrivial, 'viol': self.viol, 'maxerr': self.maxerr,
                'outcomes': self.outcomes, 'extra': {'suppressed_violation_entries': self.suppressed},
                'states': self.states, 'transitions': self.transitions, 'traces': self.transitions}


def lays1(tier):
    if tier == 'thorough':
        return [None] + [(d, o) for d in (0, 1) for o in (0, 1, 2)]
    return [None, (0, 0), (1, 1), (0, 2)]


def lays2(tier):
    if tier == 'thorough':
        one = [(d, o) for d in (0, 1) for o in (0, 1, 2)]
        return [None] + [(a, b) for a in one for b in one]
    return [None, ((0, 0), (0, 0)), ((1, 1), (1, 2)), ((0, 2), (1, 0))]


def _third(lay, k=1):
    """derived layout for a third / fourth operand"""
    if lay is None:
        return None
    a, b = lay
    return ((a[0] + b[0] + k) % 2, (a[1] + 2 * b[1] + k) % 3)


def orders(tier, big=False):
    if tier == 'thorough':
        return [0, 1, 2, 3, 4] if big else [0, 1, 2, 3]
    return [0, 1, 2, 3]


FAMILIES = {}
CASEGENS = []


def family(name):
    def deco(f):
        FAMILIES[name] = f
        return f
    return deco


def _sub(A=None, **kw):
    d = dict(kw)
    if A is not None:
        d['A'] = A.tolist()
    return d


# =================================================================================== general dense: ge family
def _lay2(case):
    lay = case.get('lay')
    if lay is None:
        return None, None, None
    a, b = tuple(lay[0]), tuple(lay[1])
    return a, b, (a, b)


def _part(mats, case):
    return mats[case.get('part', 0)::case.get('parts', 1)]


DRV = 1e-7      # two mathematically equal solutions of a system with condition number <= 1e3


@family('ge')
def fam_ge(case, c):
    """gesv (ipiv omitted / given), getrf, getrs (N, T, C), getri on square matrices."""
    from cvxopt import lapack
    tc, n, seed = case['tc'], case['n'], case['seed']
    layA, layB, lay = _lay2(case)
    for A0 in _part(pool('ge', n, n, tc, seed), case):
        exp = lu_expect(A0, _is_hand_singular(A0))
        sub = _sub(A0, tc=tc, lay=lay)
        X1 = {}
        for nrhs in (0, 1, 2):
            c.live = nrhs > 0
            B0 = rhs(n, nrhs, tc)
            dims = {} if lay is None else {'n': n, 'nrhs': nrhs}
            live = n > 0 and nrhs > 0
            # ---- gesv without ipiv: A must stay bytewise unchanged
            A = Arr(tc, n, n, A0, layA); B = Arr(tc, n, nrhs, B0, layB)
            kw = dict(dims); kw.update(A.kw('A')); kw.update(B.kw('B'))
            st, _ = c.call('gesv', lapack.gesv, (A.M, B.M), kw, exp if live else 'ok', 'gesv:no-ipiv', sub)
            c.untouched(A, 'gesv:no-ipiv:A-modified', 'A after gesv(A, B) without ipiv', sub)
            c.unchanged(B, 'gesv:footprint:B', 'B after gesv', sub)
            if st == 'ok' and live:
                X1[nrhs] = B.mat()
                c.err('solve', R.resid(A0, X1[nrhs], B0), 'gesv:no-ipiv:residual', 'A X = B after gesv without ipiv', sub)
            elif st == 'ok':
                c.untouched(B, 'gesv:empty-problem-modified-B', 'B after gesv with n*nrhs = 0', sub)
            # ---- gesv with ipiv
            A = Arr(tc, n, n, A0, layA); B = Arr(tc, n, nrhs, B0, layB); P = Arr('i', n + 1, 1)
            st, _ = c.call('gesv', lapack.gesv, (A.M, B.M, P.M), kw, exp if live else 'ok', 'gesv:ipiv', sub)
            c.unchanged(A, 'gesv:footprint:A', 'A after gesv with ipiv', sub)
            c.unchanged(B, 'gesv:footprint:B', 'B after gesv with ipiv', sub)
            if P.vec()[n] != _sent('i', n):
                c.bad('gesv:footprint:ipiv', 'ipiv[n] was overwritten', sub)
            if st == 'ok' and live:
                X2 = B.mat()
                c.err('solve', R.resid(A0, X2, B0), 'gesv:ipiv:residual', 'A X = B after gesv with ipiv', sub)
                c.err('factor', R.lu_err(A.mat(), P.vec(n), A0), 'gesv:ipiv:reconstruction',
                      'P L U = A from gesv (ipiv=%r)' % (P.vec(n),), sub)
                if nrhs in X1:
                    c.err('driver-eq', R.diff(X2, X1[nrhs], max(1.0, X1[nrhs].nrm())), 'gesv:ipiv-vs-no-ipiv',
                          'gesv with and without ipiv give different X', sub, DRV)
        # ---- getrf
        A = Arr(tc, n, n, A0, layA); P = Arr('i', n + 1, 1)
        kwf = ({} if lay is None else {'m': n, 'n': n}); kwf.update(A.kw('A'))
        stf, _ = c.call('getrf', lapack.getrf, (A.M, P.M), kwf, exp if n > 0 else 'ok', 'getrf', sub)
        c.unchanged(A, 'getrf:footprint:A', 'A after getrf', sub)
        if P.vec()[n] != _sent('i', n):
            c.bad('getrf:footprint:ipiv', 'ipiv[min(m,n)] was overwritten', sub)
        if stf != 'ok':
            continue
        if n > 0:
            c.err('factor', R.lu_err(A.mat(), P.vec(n), A0), 'getrf:reconstruction',
                  'P L U = A (ipiv=%r)' % (P.vec(n),), sub)
        # ---- getrs
        Fraw = bytes(memoryview(A.M)); Praw = bytes(memoryview(P.M))
        for nrhs in (0, 1, 2):
            c.live = nrhs > 0
            B0 = rhs(n, nrhs, tc)
            dims = {} if lay is None else {'n': n, 'nrhs': nrhs}
            for trans in ('N', 'T', 'C'):
                B = Arr(tc, n, nrhs, B0, layB)
                kw = dict(dims); kw.update(A.kw('A')); kw.update(B.kw('B'))
                if trans != 'N' or lay is not None:
                    kw['trans'] = trans
                st, _ = c.call('getrs', lapack.getrs, (A.M, P.M, B.M), kw, 'ok', 'getrs', sub)
                if bytes(memoryview(A.M)) != Fraw or bytes(memoryview(P.M)) != Praw:
                    c.bad('getrs:input-modified', 'getrs modified the factor or ipiv', sub)
                c.unchanged(B, 'getrs:footprint:B', 'B after getrs', sub)
                if st == 'ok' and n > 0 and nrhs > 0:
                    X = B.mat()
                    c.err('solve', R.resid(A0.op(trans), X, B0), 'getrs:residual:trans=' + trans,
                          'op(A) X = B after getrf + getrs(trans=%s)' % trans, sub)
                    if trans == 'N' and nrhs in X1:
                        c.err('driver-eq', R.diff(X, X1[nrhs], max(1.0, X1[nrhs].nrm())),
                              'getrs:factor-then-solve-vs-gesv', 'getrf + getrs differs from gesv', sub, DRV)
        # ---- getri
        kw = ({} if lay is None else {'n': n}); kw.update(A.kw('A'))
        st, _ = c.call('getri', lapack.getri, (A.M, P.M), kw, 'ok', 'getri', sub)
        c.unchanged(A, 'getri:footprint:A', 'A after getri', sub)
        if bytes(memoryview(P.M)) != Praw:
            c.bad('getri:input-modified', 'getri modified ipiv', sub)
        if st == 'ok' and n > 0:
            c.err('inverse', R.inverse_err(A0, A.mat()), 'getri:inverse', 'A * getri(A) = I', sub)


def cases_ge(tier, seed):
    for tc in 'dz':
        for n in orders(tier):
            for lay in lays2(tier):
                parts = 4 if n == 2 else 1
                for p in range(parts):
                    yield {'f': 'ge', 'tc': tc, 'n': n, 'lay': lay, 'seed': seed, 'part': p, 'parts': parts}


CASEGENS.append(cases_ge)


# ========================================================================== getrf on rectangular matrices
@family('getrf')
def fam_getrf(case, c):
    from cvxopt import lapack
    tc, m, n, seed = case['tc'], case['m'], case['n'], case['seed']
    lay = None if case.get('lay') is None else tuple(case['lay'])
    k = min(m, n)
    for A0 in _part(pool('ge', m, n, tc, seed), case):
        sub = _sub(A0, tc=tc, lay=lay)
        lead = A0.sub(0, m, 0, k)
        if k == 0 or R.rank_exact(lead) == k:
            exp = 'ok'
        else:
            exp = 'arith' if (max(m, n) <= 2 and R.dyadic_safe(A0)) else 'either'
        A = Arr(tc, m, n, A0, lay); P = Arr('i', k + 1, 1)
        kw = ({} if lay is None else {'m': m, 'n': n}); kw.update(A.kw('A'))
        st, _ = c.call('getrf', lapack.getrf, (A.M, P.M), kw, exp, 'getrf', sub)
        c.unchanged(A, 'getrf:footprint:A', 'A after getrf', sub)
        if P.vec()[k] != _sent('i', k):
            c.bad('getrf:footprint:ipiv', 'ipiv[min(m,n)] was overwritten', sub)
        if st == 'ok' and k > 0:
            c.err('factor', R.lu_err(A.mat(), P.vec(k), A0), 'getrf:reconstruction',
                  'P L U = A for %d x %d (ipiv=%r)' % (m, n, P.vec(k)), sub)


def cases_getrf(tier, seed):
    for tc in 'dz':
        for m in orders(tier):
            for n in orders(tier):
                if m != n:
                    for lay in lays1(tier):
                        yield {'f': 'getrf', 'tc': tc, 'm': m, 'n': n, 'lay': lay, 'seed': seed}


CASEGENS.append(cases_getrf)


# ================================================================================== general band: gb family
def _junkfill(tc):
    def f(i, j):
        v = 61.5 + 5 * i + 11 * j
        return complex(v, v / 4) if tc == 'z' else v
    return f


def _dedupe(mats):
    seen, out = set(), []
    for M in mats:
        k = repr(M.a)
        if k not in seen:
            seen.add(k)
            out.append(M)
    return out


@family('gb')
def fam_gb(case, c):
    """gbsv (ipiv omitted / given), gbtrf, gbtrs (N, T, C)."""
    from cvxopt import lapack
    tc, n, kl, ku, seed = case['tc'], case['n'], case['kl'], case['ku'], case['seed']
    layA, layB, lay = _lay2(case)
    mats = _dedupe([R.band_mask(M, kl, ku) for M in pool('ge', n, n, tc, seed)])
    rows1, rows2 = kl + ku + 1, 2 * kl + ku + 1
    offA, offB = 'offsetA', 'offsetB'
    if lay is not None:
        try:        # the documented keyword names are offsetA / offsetB
            lapack.gbsv(Arr(tc, 1, 1, rhs(1, 1, tc), (0, 0)).M, 0, Arr(tc, 1, 1, rhs(1, 1, tc), (0, 0)).M,
                        ku=0, n=1, nrhs=1, offsetA=0, offsetB=0)
            c.count('gbsv:ok')
        except TypeError as e:
            c.count('gbsv:keyword-rejected')
            if 'keyword' in str(e):
                c.bad('gbsv:documented-keyword-rejected:offsetA/offsetB', 'gbsv(..., offsetA=0, offsetB=0) '
                      'raises TypeError(%s); the docstring documents offsetA and offsetB' % e)
                offA, offB = 'oA', 'oB'      # names used by the C code: keep checking the arithmetic behind them
            else:
                c.bad('gbsv:valid-input-raised-TypeError', 'gbsv(1x1 system with offsets 0) raised %s' % e)
    for A0 in _part(mats, case):
        exp = lu_expect(A0, _is_hand_singular(A0))
        sub = _sub(A0, tc=tc, kl=kl, ku=ku, lay=lay)
        X1 = {}
        AB1 = R.gb_pack(A0, kl, ku, 0, _junkfill(tc))
        AB2 = R.gb_pack(A0, kl, ku, kl, _junkfill(tc))
        for nrhs in (0, 1, 2):
            c.live = nrhs > 0
            B0 = rhs(n, nrhs, tc)
            live = n > 0 and nrhs > 0
            for with_ipiv in (False, True):
                A = Arr(tc, rows2 if with_ipiv else rows1, n, AB2 if with_ipiv else AB1, layA)
                B = Arr(tc, n, nrhs, B0, layB)
                P = Arr('i', n + 1, 1)
                args = (A.M, kl, B.M) + ((P.M,) if with_ipiv else ())
                kw = {}
                if lay is not None:
                    kw = {'ku': ku, 'n': n, 'nrhs': nrhs, 'ldA': A.ld, 'ldB': B.ld, offA: A.off, offB: B.off}
                tag = 'gbsv:ipiv' if with_ipiv else 'gbsv:no-ipiv'
                st, _ = c.call('gbsv', lapack.gbsv, args, kw, exp if live else 'ok', tag, sub)
                if with_ipiv:
                    c.unchanged(A, 'gbsv:footprint:A', 'A after gbsv with ipiv', sub)
                    if P.vec()[n] != _sent('i', n):
                        c.bad('gbsv:footprint:ipiv', 'ipiv[n] was overwritten', sub)
                else:
                    c.untouched(A, 'gbsv:no-ipiv:A-modified', 'A after gbsv(A, kl, B) without ipiv', sub)
                c.unchanged(B, 'gbsv:footprint:B', 'B after gbsv', sub)
                if st == 'ok' and live:
                    X = B.mat()
                    c.err('solve', R.resid(A0, X, B0), tag + ':residual', 'A X = B after gbsv', sub)
                    if with_ipiv and nrhs in X1:
                        c.err('driver-eq', R.diff(X, X1[nrhs], max(1.0, X1[nrhs].nrm())), 'gbsv:ipiv-vs-no-ipiv',
                              'gbsv with and without ipiv give different X', sub, DRV)
                    if not with_ipiv:
                        X1[nrhs] = X
                elif st == 'ok':
                    c.untouched(B, 'gbsv:empty-problem-modified-B', 'B after gbsv with n*nrhs = 0', sub)
        # ---- gbtrf + gbtrs
        A = Arr(tc, rows2, n, AB2, layA); P = Arr('i', n + 1, 1)
        kw = ({} if lay is None else {'n': n, 'ku': ku}); kw.update(A.kw('A'))
        stf, _ = c.call('gbtrf', lapack.gbtrf, (A.M, n, kl, P.M), kw, exp if n > 0 else 'ok', 'gbtrf', sub)
        c.unchanged(A, 'gbtrf:footprint:A', 'A after gbtrf', sub)
        if P.vec()[n] != _sent('i', n):
            c.bad('gbtrf:footprint:ipiv', 'ipiv[n] was overwritten', sub)
        if stf != 'ok':
            continue
        Fraw = bytes(memoryview(A.M)); Praw = bytes(memoryview(P.M))
        for nrhs in (0, 1, 2):
            c.live = nrhs > 0
            B0 = rhs(n, nrhs, tc)
            for trans in ('N', 'T', 'C'):
                B = Arr(tc, n, nrhs, B0, layB)
                kw = ({} if lay is None else {'n': n, 'ku': ku, 'nrhs': nrhs}); kw.update(A.kw('A')); kw.update(B.kw('B'))
                if trans != 'N' or lay is not None:
                    kw['trans'] = trans
                st, _ = c.call('gbtrs', lapack.gbtrs, (A.M, kl, P.M, B.M), kw, 'ok', 'gbtrs', sub)
                if bytes(memoryview(A.M)) != Fraw or bytes(memoryview(P.M)) != Praw:
                    c.bad('gbtrs:input-modified', 'gbtrs modified the factor or ipiv', sub)
                c.unchanged(B, 'gbtrs:footprint:B', 'B after gbtrs', sub)
                if st == 'ok' and n > 0 and nrhs > 0:
                    X = B.mat()
                    c.err('solve', R.resid(A0.op(trans), X, B0), 'gbtrs:residual:trans=' + trans,
                          'op(A) X = B after gbtrf + gbtrs(trans=%s)' % trans, sub)
                    if trans == 'N' and nrhs in X1:
                        c.err('driver-eq', R.diff(X, X1[nrhs], max(1.0, X1[nrhs].nrm())),
                              'gbtrs:factor-then-solve-vs-gbsv', 'gbtrf + gbtrs differs from gbsv', sub, DRV)


def cases_gb(tier, seed):
    for tc in 'dz':
        for n in orders(tier):
            for kl in (0, 1, 2):
                for ku in (0, 1, 2):
                    for lay in lays2(tier):
                        yield {'f': 'gb', 'tc': tc, 'n': n, 'kl': kl, 'ku': ku, 'lay': lay, 'seed': seed}


CASEGENS.append(cases_gb)


# ============================================================================ general tridiagonal: gt family
@family('gt')
def fam_gt(case, c):
    """gtsv, gttrf, gttrs"""
    from cvxopt import lapack
    tc, n, seed = case['tc'], case['n'], case['seed']
    layA, layB, lay = _lay2(case)
    n1, n2 = max(n - 1, 0), max(n - 2, 0)
    # offsets of dl, d, du derived from the layout
    if lay is None:
        ldl = ld_ = ldu = None
    else:
        ldl, ld_, ldu = (0, layA[1]), (0, layB[1]), (0, (layA[1] + layB[1] + 1) % 3)

    def vecs(A0):
        dl = Mat(n1, 1, [[A0.a[i + 1][i]] for i in range(n1)])
        d = Mat(n, 1, [[A0.a[i][i]] for i in range(n)])
        du = Mat(n1, 1, [[A0.a[i][i + 1]] for i in range(n1)])
        return Arr(tc, n1, 1, dl, ldl), Arr(tc, n, 1, d, ld_), Arr(tc, n1, 1, du, ldu)

    def okw(DL, D, DU):
        return {} if lay is None else {'offsetdl': DL.off, 'offsetd': D.off, 'offsetdu': DU.off}

    for A0 in _part(pool('gt', n, n, tc, seed), case):
        exp = lu_expect(A0, _is_hand_singular(A0))
        sub = _sub(A0, tc=tc, lay=lay)
        X1 = {}
        for nrhs in (0, 1, 2):
            c.live = nrhs > 0
            B0 = rhs(n, nrhs, tc)
            live = n > 0 and nrhs > 0
            DL, D, DU = vecs(A0); B = Arr(tc, n, nrhs, B0, layB)
            kw = ({} if lay is None else {'n': n, 'nrhs': nrhs}); kw.update(okw(DL, D, DU)); kw.update(B.kw('B'))
            st, _ = c.call('gtsv', lapack.gtsv, (DL.M, D.M, DU.M, B.M), kw, exp if live else 'ok', 'gtsv', sub)
            for nm, v in (('dl', DL), ('d', D), ('du', DU), ('B', B)):
                c.unchanged(v, 'gtsv:footprint:' + nm, nm + ' after gtsv', sub)
            if st == 'ok' and live:
                X1[nrhs] = B.mat()
                c.err('solve', R.resid(A0, X1[nrhs], B0), 'gtsv:residual', 'A X = B after gtsv', sub)
        # ---- gttrf
        DL, D, DU = vecs(A0); DU2 = Arr(tc, n2 + 1, 1); P = Arr('i', n + 1, 1)
        kw = ({} if lay is None else {'n': n}); kw.update(okw(DL, D, DU))
        stf, _ = c.call('gttrf', lapack.gttrf, (DL.M, D.M, DU.M, DU2.M, P.M), kw, exp if n > 0 else 'ok', 'gttrf', sub)
        for nm, v in (('dl', DL), ('d', D), ('du', DU)):
            c.unchanged(v, 'gttrf:footprint:' + nm, nm + ' after gttrf', sub)
        if DU2.vec()[n2] != _sent(tc, n2):
            c.bad('gttrf:footprint:du2', 'du2[n-2] was overwritten', sub)
        if P.vec()[n] != _sent('i', n):
            c.bad('gttrf:footprint:ipiv', 'ipiv[n] was overwritten', sub)
        if stf != 'ok':
            continue
        raws = [bytes(memoryview(v.M)) for v in (DL, D, DU, DU2, P)]
        for nrhs in (0, 1, 2):
            c.live = nrhs > 0
            B0 = rhs(n, nrhs, tc)
            for trans in (None, 'N', 'T', 'C'):
                B = Arr(tc, n, nrhs, B0, layB)
                kw = ({} if lay is None else {'n': n, 'nrhs': nrhs}); kw.update(okw(DL, D, DU)); kw.update(B.kw('B'))
                if trans is not None:
                    kw['trans'] = trans
                st, _ = c.call('gttrs', lapack.gttrs, (DL.M, D.M, DU.M, DU2.M, P.M, B.M), kw, 'ok',
                               'gttrs' if trans is None else 'gttrs:trans-given', sub)
                if [bytes(memoryview(v.M)) for v in (DL, D, DU, DU2, P)] != raws:
                    c.bad('gttrs:input-modified', 'gttrs modified the factorization', sub)
                c.unchanged(B, 'gttrs:footprint:B', 'B after gttrs', sub)
                if st == 'ok' and n > 0 and nrhs > 0:
                    X = B.mat()
                    tr = trans or 'N'
                    c.err('solve', R.resid(A0.op(tr), X, B0), 'gttrs:residual:trans=' + tr,
                          'op(A) X = B after gttrf + gttrs(trans=%s)' % tr, sub)
                    if tr == 'N' and nrhs in X1:
                        c.err('driver-eq', R.diff(X, X1[nrhs], max(1.0, X1[nrhs].nrm())),
                              'gttrs:factor-then-solve-vs-gtsv', 'gttrf + gttrs differs from gtsv', sub, DRV)


def cases_gt(tier, seed):
    for tc in 'dz':
        for n in orders(tier):
            for lay in lays2(tier):
                yield {'f': 'gt', 'tc': tc, 'n': n, 'lay': lay, 'seed': seed}


CASEGENS.append(cases_gt)


# ======================================================================= positive definite dense: po family
def _uplo_kw(uplo, lay):
    """uplo='L' is the default: omit it in the default layout so that the default is exercised too"""
    return {} if (uplo == 'L' and lay is None) else {'uplo': uplo}


@family('po')
def fam_po(case, c):
    """posv, potrf, potrs, potri"""
    from cvxopt import lapack
    tc, n, uplo, seed = case['tc'], case['n'], case['uplo'], case['seed']
    layA, layB, lay = _lay2(case)
    prot = strict_other(n, uplo)
    for Af in _part(pool('he', n, n, tc, seed), case):
        exp = chol_expect(Af) if n > 0 else 'ok'
        sub = _sub(Af, tc=tc, uplo=uplo, lay=lay)
        Aj = junk_other(Af, uplo, tc)
        X1 = {}
        for nrhs in (0, 1, 2):
            c.live = nrhs > 0
            B0 = rhs(n, nrhs, tc)
            live = n > 0 and nrhs > 0
            A = Arr(tc, n, n, Aj, layA); B = Arr(tc, n, nrhs, B0, layB)
            kw = ({} if lay is None else {'n': n, 'nrhs': nrhs}); kw.update(A.kw('A')); kw.update(B.kw('B'))
            kw.update(_uplo_kw(uplo, lay))
            st, _ = c.call('posv', lapack.posv, (A.M, B.M), kw, exp if live else 'ok', 'posv', sub)
            c.unchanged(A, 'posv:footprint:A:uplo=' + uplo, 'A (outside the %s triangle) after posv' % uplo, sub, prot)
            c.unchanged(B, 'posv:footprint:B', 'B after posv', sub)
            if st == 'ok' and live:
                X1[nrhs] = B.mat()
                c.err('solve', R.resid(Af, X1[nrhs], B0), 'posv:residual:uplo=' + uplo, 'A X = B after posv', sub)
                c.err('factor', R.chol_err(A.mat(), Af, uplo), 'posv:reconstruction:uplo=' + uplo,
                      'L L^H = A from the factor left in A by posv', sub)
        A = Arr(tc, n, n, Aj, layA)
        kw = ({} if lay is None else {'n': n}); kw.update(A.kw('A')); kw.update(_uplo_kw(uplo, lay))
        stf, _ = c.call('potrf', lapack.potrf, (A.M,), kw, exp, 'potrf', sub)
        c.unchanged(A, 'potrf:footprint:A:uplo=' + uplo, 'A (outside the %s triangle) after potrf' % uplo, sub, prot)
        if stf != 'ok':
            continue
        if n > 0:
            c.err('factor', R.chol_err(A.mat(), Af, uplo), 'potrf:reconstruction:uplo=' + uplo, 'L L^H = A', sub)
        Fraw = bytes(memoryview(A.M))
        for nrhs in (0, 1, 2):
            c.live = nrhs > 0
            B0 = rhs(n, nrhs, tc)
            B = Arr(tc, n, nrhs, B0, layB)
            kw = ({} if lay is None else {'n': n, 'nrhs': nrhs}); kw.update(A.kw('A')); kw.update(B.kw('B'))
            kw.update(_uplo_kw(uplo, lay))
            st, _ = c.call('potrs', lapack.potrs, (A.M, B.M), kw, 'ok', 'potrs', sub)
            if bytes(memoryview(A.M)) != Fraw:
                c.bad('potrs:input-modified', 'potrs modified the factor', sub)
            c.unchanged(B, 'potrs:footprint:B', 'B after potrs', sub)
            if st == 'ok' and n > 0 and nrhs > 0:
                X = B.mat()
                c.err('solve', R.resid(Af, X, B0), 'potrs:residual:uplo=' + uplo, 'A X = B after potrf + potrs', sub)
                if nrhs in X1:
                    c.err('driver-eq', R.diff(X, X1[nrhs], max(1.0, X1[nrhs].nrm())),
                          'potrs:factor-then-solve-vs-posv', 'potrf + potrs differs from posv', sub, DRV)
        # potri: once with uplo omitted (only meaningful for 'L'), once with uplo given
        for give in ((False, True) if uplo == 'L' else (True,)):
            A2 = Arr(tc, n, n, A.mat(), layA)
            kw = ({} if lay is None else {'n': n}); kw.update(A2.kw('A'))
            if give:
                kw['uplo'] = uplo
            st, _ = c.call('potri', lapack.potri, (A2.M,), kw, 'ok', 'potri:uplo-given' if give else 'potri', sub)
            if st == 'ok':
                c.unchanged(A2, 'potri:footprint:A:uplo=' + uplo, 'A (outside the %s triangle) after potri' % uplo,
                            sub, prot)
                if n > 0:
                    c.err('inverse', R.inverse_err(Af, R.symm_from(A2.mat(), uplo, True)), 'potri:inverse:uplo=' + uplo,
                          'A * potri(A) = I', sub)


def cases_po(tier, seed):
    for tc in 'dz':
        for n in orders(tier):
            for uplo in 'LU':
                for lay in lays2(tier):
                    yield {'f': 'po', 'tc': tc, 'n': n, 'uplo': uplo, 'lay': lay, 'seed': seed}


CASEGENS.append(cases_po)


# ======================================================================== positive definite band: pb family
@family('pb')
def fam_pb(case, c):
    """pbsv, pbtrf, pbtrs (offsetB is exercised separately in family 'pboff')"""
    from cvxopt import lapack
    tc, n, kd, uplo, seed = case['tc'], case['n'], case['kd'], case['uplo'], case['seed']
    layA, layB, lay = _lay2(case)
    if layB is not None:
        layB = (layB[0], 0)
    mats = _dedupe([R.band_mask(M, kd, kd) for M in pool('he', n, n, tc, seed)])
    for Af in _part(mats, case):
        exp = chol_expect(Af) if n > 0 else 'ok'
        sub = _sub(Af, tc=tc, uplo=uplo, kd=kd, lay=lay)
        AB = R.sb_pack(Af, kd, uplo, _junkfill(tc))
        X1 = {}

        def kws(A, B=None, nrhs=None):
            kw = {}
            if lay is not None:
                kw = {'n': n, 'kd': kd, 'ldA': A.ld, 'offsetA': A.off}
                if B is not None:
                    kw['nrhs'] = nrhs; kw['ldB'] = B.ld
            kw.update(_uplo_kw(uplo, lay))
            return kw
        for nrhs in (0, 1, 2):
            c.live = nrhs > 0
            B0 = rhs(n, nrhs, tc)
            live = n > 0 and nrhs > 0
            A = Arr(tc, kd + 1, n, AB, layA); B = Arr(tc, n, nrhs, B0, layB)
            st, _ = c.call('pbsv', lapack.pbsv, (A.M, B.M), kws(A, B, nrhs), exp if live else 'ok', 'pbsv', sub)
            c.unchanged(A, 'pbsv:footprint:A', 'A after pbsv', sub)
            c.unchanged(B, 'pbsv:footprint:B', 'B after pbsv', sub)
            if st == 'ok' and live:
                X1[nrhs] = B.mat()
                c.err('solve', R.resid(Af, X1[nrhs], B0), 'pbsv:residual:uplo=' + uplo, 'A X = B after pbsv', sub)
                T = R.sb_unpack_tri(A.mat(), n, kd, uplo)
                c.err('factor', R.chol_err(T, Af, uplo), 'pbsv:reconstruction:uplo=' + uplo,
                      'L L^H = A from the band factor left by pbsv', sub)
        A = Arr(tc, kd + 1, n, AB, layA)
        stf, _ = c.call('pbtrf', lapack.pbtrf, (A.M,), kws(A), exp, 'pbtrf', sub)
        c.unchanged(A, 'pbtrf:footprint:A', 'A after pbtrf', sub)
        if stf != 'ok':
            continue
        if n > 0:
            c.err('factor', R.chol_err(R.sb_unpack_tri(A.mat(), n, kd, uplo), Af, uplo),
                  'pbtrf:reconstruction:uplo=' + uplo, 'L L^H = A (band)', sub)
        Fraw = bytes(memoryview(A.M))
        for nrhs in (0, 1, 2):
            c.live = nrhs > 0
            B0 = rhs(n, nrhs, tc)
            B = Arr(tc, n, nrhs, B0, layB)
            st, _ = c.call('pbtrs', lapack.pbtrs, (A.M, B.M), kws(A, B, nrhs), 'ok', 'pbtrs', sub)
            if bytes(memoryview(A.M)) != Fraw:
                c.bad('pbtrs:input-modified', 'pbtrs modified the factor', sub)
            c.unchanged(B, 'pbtrs:footprint:B', 'B after pbtrs', sub)
            if st == 'ok' and n > 0 and nrhs > 0:
                X = B.mat()
                c.err('solve', R.resid(Af, X, B0), 'pbtrs:residual:uplo=' + uplo, 'A X = B after pbtrf + pbtrs', sub)
                if nrhs in X1:
                    c.err('driver-eq', R.diff(X, X1[nrhs], max(1.0, X1[nrhs].nrm())),
                          'pbtrs:factor-then-solve-vs-pbsv', 'pbtrf + pbtrs differs from pbsv', sub, DRV)


def cases_pb(tier, seed):
    for tc in 'dz':
        for n in orders(tier):
            for kd in (0, 1, 2):
                for uplo in 'LU':
                    for lay in lays2(tier):
                        yield {'f': 'pb', 'tc': tc, 'n': n, 'kd': kd, 'uplo': uplo, 'lay': lay, 'seed': seed}


CASEGENS.append(cases_pb)


@family('pboff')
def fam_pboff(case, c):
    """pbsv / pbtrs with the documented offsetB argument, in a forked child (the call may kill the interpreter)."""
    import signal
    from cvxopt import lapack
    tc, fn, ob = case['tc'], case['fn'], case['offsetB']
    Af = _cx(Mat.rows([[2, -1], [-1, 2]]), tc, 'he')
    B0 = rhs(2, 1, tc)
    AB = R.sb_pack(Af, 1, 'L', 0.0)
    A = Arr(tc, 2, 2, AB, None); B = Arr(tc, 2, 1, B0, (0, ob))
    if fn == 'pbtrs':
        lapack.pbtrf(A.M)
    import sys
    sys.stdout.flush(); sys.stderr.flush()
    pid = os.fork()
    if pid == 0:
        rc = 0
        try:
            signal.alarm(20)
            getattr(lapack, fn)(A.M, B.M, n=2, kd=1, nrhs=1, ldB=2, offsetB=ob)
            rc = 0 if (R.resid(Af, B.mat(), B0) <= TOL and not B.changed_outside()) else 3
        except BaseException:
            rc = 4
        finally:
            os._exit(rc)
    _, st = os.waitpid(pid, 0)
    if os.WIFSIGNALED(st):
        c.count(fn + ':killed-by-signal')
        c.bad('%s:offsetB-given:interpreter-killed-by-signal-%d' % (fn, os.WTERMSIG(st)),
              '%s(A, B, n=2, kd=1, nrhs=1, ldB=2, offsetB=%d) killed the interpreter (signal %d)' % (fn, ob, os.WTERMSIG(st)),
              _sub(Af, tc=tc, offsetB=ob))
    elif os.WEXITSTATUS(st) != 0:
        c.count(fn + ':wrong')
        c.bad('%s:offsetB-given:%s' % (fn, {3: 'residual-or-footprint', 4: 'exception'}.get(os.WEXITSTATUS(st), 'exit')),
              '%s with offsetB=%d: child exit status %d' % (fn, ob, os.WEXITSTATUS(st)), _sub(Af, tc=tc, offsetB=ob))
    else:
        c.count(fn + ':ok')


def cases_pboff(tier, seed):
    for tc in 'dz':
        for fn in ('pbsv', 'pbtrs'):
            for ob in (0, 1, 2):
                yield {'f': 'pboff', 'tc': tc, 'fn': fn, 'offsetB': ob, 'seed': seed}


CASEGENS.append(cases_pboff)


# ================================================================= positive definite tridiagonal: pt family
def pt_expect(Af):
    c = R.chol_class(Af)
    if c == 'pd':
        return 'ok'
    if c == 'notpd':
        return 'arith'
    if Af.n == 1 or R.det_exact(Af.sub(0, 1, 0, 1))[0] == 0:
        return 'arith'
    if Af.n == 2 and R.det_exact(Af.sub(0, 1, 0, 1)) in ((1, 0), (2, 0), (4, 0)) and R.dyadic_safe(Af):
        return 'arith'
    return 'either'


@family('pt')
def fam_pt(case, c):
    """ptsv, pttrf, pttrs"""
    from cvxopt import lapack
    tc, n, seed = case['tc'], case['n'], case['seed']
    layA, layB, lay = _lay2(case)
    n1 = max(n - 1, 0)
    lod, loe = (None, None) if lay is None else ((0, layA[1]), (0, (layA[1] + layB[1] + 1) % 3))
    mats = _dedupe([R.band_mask(M, 1, 1) for M in pool('he', n, n, tc, seed)])

    def vecs(Af):
        d = Mat(n, 1, [[Af.a[i][i].real if tc == 'z' else Af.a[i][i]] for i in range(n)])
        e = Mat(n1, 1, [[Af.a[i + 1][i]] for i in range(n1)])
        return Arr('d', n, 1, d, lod), Arr(tc, n1, 1, e, loe)

    def okw(D, E):
        return {} if lay is None else {'offsetd': D.off, 'offsete': E.off}
    for Af in _part(mats, case):
        exp = pt_expect(Af) if n > 0 else 'ok'
        sub = _sub(Af, tc=tc, lay=lay)
        X1 = {}
        for nrhs in (0, 1, 2):
            c.live = nrhs > 0
            B0 = rhs(n, nrhs, tc)
            live = n > 0 and nrhs > 0
            D, E = vecs(Af); B = Arr(tc, n, nrhs, B0, layB)
            kw = ({} if lay is None else {'n': n, 'nrhs': nrhs}); kw.update(okw(D, E)); kw.update(B.kw('B'))
            st, _ = c.call('ptsv', lapack.ptsv, (D.M, E.M, B.M), kw, exp if live else 'ok', 'ptsv', sub)
            for nm, v in (('d', D), ('e', E), ('B', B)):
                c.unchanged(v, 'ptsv:footprint:' + nm, nm + ' after ptsv', sub)
            if st == 'ok' and live:
                X1[nrhs] = B.mat()
                c.err('solve', R.resid(Af, X1[nrhs], B0), 'ptsv:residual', 'A X = B after ptsv', sub)
                c.err('factor', R.ldl_tridiag_err(D.vec(), E.vec(), Af), 'ptsv:reconstruction',
                      'L D L^H = A from d, e left by ptsv', sub)
        D, E = vecs(Af)
        kw = ({} if lay is None else {'n': n}); kw.update(okw(D, E))
        stf, _ = c.call('pttrf', lapack.pttrf, (D.M, E.M), kw, exp, 'pttrf', sub)
        for nm, v in (('d', D), ('e', E)):
            c.unchanged(v, 'pttrf:footprint:' + nm, nm + ' after pttrf', sub)
        if stf != 'ok':
            continue
        if n > 0:
            c.err('factor', R.ldl_tridiag_err(D.vec(), E.vec(), Af), 'pttrf:reconstruction', 'L D L^H = A', sub)
        for uplo in ('L', 'U'):
            # uplo='U': e holds the superdiagonal of L^H, i.e. the complex conjugates
            Eu = E if uplo == 'L' else Arr(tc, n1, 1, Mat(n1, 1, [[R._cj(x)] for x in E.vec()]), loe)
            raws = [bytes(memoryview(D.M)), bytes(memoryview(Eu.M))]
            for nrhs in (0, 1, 2):
                c.live = nrhs > 0
                B0 = rhs(n, nrhs, tc)
                B = Arr(tc, n, nrhs, B0, layB)
                kw = ({} if lay is None else {'n': n, 'nrhs': nrhs}); kw.update(okw(D, Eu)); kw.update(B.kw('B'))
                kw.update(_uplo_kw(uplo, lay))
                st, _ = c.call('pttrs', lapack.pttrs, (D.M, Eu.M, B.M), kw, 'ok', 'pttrs', sub)
                if [bytes(memoryview(D.M)), bytes(memoryview(Eu.M))] != raws:
                    c.bad('pttrs:input-modified', 'pttrs modified d or e', sub)
                c.unchanged(B, 'pttrs:footprint:B', 'B after pttrs', sub)
                if st == 'ok' and n > 0 and nrhs > 0:
                    X = B.mat()
                    c.err('solve', R.resid(Af, X, B0), 'pttrs:residual:uplo=' + uplo,
                          'A X = B after pttrf + pttrs(uplo=%s)' % uplo, sub)
                    if nrhs in X1:
                        c.err('driver-eq', R.diff(X, X1[nrhs], max(1.0, X1[nrhs].nrm())),
                              'pttrs:factor-then-solve-vs-ptsv', 'pttrf + pttrs differs from ptsv', sub, DRV)


def cases_pt(tier, seed):
    for tc in 'dz':
        for n in orders(tier):
            for lay in lays2(tier):
                yield {'f': 'pt', 'tc': tc, 'n': n, 'lay': lay, 'seed': seed}


CASEGENS.append(cases_pt)


# =============================================================== symmetric / Hermitian indefinite: sy family
@family('sy')
def fam_sy(case, c):
    """sysv/sytrf/sytrs/sytri (kind 'sy') and hesv/hetrf/hetrs/hetri (kind 'he')"""
    from cvxopt import lapack
    tc, n, uplo, kind, seed = case['tc'], case['n'], case['uplo'], case['kind'], case['seed']
    layA, layB, lay = _lay2(case)
    herm = (kind == 'he')
    sv, trf, trs, tri = [getattr(lapack, kind + s) for s in ('sv', 'trf', 'trs', 'tri')]
    nsv, ntrf, ntrs, ntri = [kind + s for s in ('sv', 'trf', 'trs', 'tri')]
    for Af in _part(pool(kind, n, n, tc, seed), case):
        exp = lu_expect(Af, _is_hand_singular(Af))
        sub = _sub(Af, tc=tc, uplo=uplo, lay=lay)
        Aj = junk_other(Af, uplo, tc)
        X1 = {}
        for nrhs in (0, 1, 2):
            c.live = nrhs > 0
            B0 = rhs(n, nrhs, tc)
            live = n > 0 and nrhs > 0
            for with_ipiv in (False, True):
                A = Arr(tc, n, n, Aj, layA); B = Arr(tc, n, nrhs, B0, layB); P = Arr('i', n + 1, 1)
                kw = ({} if lay is None else {'n': n, 'nrhs': nrhs}); kw.update(A.kw('A')); kw.update(B.kw('B'))
                kw.update(_uplo_kw(uplo, lay))
                if with_ipiv:
                    kw['ipiv'] = P.M
                tag = nsv + (':ipiv' if with_ipiv else ':no-ipiv')
                st, _ = c.call(nsv, sv, (A.M, B.M), kw, exp if live else 'ok', tag, sub)
                if with_ipiv:
                    c.unchanged(A, nsv + ':footprint:A', 'A after %s with ipiv' % nsv, sub)
                    if P.vec()[n] != _sent('i', n):
                        c.bad(nsv + ':footprint:ipiv', 'ipiv[n] was overwritten', sub)
                else:
                    c.untouched(A, nsv + ':no-ipiv:A-modified', 'A after %s(A, B) without ipiv' % nsv, sub)
                c.unchanged(B, nsv + ':footprint:B', 'B after ' + nsv, sub)
                if st == 'ok' and live:
                    X = B.mat()
                    c.err('solve', R.resid(Af, X, B0), tag + ':residual:uplo=' + uplo, 'A X = B after ' + nsv, sub)
                    if with_ipiv and nrhs in X1:
                        c.err('driver-eq', R.diff(X, X1[nrhs], max(1.0, X1[nrhs].nrm())), nsv + ':ipiv-vs-no-ipiv',
                              '%s with and without ipiv give different X' % nsv, sub, DRV)
                    if not with_ipiv:
                        X1[nrhs] = X
        A = Arr(tc, n, n, Aj, layA); P = Arr('i', n + 1, 1)
        kw = ({} if lay is None else {'n': n}); kw.update(A.kw('A')); kw.update(_uplo_kw(uplo, lay))
        stf, _ = c.call(ntrf, trf, (A.M, P.M), kw, exp if n > 0 else 'ok', ntrf, sub)
        c.unchanged(A, ntrf + ':footprint:A', 'A after ' + ntrf, sub)
        if P.vec()[n] != _sent('i', n):
            c.bad(ntrf + ':footprint:ipiv', 'ipiv[n] was overwritten', sub)
        if stf != 'ok':
            continue
        Fraw = _raw(A.M); Praw = _raw(P.M)
        for nrhs in (0, 1, 2):
            c.live = nrhs > 0
            B0 = rhs(n, nrhs, tc)
            B = Arr(tc, n, nrhs, B0, layB)
            kw = ({} if lay is None else {'n': n, 'nrhs': nrhs}); kw.update(A.kw('A')); kw.update(B.kw('B'))
            kw.update(_uplo_kw(uplo, lay))
            st, _ = c.call(ntrs, trs, (A.M, P.M, B.M), kw, 'ok', ntrs, sub)
            if _raw(A.M) != Fraw or _raw(P.M) != Praw:
                c.bad(ntrs + ':input-modified', ntrs + ' modified the factor or ipiv', sub)
            c.unchanged(B, ntrs + ':footprint:B', 'B after ' + ntrs, sub)
            if st == 'ok' and n > 0 and nrhs > 0:
                X = B.mat()
                c.err('solve', R.resid(Af, X, B0), ntrs + ':residual:uplo=' + uplo,
                      'A X = B after %s + %s' % (ntrf, ntrs), sub)
                if nrhs in X1:
                    c.err('driver-eq', R.diff(X, X1[nrhs], max(1.0, X1[nrhs].nrm())),
                          ntrs + ':factor-then-solve-vs-' + nsv, '%s + %s differs from %s' % (ntrf, ntrs, nsv), sub, DRV)
        kw = ({} if lay is None else {'n': n}); kw.update(A.kw('A')); kw.update(_uplo_kw(uplo, lay))
        st, _ = c.call(ntri, tri, (A.M, P.M), kw, 'ok', ntri, sub)
        c.unchanged(A, ntri + ':footprint:A', 'A after ' + ntri, sub)
        if _raw(P.M) != Praw:
            c.bad(ntri + ':input-modified', ntri + ' modified ipiv', sub)
        if st == 'ok' and n > 0:
            c.err('inverse', R.inverse_err(Af, R.symm_from(A.mat(), uplo, herm)), ntri + ':inverse:uplo=' + uplo,
                  'A * %s(A) = I' % ntri, sub)


def cases_sy(tier, seed):
    for kind in ('sy', 'he'):
        for tc in 'dz':
            for n in orders(tier):
                for uplo in 'LU':
                    for lay in lays2(tier):
                        yield {'f': 'sy', 'kind': kind, 'tc': tc, 'n': n, 'uplo': uplo, 'lay': lay, 'seed': seed}


CASEGENS.append(cases_sy)


# ================================================================================== triangular: tr / tb families
def _tri_pool(n, tc, uplo, diag, seed):
    """(stored matrix, mathematical matrix, expectation)"""
    out = []
    for L in pool('tr', n, n, tc, seed):
        T = L if uplo == 'L' else L.T()
        Tm = T.copy()
        if diag == 'U':
            for i in range(n):
                Tm.a[i][i] = 1.0
        sing = diag == 'N' and any(T.a[i][i] == 0 for i in range(n))
        out.append((junk_other(T, uplo, tc, diag == 'U'), Tm, 'arith' if sing else 'ok'))
    return out


@family('tr')
def fam_tr(case, c):
    """trtrs, trtri"""
    from cvxopt import lapack
    tc, n, uplo, diag, seed = case['tc'], case['n'], case['uplo'], case['diag'], case['seed']
    layA, layB, lay = _lay2(case)
    for Ts, Tm, exp in _part(_tri_pool(n, tc, uplo, diag, seed), case):
        sub = _sub(Tm, tc=tc, uplo=uplo, diag=diag, lay=lay)
        fl = {} if (lay is None and uplo == 'L' and diag == 'N') else {'uplo': uplo, 'diag': diag}
        for nrhs in (0, 1, 2):
            c.live = nrhs > 0
            B0 = rhs(n, nrhs, tc)
            for trans in ('N', 'T', 'C'):
                A = Arr(tc, n, n, Ts, layA); B = Arr(tc, n, nrhs, B0, layB)
                kw = ({} if lay is None else {'n': n, 'nrhs': nrhs}); kw.update(A.kw('A')); kw.update(B.kw('B'))
                kw.update(fl)
                if trans != 'N' or lay is not None:
                    kw['trans'] = trans
                live = n > 0 and nrhs > 0
                st, _ = c.call('trtrs', lapack.trtrs, (A.M, B.M), kw, exp if live else 'ok', 'trtrs', sub)
                c.untouched(A, 'trtrs:input-modified', 'A after trtrs', sub)
                c.unchanged(B, 'trtrs:footprint:B', 'B after trtrs', sub)
                if st == 'ok' and live:
                    c.err('solve', R.resid(Tm.op(trans), B.mat(), B0),
                          'trtrs:residual:uplo=%s,trans=%s,diag=%s' % (uplo, trans, diag), 'op(A) X = B after trtrs', sub)
        A = Arr(tc, n, n, Ts, layA)
        kw = ({} if lay is None else {'n': n}); kw.update(A.kw('A')); kw.update(fl)
        st, _ = c.call('trtri', lapack.trtri, (A.M,), kw, exp if n > 0 else 'ok', 'trtri', sub)
        c.unchanged(A, 'trtri:footprint:A', 'A after trtri', sub)
        if st == 'ok' and n > 0:
            c.err('inverse', R.inverse_err(Tm, R.triangle(A.mat(), uplo, diag == 'U')),
                  'trtri:inverse:uplo=%s,diag=%s' % (uplo, diag), 'A * trtri(A) = I', sub)


def cases_tr(tier, seed):
    for tc in 'dz':
        for n in orders(tier):
            for uplo in 'LU':
                for diag in 'NU':
                    for lay in lays2(tier):
                        yield {'f': 'tr', 'tc': tc, 'n': n, 'uplo': uplo, 'diag': diag, 'lay': lay, 'seed': seed}


CASEGENS.append(cases_tr)


@family('tb')
def fam_tb(case, c):
    """tbtrs"""
    from cvxopt import lapack
    tc, n, kd, uplo, diag, seed = case['tc'], case['n'], case['kd'], case['uplo'], case['diag'], case['seed']
    layA, layB, lay = _lay2(case)
    seen = set()
    for Ts, Tm, exp in _part(_tri_pool(n, tc, uplo, diag, seed), case):
        Tb = R.band_mask(Tm, kd, kd)
        if repr(Tb.a) in seen:
            continue
        seen.add(repr(Tb.a))
        Tst = R.band_mask(Ts, kd if uplo == 'L' else 0, kd if uplo == 'U' else 0)   # keeps diagonal junk for diag='U'
        AB = R.sb_pack(Tst, kd, uplo, _junkfill(tc))
        sub = _sub(Tb, tc=tc, uplo=uplo, diag=diag, kd=kd, lay=lay)
        for nrhs in (0, 1, 2):
            c.live = nrhs > 0
            B0 = rhs(n, nrhs, tc)
            for trans in ('N', 'T', 'C'):
                A = Arr(tc, kd + 1, n, AB, layA); B = Arr(tc, n, nrhs, B0, layB)
                kw = ({} if lay is None else {'n': n, 'kd': kd, 'nrhs': nrhs}); kw.update(A.kw('A')); kw.update(B.kw('B'))
                if not (lay is None and uplo == 'L' and diag == 'N'):
                    kw.update({'uplo': uplo, 'diag': diag})
                if trans != 'N' or lay is not None:
                    kw['trans'] = trans
                live = n > 0 and nrhs > 0
                st, _ = c.call('tbtrs', lapack.tbtrs, (A.M, B.M), kw, exp if live else 'ok', 'tbtrs', sub)
                c.untouched(A, 'tbtrs:input-modified', 'A after tbtrs', sub)
                c.unchanged(B, 'tbtrs:footprint:B', 'B after tbtrs', sub)
                if st == 'ok' and live:
                    c.err('solve', R.resid(Tb.op(trans), B.mat(), B0),
                          'tbtrs:residual:uplo=%s,trans=%s,diag=%s' % (uplo, trans, diag), 'op(A) X = B after tbtrs', sub)


def cases_tb(tier, seed):
    for tc in 'dz':
        for n in orders(tier):
            for kd in (0, 1, 2):
                for uplo in 'LU':
                    for diag in 'NU':
                        for lay in lays2(tier):
                            yield {'f': 'tb', 'tc': tc, 'n': n, 'kd': kd, 'uplo': uplo, 'diag': diag, 'lay': lay,
                                   'seed': seed}


CASEGENS.append(cases_tb)


# ================================================================================= least squares: gels
@family('ls')
def fam_ls(case, c):
    from cvxopt import lapack
    tc, m, n, seed = case['tc'], case['m'], case['n'], case['seed']
    layA, layB, lay = _lay2(case)
    k = min(m, n)
    for A0 in _part(pool('ge', m, n, tc, seed), case):
        if k > 0 and R.rank_exact(A0) < k:
            continue            # rank deficient: documented as unchecked
        sub = _sub(A0, tc=tc, lay=lay)
        for nrhs in (0, 1, 2):
            c.live = nrhs > 0
            for trans in ('N', 'T', 'C'):
                if tc == 'z' and trans == 'T':
                    A = Arr(tc, m, n, A0, layA); B = Arr(tc, max(m, n), nrhs, rhs(max(m, n), nrhs, tc), layB)
                    kw = ({} if lay is None else {'m': m, 'n': n, 'nrhs': nrhs}); kw.update(A.kw('A')); kw.update(B.kw('B'))
                    kw['trans'] = 'T'
                    if m > 0 and n > 0 and nrhs > 0:
                        c.call('gels', lapack.gels, (A.M, B.M), kw, 'reject', 'gels:trans=T-complex', sub)
                        c.untouched(A, 'gels:rejected-call-modified-A', 'A after rejected gels', sub)
                        c.untouched(B, 'gels:rejected-call-modified-B', 'B after rejected gels', sub)
                    continue
                opA = A0.op(trans)                      # r x q system matrix
                r, q = opA.m, opA.n
                Bt = rhs(r, nrhs, tc)
                Bfull = Mat(max(m, n), nrhs)
                fill = rhs(max(m, n), nrhs, tc)
                for i in range(max(m, n)):
                    for j in range(nrhs):
                        Bfull.a[i][j] = Bt.a[i][j] if i < r else fill.a[i][j]
                A = Arr(tc, m, n, A0, layA); B = Arr(tc, max(m, n), nrhs, Bfull, layB)
                kw = ({} if lay is None else {'m': m, 'n': n, 'nrhs': nrhs}); kw.update(A.kw('A')); kw.update(B.kw('B'))
                if trans != 'N' or lay is not None:
                    kw['trans'] = trans
                st, _ = c.call('gels', lapack.gels, (A.M, B.M), kw, 'ok', 'gels', sub)
                c.unchanged(A, 'gels:footprint:A', 'A after gels', sub)
                c.unchanged(B, 'gels:footprint:B', 'B after gels', sub)
                if st == 'ok' and m > 0 and n > 0 and nrhs > 0:
                    X = B.mat().sub(0, q, 0, nrhs)
                    if r >= q:
                        c.err('lstsq', R.lstsq_err(opA, X, Bt), 'gels:least-squares:trans=' + trans,
                              'op(A)^H (op(A) X - B) = 0 after gels', sub)
                    if r <= q:
                        c.err('lstsq', R.minnorm_err(opA, X, Bt), 'gels:least-norm:trans=' + trans,
                              'X is the minimum-norm solution of op(A) X = B', sub)


def cases_ls(tier, seed):
    for tc in 'dz':
        for m in orders(tier):
            for n in orders(tier):
                for lay in lays2(tier):
                    yield {'f': 'ls', 'tc': tc, 'm': m, 'n': n, 'lay': lay, 'seed': seed}


CASEGENS.append(cases_ls)


# ============================================================================== QR / LQ / QRCP: qr, lq, qp3
def _cmat(r, q, tc):
    """fixed integer r x q matrix C for the products with Q"""
    C = Mat(r, q)
    for i in range(r):
        for j in range(q):
            v = float((2 * i + 3 * j) % 5 - 2) or 1.0
            C.a[i][j] = complex(v, float((i + 2 * j) % 3 - 1)) if tc == 'z' else v
    return C


def _embed(F, rows, cols):
    """rows x cols matrix holding F in its leading part, zeros elsewhere"""
    E = Mat(rows, cols)
    for i in range(min(rows, F.m)):
        for j in range(min(cols, F.n)):
            E.a[i][j] = F.a[i][j]
    return E


@family('qr')
def fam_qr(case, c):
    """geqrf / gelqf, the generators (orgqr, ungqr / orglq, unglq) and multipliers (ormqr, unmqr / ormlq, unmlq);
    geqp3 when case['qp3']"""
    from cvxopt import lapack
    tc, m, n, seed, lq = case['tc'], case['m'], case['n'], case['seed'], case['lq']
    qp3 = case.get('qp3', False)
    layA, layC, lay = _lay2(case)
    k = min(m, n)
    fac = 'geqp3' if qp3 else ('gelqf' if lq else 'geqrf')
    gens = [('unglq', lapack.unglq), ('orglq', lapack.orglq)] if lq else [('ungqr', lapack.ungqr), ('orgqr', lapack.orgqr)]
    muls = [('unmlq', lapack.unmlq), ('ormlq', lapack.ormlq)] if lq else [('unmqr', lapack.unmqr), ('ormqr', lapack.ormqr)]
    if tc == 'z':
        gens, muls = gens[:1], muls[:1]
    qn = n if lq else m                 # order of Q
    for A0 in _part(pool('ge', m, n, tc, seed), case):
        sub = _sub(A0, tc=tc, lay=lay)
        nanorm = max(1.0, A0.nrm())
        for jp in ((None,) if not qp3 else ((0,) * n, tuple(1 if j == n - 1 else 0 for j in range(n)))):
            A = Arr(tc, m, n, A0, layA)
            TAU = Arr(tc, k, 1, None, None) if lay is None else Arr(tc, k + 1, 1, None, None)
            kw = ({} if lay is None else {'m': m, 'n': n}); kw.update(A.kw('A'))
            if qp3:
                J = Arr('i', n + 1, 1, Mat(n + 1, 1, [[v] for v in jp + (-7,)]))
                st, _ = c.call(fac, lapack.geqp3, (A.M, J.M, TAU.M), kw, 'ok', fac, sub)
                if J.vec()[n] != -7:
                    c.bad('geqp3:footprint:jpvt', 'jpvt[n] was overwritten', sub)
            else:
                st, _ = c.call(fac, getattr(lapack, fac), (A.M, TAU.M), kw, 'ok', fac, sub)
            c.unchanged(A, fac + ':footprint:A', 'A after ' + fac, sub)
            if lay is not None and TAU.vec()[k] != _sent(tc, k):
                c.bad(fac + ':footprint:tau', 'tau[min(m,n)] was overwritten', sub)
            if st != 'ok' or k == 0:
                if st == 'ok' and qp3 and m == 0 and n > 0:
                    pass
                continue
            F = A.mat()
            tau = TAU.vec(k)
            AP = A0
            if qp3:
                piv = J.vec(n)
                if sorted(piv) != list(range(1, n + 1)):
                    c.bad('geqp3:jpvt-not-a-permutation', 'jpvt = %r on exit' % (piv,), sub)
                    continue
                if any(jp) and piv[0] != n:
                    c.bad('geqp3:forced-column-not-first', 'jpvt[%d] was nonzero on entry but jpvt[0] = %d on exit'
                          % (n - 1, piv[0]), sub)
                AP = A0.cols([p - 1 for p in piv])
            # ---- generators: full Q of order qn
            Qfull = None
            for gname, gfn in gens:
                # (a) the square Q of order qn from the k reflectors
                E = _embed(F.sub(0, k, 0, n) if lq else F.sub(0, m, 0, k), qn, qn)
                Q = Arr(tc, qn, qn, E, layA)
                T2 = Arr(tc, k, 1, Mat(k, 1, [[t] for t in tau]))
                kw = ({} if lay is None else {'m': qn, 'n': qn, 'k': k}); kw.update(Q.kw('A'))
                st, _ = c.call(gname, gfn, (Q.M, T2.M), kw, 'ok', gname, sub)
                c.unchanged(Q, gname + ':footprint:A', 'A after ' + gname, sub)
                c.untouched(T2, gname + ':input-modified', 'tau after ' + gname, sub)
                if st != 'ok':
                    continue
                Qm = Q.mat()
                c.err('orth', R.orth_cols(Qm), gname + ':orthonormality', 'Q^H Q = I for Q from %s + %s' % (fac, gname), sub)
                if lq:
                    rec = R.lower_part(F).sub(0, m, 0, k) @ Qm.sub(0, k, 0, n)
                else:
                    rec = Qm.sub(0, m, 0, k) @ R.upper_part(F).sub(0, k, 0, n)
                c.err('recon', R.diff(rec, AP, nanorm), fac + ':reconstruction',
                      ('A = L Q' if lq else ('A P = Q R' if qp3 else 'A = Q R')) + ' with Q from ' + gname, sub)
                Qfull = Qm
                # (b) in place on the factored matrix itself (leading min(m,n) columns / rows of Q)
                G = Arr(tc, m, n, F, layA)
                kw = ({} if lay is None else ({'m': k, 'n': n, 'k': k} if lq else {'m': m, 'n': k, 'k': k})); kw.update(G.kw('A'))
                st, _ = c.call(gname, gfn, (G.M, T2.M), kw, 'ok', gname + ':in-place', sub)
                c.unchanged(G, gname + ':footprint:A', 'A after in-place ' + gname, sub)
                if st == 'ok':
                    got = G.mat().sub(0, k, 0, n) if lq else G.mat().sub(0, m, 0, k)
                    want = Qm.sub(0, k, 0, n) if lq else Qm.sub(0, m, 0, k)
                    c.err('recon', R.diff(got, want, 1.0), gname + ':leading-part-of-Q',
                          'in-place %s does not give the leading %s of Q' % (gname, 'rows' if lq else 'columns'), sub)
            if Qfull is None or qp3:
                continue
            # ---- multipliers
            for mname, mfn in muls:
                for side in ('L', 'R'):
                    for p in (1, 2):
                        C0 = _cmat(qn, p, tc) if side == 'L' else _cmat(p, qn, tc)
                        for trans in ('N', 'T', 'C'):
                            if mname[0] == 'o' and trans == 'C':
                                continue
                            FA = Arr(tc, m, n, F, layA); T2 = Arr(tc, k, 1, Mat(k, 1, [[t] for t in tau]))
                            C = Arr(tc, C0.m, C0.n, C0, layC)
                            kw = ({} if lay is None else {'m': C0.m, 'n': C0.n, 'k': k}); kw.update(FA.kw('A')); kw.update(C.kw('C'))
                            if not (lay is None and side == 'L' and trans == 'N'):
                                kw['side'] = side; kw['trans'] = trans
                            rej = (tc == 'z' and trans == 'T')
                            st, _ = c.call(mname, mfn, (FA.M, T2.M, C.M), kw, 'reject' if rej else 'ok',
                                           mname + (':trans=T-complex' if rej else ''), sub)
                            c.untouched(FA, mname + ':input-modified', 'A after ' + mname, sub)
                            c.untouched(T2, mname + ':input-modified', 'tau after ' + mname, sub)
                            c.unchanged(C, mname + ':footprint:C', 'C after ' + mname, sub)
                            if rej:
                                c.untouched(C, mname + ':rejected-call-modified-C', 'C after rejected ' + mname, sub)
                            if st == 'ok':
                                oq = Qfull.op(trans)
                                want = oq @ C0 if side == 'L' else C0 @ oq
                                c.err('recon', R.diff(C.mat(), want, max(1.0, C0.nrm())),
                                      '%s:product:side=%s,trans=%s' % (mname, side, trans),
                                      '%s: C := %s' % (mname, 'op(Q) C' if side == 'L' else 'C op(Q)'), sub)


def cases_qr(tier, seed):
    for lq, qp3 in ((False, False), (True, False), (False, True)):
        for tc in 'dz':
            for m in orders(tier):
                for n in orders(tier):
                    for lay in lays2(tier):
                        parts = 4 if (m == 2 and n == 2) else 1
                        for p in range(parts):
                            yield {'f': 'qr', 'lq': lq, 'qp3': qp3, 'tc': tc, 'm': m, 'n': n, 'lay': lay, 'seed': seed,
                                   'part': p, 'parts': parts}


CASEGENS.append(cases_qr)


# =========================================================================== symmetric eigenvalue routines
def _cmpvals(c, got, want, scale, key, what, sub):
    if len(got) != len(want):
        c.bad(key, '%s: %d values, expected %d' % (what, len(got), len(want)), sub)
        return False
    e = max([abs(g - w) for g, w in zip(got, want)] or [0.0])
    return c.err('eigval', R.rel(e, max(1.0, scale)), key, what, sub)


def _eig_reference(c, fn, name, Af, Aj, tc, n, uplo, sub):
    """eigenvalues from the jobz='V' call of the same wrapper, validated by A V = V diag(w), V^H V = I, ascending"""
    A = Arr(tc, n, n, Aj, None); W = Arr('d', n, 1)
    st, _ = c.call(name, fn, (A.M, W.M), {'jobz': 'V', 'uplo': uplo}, 'ok', name, sub)
    if st != 'ok':
        return None
    w = W.vec()
    if not c.err('eig', R.eig_err(Af, A.mat(), w), name + ':decomposition:uplo=' + uplo, 'A V = V diag(w), V^H V = I', sub):
        return None
    if R.ascending(w, Af.nrm()):
        c.bad(name + ':order', 'eigenvalues not ascending: %r' % (w,), sub)
        return None
    return w


@family('ev')
def fam_ev(case, c):
    """syev, syevd, heev, heevd"""
    from cvxopt import lapack
    tc, n, uplo, name, seed = case['tc'], case['n'], case['uplo'], case['fn'], case['seed']
    layA, layW, lay = _lay2(case)
    fn = getattr(lapack, name)
    for Af in _part(pool('he', n, n, tc, seed), case):
        sub = _sub(Af, tc=tc, uplo=uplo, lay=lay)
        Aj = junk_other(Af, uplo, tc)
        wref = _eig_reference(c, fn, name, Af, Aj, tc, n, uplo, sub) if n > 0 else []
        if wref is None:
            continue
        for jobz in ('N', 'V'):
            A = Arr(tc, n, n, Aj, layA); W = Arr('d', n, 1, None, None if lay is None else (0, layW[1]))
            kw = ({} if lay is None else {'n': n}); kw.update(A.kw('A')); kw.update(W.kwo('W'))
            if not (lay is None and jobz == 'N' and uplo == 'L'):
                kw['jobz'] = jobz; kw['uplo'] = uplo
            st, _ = c.call(name, fn, (A.M, W.M), kw, 'ok', name, sub)
            c.unchanged(A, name + ':footprint:A', 'A after ' + name, sub)
            c.unchanged(W, name + ':footprint:W', 'W after ' + name, sub)
            if st != 'ok' or n == 0:
                continue
            w = W.vec()
            _cmpvals(c, w, wref, Af.nrm(), '%s:eigenvalues:jobz=%s,uplo=%s' % (name, jobz, uplo),
                     'eigenvalues (jobz=%s) differ from the validated decomposition' % jobz, sub)
            if jobz == 'V':
                c.err('eig', R.eig_err(Af, A.mat(), w), '%s:decomposition:uplo=%s' % (name, uplo),
                      'A V = V diag(w), V^H V = I', sub)


def cases_ev(tier, seed):
    for name in ('syev', 'syevd', 'heev', 'heevd'):
        for tc in ('d' if name[0] == 's' else 'dz'):
            for n in orders(tier, True):
                for uplo in 'LU':
                    for lay in lays2(tier):
                        yield {'f': 'ev', 'fn': name, 'tc': tc, 'n': n, 'uplo': uplo, 'lay': lay, 'seed': seed}


CASEGENS.append(cases_ev)

VRANGES = [(-0.5, 1.5), (-10.5, 10.5), (0.5, 3.5), (-3.5, -0.5), (100.0, 101.0)]


@family('evx')
def fam_evx(case, c):
    """syevx, syevr, heevx, heevr: range A / V / I, jobz N / V"""
    from cvxopt import lapack
    tc, n, uplo, name, seed = case['tc'], case['n'], case['uplo'], case['fn'], case['seed']
    layA, layW, lay = _lay2(case)
    layZ = _third(lay)
    fn = getattr(lapack, name)
    for Af in _part(pool('he', n, n, tc, seed), case):
        sub = _sub(Af, tc=tc, uplo=uplo, lay=lay)
        Aj = junk_other(Af, uplo, tc)
        nrmA = Af.nrm()
        # reference spectrum: range='A', jobz='V' of this very wrapper, validated by its defining equations
        wref = []
        if n > 0:
            A = Arr(tc, n, n, Aj, None); W = Arr('d', n, 1); Z = Arr(tc, n, n)
            st, mret = c.call(name, fn, (A.M, W.M), {'jobz': 'V', 'uplo': uplo, 'Z': Z.M}, 'ok', name, sub)
            if st != 'ok':
                continue
            wref = W.vec()
            if mret != n:
                c.bad(name + ':count:range=A', 'returned m = %r for range A, n = %d' % (mret, n), sub)
                continue
            if not c.err('eig', R.eig_err(Af, Z.mat(), wref), '%s:decomposition:range=A,uplo=%s' % (name, uplo),
                         'A Z = Z diag(w), Z^H Z = I', sub):
                continue
            if R.ascending(wref, nrmA):
                c.bad(name + ':order', 'eigenvalues not ascending: %r' % (wref,), sub)
                continue
        sels = [('A', {}, list(range(n)), n)]
        for il in range(1, n + 1):
            for iu in range(il, n + 1):
                sels.append(('I', {'il': il, 'iu': iu}, list(range(il - 1, iu)), iu - il + 1))
        for (vl, vu) in VRANGES:
            if all(min(abs(w - vl), abs(w - vu)) > 1e-3 for w in wref):
                sels.append(('V', {'vl': vl, 'vu': vu}, [i for i, w in enumerate(wref) if vl < w <= vu], n))
        for rng, rkw, idx, zc in sels:
            for jobz in ('N', 'V'):
                A = Arr(tc, n, n, Aj, layA); W = Arr('d', n, 1, None, None if lay is None else (0, layW[1]))
                Z = Arr(tc, n, zc, None, layZ)
                kw = ({} if lay is None else {'n': n}); kw.update(A.kw('A')); kw.update(W.kwo('W'))
                kw.update(rkw)
                if not (lay is None and jobz == 'N' and uplo == 'L' and rng == 'A'):
                    kw['jobz'] = jobz; kw['uplo'] = uplo; kw['range'] = rng
                if jobz == 'V':
                    kw['Z'] = Z.M; kw.update(Z.kw('Z'))
                st, mret = c.call(name, fn, (A.M, W.M), kw, 'ok', name, sub)
                c.unchanged(A, name + ':footprint:A', 'A after ' + name, sub)
                c.unchanged(W, name + ':footprint:W', 'W after ' + name, sub)
                if jobz == 'V':
                    c.unchanged(Z, name + ':footprint:Z', 'Z after ' + name, sub)
                if st != 'ok':
                    continue
                sub2 = dict(sub, range=rng, **rkw)
                if mret != len(idx):
                    c.bad('%s:count:range=%s' % (name, rng), 'returned m = %r, expected %d eigenvalues for %r (spectrum %r)'
                          % (mret, len(idx), rkw, wref), sub2)
                    continue
                if n == 0:
                    continue
                w = W.vec(mret)
                _cmpvals(c, w, [wref[i] for i in idx], nrmA, '%s:selection:range=%s,jobz=%s' % (name, rng, jobz),
                         'selected eigenvalues %r for %r differ from the validated spectrum %r' % (w, rkw, wref), sub2)
                if jobz == 'V' and mret > 0:
                    c.err('eig', R.eig_err(Af, Z.mat().sub(0, n, 0, mret), w),
                          '%s:decomposition:range=%s,uplo=%s' % (name, rng, uplo), 'A Z = Z diag(w), Z^H Z = I', sub2)
                if jobz == 'V' and lay is None and n > 0 and zc > 0:
                    # Z taller than A, default ldZ (= Z.size[0]): eigenvectors in the leading n rows, nothing else written
                    A = Arr(tc, n, n, Aj, None); W = Arr('d', n, 1); Zt = Arr(tc, n, zc, None, 'tall')
                    kw2 = dict(rkw, jobz='V', uplo=uplo, range=rng, Z=Zt.M)
                    st, mret2 = c.call(name, fn, (A.M, W.M), kw2, 'ok', name, sub)
                    c.unchanged(Zt, name + ':footprint:Z:tall', 'Z (n+2 rows, default ldZ) after ' + name, sub)
                    if st == 'ok' and mret2 == len(idx) and mret2 > 0:
                        c.err('eig', R.eig_err(Af, Zt.mat().sub(0, n, 0, mret2), W.vec(mret2)),
                              '%s:decomposition:tall-Z:range=%s,uplo=%s' % (name, rng, uplo),
                              'A Z = Z diag(w), Z^H Z = I with Z in the leading rows of a taller matrix', sub2)
        # documented argument constraints: 1 <= il <= iu <= n and vl < vu
        if n > 0 and lay is None:
            for bad in ({'range': 'I', 'il': 0, 'iu': 1}, {'range': 'I', 'il': 2, 'iu': 1}, {'range': 'I', 'il': 1, 'iu': n + 1},
                        {'range': 'V', 'vl': 1.0, 'vu': 1.0}, {'range': 'V', 'vl': 2.0, 'vu': -2.0}):
                A = Arr(tc, n, n, Aj, None); W = Arr('d', n, 1)
                c.call(name, fn, (A.M, W.M), dict(bad, uplo=uplo), 'reject', name + ':' + ','.join(
                    '%s=%s' % kv for kv in sorted(bad.items())), sub)
                c.untouched(A, name + ':rejected-call-modified-A', 'A after rejected ' + name, sub)
                c.untouched(W, name + ':rejected-call-modified-W', 'W after rejected ' + name, sub)


@family('genk0')
def fam_genk0(case, c):
    """orgqr / ungqr / orglq / unglq with k = 0 reflectors (empty tau or explicit k=0): Q = I, so A is overwritten with the
    leading columns (rows) of the identity."""
    from cvxopt import lapack, matrix
    tc = case['tc']
    for name in (('orgqr', 'ungqr', 'orglq', 'unglq') if tc == 'd' else ('ungqr', 'unglq')):
        lq = name.endswith('lq')
        fn = getattr(lapack, name)
        for (m, n) in (((1, 2), (2, 3), (2, 2), (1, 1)) if lq else ((2, 1), (3, 2), (2, 2), (1, 1))):
            for how in ('empty-tau', 'k=0'):
                A = matrix([complex(2 + i, 1 - i) if tc == 'z' else 2.0 + i for i in range(m * n)], (m, n), tc)
                tau = matrix(0.0, (0, 1), tc) if how == 'empty-tau' else matrix(1.0, (min(m, n), 1), tc)
                kw = {} if how == 'empty-tau' else {'k': 0}
                sub = {'f': name, 'm': m, 'n': n, 'tc': tc, 'how': how}
                st, _ = c.call(name, fn, (A, tau), kw, 'ok', name + ':k=0', sub)
                if st != 'ok':
                    continue
                want = [(1.0 if i == j else 0.0) for j in range(n) for i in range(m)]
                got = list(A)
                if any(abs(complex(g) - w) > 1e-14 for g, w in zip(got, want)):
                    c.bad(name + ':k=0:not-identity', '%s with no reflectors (%s) on a %dx%d matrix leaves %r, the leading part of '
                          'the identity %r expected' % (name, how, m, n, got, want), sub)
                else:
                    c.count(name + ':k=0:ok')


def cases_genk0(tier, seed):
    for tc in 'dz':
        yield {'f': 'genk0', 'tc': tc, 'seed': seed}


CASEGENS.append(cases_genk0)


def cases_evx(tier, seed):
    for name in ('syevx', 'syevr', 'heevx', 'heevr'):
        for tc in ('d' if name[0] == 's' else 'dz'):
            for n in orders(tier, True):
                for uplo in 'LU':
                    for lay in lays2(tier):
                        yield {'f': 'evx', 'fn': name, 'tc': tc, 'n': n, 'uplo': uplo, 'lay': lay, 'seed': seed}


CASEGENS.append(cases_evx)


# ================================================================== generalized symmetric-definite: sygv, hegv
def _pd_pool(n, tc, seed):
    """B matrices: the first positive definite members of the Hermitian pool, plus one that is not"""
    pd, npd = [], []
    for M in pool('he', n, n, tc, seed):
        cl = R.chol_class(M) if n else 'pd'
        if cl == 'pd' and len(pd) < 3:
            pd.append(M)
        elif cl == 'notpd' and not npd:
            npd.append(M)
    return pd, npd


@family('gv')
def fam_gv(case, c):
    from cvxopt import lapack
    tc, n, uplo, name, itype, seed = case['tc'], case['n'], case['uplo'], case['fn'], case['itype'], case['seed']
    layA, layB, lay = _lay2(case)
    layW = _third(lay)
    fn = getattr(lapack, name)
    positional = False
    if lay is not None:
        # probe the documented keywords ldB, offsetA, offsetB, offsetW on a 1 x 1 pencil stored at offset 1
        A = Arr(tc, 1, 1, Mat(1, 1, [[2.0 + 0j if tc == 'z' else 2.0]]), (0, 1))
        B = Arr(tc, 1, 1, Mat(1, 1, [[1.0 + 0j if tc == 'z' else 1.0]]), (0, 1)); W = Arr('d', 1, 1, None, (0, 1))
        try:
            fn(A.M, B.M, W.M, n=1, ldA=1, ldB=1, offsetA=1, offsetB=1, offsetW=1)
            good = W.vec() == [2.0] and not W.changed_outside() and not A.changed_outside() and not B.changed_outside()
            why = 'eigenvalue 2 of the 1 x 1 pencil (2, 1) stored at offset 1 was not returned in W[1] (W = %r)' % (list(W.M),)
        except Exception as e:
            good, why = False, 'raised %s(%s)' % (type(e).__name__, e)
            try:        # without ldB: shows where the offset keywords really go
                W2 = Arr('d', 1, 1, None, (0, 1))
                fn(A.M, B.M, W2.M, n=1, ldA=1, offsetA=1, offsetB=1, offsetW=1)
                why += '; and %s(A, B, W, n=1, ldA=1, offsetA=1, offsetB=1, offsetW=1) leaves W = %r (sentinels %r): ' \
                       'the eigenvalue went to W[0], i.e. offsetW was not applied' % (name, list(W2.M), [_sent('d', k) for k in range(W2.L)])
            except Exception as e2:
                why += '; without ldB: %s(%s)' % (type(e2).__name__, e2)
        c.count(name + (':ok' if good else ':keywords-broken'))
        if not good:
            c.bad(name + ':documented-keywords-misassigned:ldB/offsetA/offsetB/offsetW',
                  '%s(A, B, W, n=1, ldA=1, ldB=1, offsetA=1, offsetB=1, offsetW=1): %s' % (name, why))
            positional = True
            layW = (0, 0)           # offsetW cannot be passed at all in that case
    pdB, npdB = _pd_pool(n, tc, seed)
    As = _part(pool('he', n, n, tc, seed), case)
    for Bf, bexp in [(b, 'ok') for b in pdB] + [(b, 'arith') for b in npdB]:
        Bj = junk_other(Bf, uplo, tc)
        for Af in (As if bexp == 'ok' else As[:2]):
            sub = _sub(Af, B=Bf.tolist(), tc=tc, uplo=uplo, itype=itype, lay=lay)
            Aj = junk_other(Af, uplo, tc)
            wref = None
            for jobz in ('V', 'N'):
                A = Arr(tc, n, n, Aj, layA); B = Arr(tc, n, n, Bj, layB)
                W = Arr('d', n, 1, None, None if lay is None else (0, layW[1]))
                if positional:
                    args = (A.M, B.M, W.M, itype, jobz, uplo, n, A.ld, B.ld, A.off, B.off)
                    kw = {}
                else:
                    args = (A.M, B.M, W.M)
                    kw = ({} if lay is None else {'n': n}); kw.update(A.kw('A')); kw.update(B.kw('B')); kw.update(W.kwo('W'))
                    if not (lay is None and jobz == 'N' and uplo == 'L' and itype == 1):
                        kw['jobz'] = jobz; kw['uplo'] = uplo; kw['itype'] = itype
                st, _ = c.call(name, fn, args, kw, bexp if n > 0 else 'ok', name, sub)
                c.unchanged(A, name + ':footprint:A', 'A after ' + name, sub)
                c.unchanged(B, name + ':footprint:B', 'B after ' + name, sub)
                c.unchanged(W, name + ':footprint:W', 'W after ' + name, sub)
                if st != 'ok' or n == 0:
                    continue
                w = W.vec()
                if R.ascending(w, Af.nrm() * Bf.nrm()):
                    c.bad(name + ':order', 'eigenvalues not ascending: %r' % (w,), sub)
                c.err('factor', R.chol_err(B.mat(), Bf, uplo), name + ':B-factor:uplo=' + uplo,
                      'B on exit is not the Cholesky factor of B', sub)
                if jobz == 'V':
                    Z = A.mat()
                    D = Mat.diag(w)
                    sc = max(1.0, Af.nrm()) * max(1.0, Bf.nrm()) * max(1.0, Z.nrm())
                    if itype == 1:
                        e1 = R.rel((Af @ Z - Bf @ Z @ D).nrm(), sc)
                        e2 = (Z.H() @ Bf @ Z - Mat.eye(n)).nrm()
                    elif itype == 2:
                        e1 = R.rel((Af @ Bf @ Z - Z @ D).nrm(), sc)
                        e2 = (Z.H() @ Bf @ Z - Mat.eye(n)).nrm()
                    else:
                        e1 = R.rel((Bf @ Af @ Z - Z @ D).nrm(), sc)
                        Y = R.solve_small(Bf, Z)
                        e2 = INF if Y is None else (Z.H() @ Y - Mat.eye(n)).nrm()
                    c.err('eig', max(e1, e2), '%s:decomposition:itype=%d,uplo=%s' % (name, itype, uplo),
                          'generalized eigen-equation / normalization of type %d' % itype, sub)
                    wref = w
                elif wref is not None:
                    _cmpvals(c, w, wref, Af.nrm() * Bf.nrm(), '%s:eigenvalues:jobz=N,itype=%d' % (name, itype),
                             'eigenvalues (jobz=N) differ from the validated decomposition', sub)


def cases_gv(tier, seed):
    for name in ('sygv', 'hegv'):
        for tc in ('d' if name[0] == 's' else 'dz'):
            for n in orders(tier):
                for itype in (1, 2, 3):
                    for uplo in 'LU':
                        for lay in lays2(tier):
                            yield {'f': 'gv', 'fn': name, 'tc': tc, 'n': n, 'itype': itype, 'uplo': uplo, 'lay': lay,
                                   'seed': seed}


CASEGENS.append(cases_gv)


# ===================================================================================== SVD: gesvd, gesdd
def _svd_checks(c, name, A0, s, U, Vt, sref, flags, sub):
    """s: singular values; U (m x ku) / Vt (kv x n) may be None"""
    m, n = A0.m, A0.n
    k = min(m, n)
    nrm = max(1.0, A0.nrm())
    if R.descending_nonneg(s, nrm):
        c.bad(name + ':order', 'singular values not descending / non-negative: %r' % (s,), sub)
        return
    if sref is not None:
        _cmpvals(c, s, sref, nrm, '%s:singular-values:%s' % (name, flags),
                 'singular values differ from the validated decomposition', sub)
    if U is not None:
        c.err('orth', R.orth_cols(U), '%s:U-orthonormality:%s' % (name, flags), 'U^H U = I', sub)
    if Vt is not None:
        c.err('orth', R.orth_rows(Vt), '%s:Vt-orthonormality:%s' % (name, flags), 'Vt Vt^H = I', sub)
    D = Mat.diag(list(s))
    if U is not None and Vt is not None:
        c.err('recon', R.diff(U.sub(0, m, 0, k) @ D @ Vt.sub(0, k, 0, n), A0, nrm), '%s:reconstruction:%s' % (name, flags),
              'A = U diag(S) Vt', sub)
    elif U is not None:
        Uk = U.sub(0, m, 0, k)
        c.err('recon', R.rel((A0 @ A0.H() @ Uk - Uk @ D @ D).nrm(), nrm * nrm), '%s:left-vectors:%s' % (name, flags),
              'A A^H U = U diag(S)^2', sub)
    elif Vt is not None:
        Vk = Vt.sub(0, k, 0, n).H()
        c.err('recon', R.rel((A0.H() @ A0 @ Vk - Vk @ D @ D).nrm(), nrm * nrm), '%s:right-vectors:%s' % (name, flags),
              'A^H A V = V diag(S)^2', sub)


@family('svd')
def fam_svd(case, c):
    from cvxopt import lapack
    tc, m, n, seed, name = case['tc'], case['m'], case['n'], case['seed'], case['fn']
    layA, layS, lay = _lay2(case)
    layU, layV = _third(lay, 1), _third(lay, 2)
    k = min(m, n)
    if name == 'gesvd':
        combos = [(ju, jv) for ju in 'ANSO' for jv in 'ANSO' if not (ju == 'O' and jv == 'O')]
    else:
        combos = [(j, j) for j in 'ANSO']
    for A0 in _part(pool('ge', m, n, tc, seed), case):
        sub = _sub(A0, tc=tc, lay=lay)
        sref = None
        for ju, jv in combos:
            if name == 'gesvd':
                udim = {'A': (m, m), 'S': (m, k)}.get(ju)
                vdim = {'A': (n, n), 'S': (k, n)}.get(jv)
                flags = 'jobu=%s,jobvt=%s' % (ju, jv)
                jk = {'jobu': ju, 'jobvt': jv}
                dflt = (ju == 'N' and jv == 'N')
            else:
                udim = {'A': (m, m), 'S': (m, k), 'O': (m, m) if m < n else None}.get(ju)
                vdim = {'A': (n, n), 'S': (k, n), 'O': (n, n) if m >= n else None}.get(ju)
                flags = 'jobz=%s' % ju
                jk = {'jobz': ju}
                dflt = (ju == 'N')
            A = Arr(tc, m, n, A0, layA); S = Arr('d', k, 1, None, None if lay is None else (0, layS[1]))
            U = Arr(tc, udim[0], udim[1], None, layU) if udim else None
            V = Arr(tc, vdim[0], vdim[1], None, layV) if vdim else None
            kw = ({} if lay is None else {'m': m, 'n': n}); kw.update(A.kw('A')); kw.update(S.kwo('S'))
            if not (lay is None and dflt):
                kw.update(jk)
            if U is not None:
                kw['U'] = U.M; kw.update(U.kw('U'))
            if V is not None:
                kw['Vt'] = V.M; kw.update(V.kw('Vt'))
            st, _ = c.call(name, getattr(lapack, name), (A.M, S.M), kw, 'ok', name, dict(sub, flags=flags))
            c.unchanged(A, name + ':footprint:A', 'A after ' + name, sub)
            c.unchanged(S, name + ':footprint:S', 'S after ' + name, sub)
            if U is not None:
                c.unchanged(U, name + ':footprint:U', 'U after ' + name, sub)
            if V is not None:
                c.unchanged(V, name + ':footprint:Vt', 'Vt after ' + name, sub)
            if st != 'ok' or k == 0:
                continue
            s = S.vec()
            Um = U.mat() if U is not None else None
            Vm = V.mat() if V is not None else None
            if name == 'gesvd':
                if ju == 'O':
                    Um = A.mat().sub(0, m, 0, k)
                if jv == 'O':
                    Vm = A.mat().sub(0, k, 0, n)
            elif ju == 'O':
                if m >= n:
                    Um = A.mat().sub(0, m, 0, k)
                else:
                    Vm = A.mat().sub(0, k, 0, n)
            _svd_checks(c, name, A0, s, Um, Vm, sref, flags, dict(sub, flags=flags))
            if sref is None and ju == 'A' and jv == 'A':
                sref = s            # first combination: complete, validated decomposition


def cases_svd(tier, seed):
    for name in ('gesvd', 'gesdd'):
        for tc in 'dz':
            for m in orders(tier, True):
                for n in orders(tier, True):
                    for lay in lays2(tier):
                        parts = 4 if (m == 2 and n == 2) else 1
                        for p in range(parts):
                            yield {'f': 'svd', 'fn': name, 'tc': tc, 'm': m, 'n': n, 'lay': lay, 'seed': seed,
                                   'part': p, 'parts': parts}


CASEGENS.append(cases_svd)


# ============================================================================== Schur: gees, gges
SELECTS = {'re<0.5': (lambda s: s.real < 0.5, lambda s: abs(s.real - 0.5)),
           'abs>1.5': (lambda s: abs(s) > 1.5, lambda s: abs(abs(s) - 1.5))}


def _schur_structure(c, name, T, w, tc, scale, sub):
    """T upper (quasi-)triangular and w = its eigenvalues, in diagonal order.  Returns True if consistent."""
    n = T.n
    if tc == 'z':
        if not c.err('struct', R.is_upper(T, scale), name + ':S-not-upper-triangular', 'S is not upper triangular', sub):
            return False
        if w is not None:
            return _cmpvals(c, w, [T.a[i][i] for i in range(n)], scale, name + ':eigenvalues-vs-diagonal',
                            'w differs from the diagonal of S', sub)
        return True
    blocks = R.quasi_blocks(T, scale)
    if blocks is None:
        c.bad(name + ':S-not-quasi-triangular', 'S is not upper quasi-triangular with 1x1 / 2x2 blocks', sub)
        return False
    if w is None:
        return True
    ok = True
    for i, size in blocks:
        if size == 1:
            ok &= c.err('eigval', R.rel(abs(w[i] - T.a[i][i]), scale), name + ':eigenvalues-vs-diagonal',
                        'w[%d] differs from the 1x1 diagonal block of S' % i, sub)
        else:
            for kk in (i, i + 1):
                ok &= c.err('eigval', R.block_eig_err(T, None, i, 2, w[kk], 1.0, scale), name + ':eigenvalues-vs-diagonal',
                            'w[%d] is not an eigenvalue of the 2x2 diagonal block of S' % kk, sub)
            if abs(w[i] - w[i + 1].conjugate()) > TOL * scale or abs(w[i].imag) == 0.0:
                c.bad(name + ':2x2-block-not-conjugate-pair', 'w[%d], w[%d] = %r, %r' % (i, i + 1, w[i], w[i + 1]), sub)
                ok = False
    return ok


def _match_spectrum(got, want, tol):
    """multiset equality up to tol (greedy; spectra of the pool matrices are either equal or well separated)"""
    rest = list(want)
    for g in got:
        j = min(range(len(rest)), key=lambda t: abs(rest[t] - g)) if rest else None
        if j is None or abs(rest[j] - g) > tol:
            return False
        rest.pop(j)
    return not rest


@family('schur')
def fam_schur(case, c):
    from cvxopt import lapack
    tc, n, seed = case['tc'], case['n'], case['seed']
    layA, layV, lay = _lay2(case)
    layw = _third(lay)
    for A0 in _part(pool('ge', n, n, tc, seed), case):
        sub = _sub(A0, tc=tc, lay=lay)
        scale = max(1.0, A0.nrm())
        wref = None
        for selname in (None, 're<0.5', 'abs>1.5'):
            for give_w, give_V in ((True, True), (True, False), (False, True), (False, False)):
                A = Arr(tc, n, n, A0, layA)
                W = Arr('z', n, 1, None, None if lay is None else (0, layw[1]))
                V = Arr(tc, n, n, None, layV)
                kw = ({} if lay is None else {'n': n}); kw.update(A.kw('A'))
                if give_w:
                    kw['w'] = W.M; kw.update(W.kwo('w'))
                if give_V:
                    kw['V'] = V.M; kw.update(V.kw('V'))
                if selname:
                    kw['select'] = SELECTS[selname][0]
                tag = 'gees' + (':select' if selname else '')
                sub2 = dict(sub, select=selname, w=give_w, V=give_V)
                if selname and (wref is None or any(SELECTS[selname][1](x) < 1e-3 for x in wref)):
                    continue
                st, sdim = c.call('gees', lapack.gees, (A.M,), kw, 'ok', tag, sub2)
                c.unchanged(A, 'gees:footprint:A', 'A after gees', sub2)
                c.unchanged(W, 'gees:footprint:w', 'w after gees', sub2)
                c.unchanged(V, 'gees:footprint:V', 'V after gees', sub2)
                if not give_w:
                    c.untouched(W, 'gees:footprint:w', 'unused w buffer', sub2)
                if not give_V:
                    c.untouched(V, 'gees:footprint:V', 'unused V buffer', sub2)
                if st != 'ok':
                    continue
                if n == 0:
                    if sdim != 0:
                        c.bad('gees:sdim', 'gees returned %r for n = 0' % (sdim,), sub2)
                    continue
                T = A.mat()
                w = W.vec() if give_w else None
                if not _schur_structure(c, 'gees', T, w, tc, scale, sub2):
                    continue
                if give_V:
                    c.err('recon', R.schur_err(A0, V.mat(), T), 'gees:reconstruction' + (':select' if selname else ''),
                          'A = V S V^H, V^H V = I', sub2)
                if give_w and give_V and selname is None:
                    wref = w
                if w is not None and wref is not None and not _match_spectrum(w, wref, 1e-7 * scale):
                    c.bad('gees:spectrum-changed', 'eigenvalues %r differ from those of the validated factorization %r'
                          % (w, wref), sub2)
                if selname is None:
                    if sdim != 0:
                        c.bad('gees:sdim', 'gees returned %r without select' % (sdim,), sub2)
                elif w is not None:
                    f = SELECTS[selname][0]
                    flags = [bool(f(x) or f(x.conjugate())) if tc == 'd' else bool(f(x)) for x in w]
                    want = sum(flags)
                    if sdim != want:
                        c.bad('gees:sdim', 'gees returned sdim = %r, but %d of the returned eigenvalues %r satisfy %s'
                              % (sdim, want, w, selname), sub2)
                    elif flags != [True] * want + [False] * (n - want):
                        c.bad('gees:selected-eigenvalues-not-leading', 'eigenvalues %r are not ordered by %s'
                              % (w, selname), sub2)


def cases_schur(tier, seed):
    for tc in 'dz':
        for n in orders(tier, True):
            for lay in lays2(tier):
                parts = 4 if n == 2 else 1
                for p in range(parts):
                    yield {'f': 'schur', 'tc': tc, 'n': n, 'lay': lay, 'seed': seed, 'part': p, 'parts': parts}


CASEGENS.append(cases_schur)

GSELECTS = {'re<0.5': (lambda a, b: b != 0.0 and (a / b).real < 0.5,
                       lambda a, b: abs((a / b).real - 0.5) if b != 0.0 else 1.0)}


def _b_pool(n, tc, seed):
    I = Mat.eye(n)
    if tc == 'z':
        I = Mat(n, n, [[complex(x) for x in r] for r in I.a])
    ge = pool('ge', n, n, tc, seed)
    out = [I]
    ns = [M for M in ge if not R.is_singular(M)]
    sg = [M for M in ge if R.is_singular(M) and M.nrm() > 0]
    if ns:
        out.append(ns[len(ns) // 2])
    if sg:
        out.append(sg[len(sg) // 2])
    return out if n > 0 else [I]


@family('gschur')
def fam_gschur(case, c):
    from cvxopt import lapack
    tc, n, seed = case['tc'], case['n'], case['seed']
    layA, layB, lay = _lay2(case)
    layL, layR, laya = _third(lay, 1), _third(lay, 2), _third(lay, 0)
    for B0 in _b_pool(n, tc, seed):
        for A0 in _part(pool('ge', n, n, tc, seed), case):
            sub = _sub(A0, B=B0.tolist(), tc=tc, lay=lay)
            sa, sb = max(1.0, A0.nrm()), max(1.0, B0.nrm())
            ref = None
            for selname in (None, 're<0.5'):
                for give_ab, give_L, give_R in ((True, True, True), (True, False, False), (False, True, False),
                                                (False, False, True)):
                    A = Arr(tc, n, n, A0, layA); B = Arr(tc, n, n, B0, layB)
                    a = Arr('z', n, 1, None, None if lay is None else (0, laya[1]))
                    b = Arr('d', n, 1, None, None if lay is None else (0, (laya[1] + 1) % 3))
                    VL = Arr(tc, n, n, None, layL); VR = Arr(tc, n, n, None, layR)
                    kw = ({} if lay is None else {'n': n}); kw.update(A.kw('A')); kw.update(B.kw('B'))
                    if give_ab:
                        kw['a'] = a.M; kw['b'] = b.M; kw.update(a.kwo('a')); kw.update(b.kwo('b'))
                    if give_L:
                        kw['Vl'] = VL.M; kw.update(VL.kw('Vl'))
                    if give_R:
                        kw['Vr'] = VR.M; kw.update(VR.kw('Vr'))
                    sub2 = dict(sub, select=selname, ab=give_ab, Vl=give_L, Vr=give_R)
                    if selname:
                        if ref is None or not give_ab:
                            continue
                        ra, rb = ref
                        if any(abs(x) + abs(y) < 1e-6 for x, y in zip(ra, rb)) or \
                           any(0.0 < abs(y) < 1e-6 for y in rb) or \
                           any(GSELECTS[selname][1](x, y) < 1e-3 for x, y in zip(ra, rb)):
                            continue        # singular pencil or an eigenvalue at the threshold: ordering is ill-posed
                        kw['select'] = GSELECTS[selname][0]
                    st, sdim = c.call('gges', lapack.gges, (A.M, B.M), kw, 'ok', 'gges' + (':select' if selname else ''), sub2)
                    for nm, v, used in (('A', A, True), ('B', B, True), ('a', a, give_ab), ('b', b, give_ab),
                                        ('Vl', VL, give_L), ('Vr', VR, give_R)):
                        if used:
                            c.unchanged(v, 'gges:footprint:' + nm, nm + ' after gges', sub2)
                        else:
                            c.untouched(v, 'gges:footprint:' + nm, 'unused buffer ' + nm, sub2)
                    if st != 'ok':
                        continue
                    if n == 0:
                        if sdim != 0:
                            c.bad('gges:sdim', 'gges returned %r for n = 0' % (sdim,), sub2)
                        continue
                    S, T = A.mat(), B.mat()
                    if not c.err('struct', R.is_upper(T, sb), 'gges:T-not-upper-triangular', 'T is not upper triangular', sub2):
                        continue
                    if tc == 'z':
                        if not c.err('struct', R.is_upper(S, sa), 'gges:S-not-upper-triangular', 'S is not upper triangular', sub2):
                            continue
                        blocks = [(i, 1) for i in range(n)]
                    else:
                        blocks = R.quasi_blocks(S, sa)
                        if blocks is None:
                            c.bad('gges:S-not-quasi-triangular', 'S is not upper quasi-triangular', sub2)
                            continue
                    # documented: diag(T) is (real and) nonnegative
                    for i, size in blocks:
                        for kk in range(i, i + size):
                            x = T.a[kk][kk]
                            if (x.real if tc == 'z' else x) < -TOL * sb or (tc == 'z' and abs(x.imag) > TOL * sb):
                                c.bad('gges:T-diagonal-not-nonnegative' + (':ordered-2x2-block' if (selname and size == 2) else ''),
                                      'diag(T) = %r' % ([T.a[t][t] for t in range(n)],), sub2)
                    if give_ab:
                        av, bv = a.vec(), b.vec()
                        for i, size in blocks:
                            for kk in range(i, i + size):
                                c.err('eigval', R.block_eig_err(S, T, i, size, av[kk], bv[kk], sa * sb), 'gges:eigenvalues-vs-blocks',
                                      '(a[%d], b[%d]) is not an eigenvalue pair of the diagonal block of (S, T)' % (kk, kk), sub2)
                                if size == 1 and tc == 'z':
                                    c.err('eigval', R.rel(abs(av[kk] - S.a[kk][kk]) + abs(bv[kk] - T.a[kk][kk].real), sa + sb),
                                          'gges:eigenvalues-vs-diagonal', 'a, b differ from diag(S), diag(T)', sub2)
                        if give_L and give_R and selname is None:
                            ref = (av, bv)
                    if give_L and give_R:
                        Zl, Zr = VL.mat(), VR.mat()
                        e = max(R.rel((Zl @ S @ Zr.H() - A0).nrm(), sa), R.rel((Zl @ T @ Zr.H() - B0).nrm(), sb),
                                R.orth_cols(Zl), R.orth_cols(Zr))
                        c.err('recon', e, 'gges:reconstruction' + (':select' if selname else ''),
                              'A = Vl S Vr^H, B = Vl T Vr^H, Vl and Vr unitary', sub2)
                    elif give_L:
                        c.err('orth', R.orth_cols(VL.mat()), 'gges:Vl-orthonormality', 'Vl^H Vl = I', sub2)
                    elif give_R:
                        c.err('orth', R.orth_cols(VR.mat()), 'gges:Vr-orthonormality', 'Vr^H Vr = I', sub2)
                    if selname is None:
                        if sdim != 0:
                            c.bad('gges:sdim', 'gges returned %r without select' % (sdim,), sub2)
                    elif give_ab:
                        f = GSELECTS[selname][0]
                        flags = [bool(f(x, y) or f(x.conjugate(), y)) if tc == 'd' else bool(f(x, y)) for x, y in zip(av, bv)]
                        want = sum(flags)
                        if sdim != want:
                            c.bad('gges:sdim', 'gges returned sdim = %r, but %d of the returned pairs (a=%r, b=%r) satisfy %s'
                                  % (sdim, want, av, bv, selname), sub2)
                        elif flags != [True] * want + [False] * (n - want):
                            c.bad('gges:selected-eigenvalues-not-leading', 'pairs (a=%r, b=%r) are not ordered by %s'
                                  % (av, bv, selname), sub2)


def cases_gschur(tier, seed):
    for tc in 'dz':
        for n in orders(tier, True):
            for lay in lays2(tier):
                parts = 4 if n == 2 else 1
                for p in range(parts):
                    yield {'f': 'gschur', 'tc': tc, 'n': n, 'lay': lay, 'seed': seed, 'part': p, 'parts': parts}


CASEGENS.append(cases_gschur)


# ================================================================================ lacpy, larfg, larfx
@family('aux')
def fam_aux(case, c):
    from cvxopt import lapack
    tc, seed, which = case['tc'], case['seed'], case['fn']
    layA, layB, lay = _lay2(case)
    pal = _pal(seed, tc)
    if which == 'lacpy':
        for m in range(4):
            for n in range(4):
                A0 = _cmat(m, n, tc)
                for uplo in 'NLU':
                    A = Arr(tc, m, n, A0, layA); B = Arr(tc, m, n, None, layB)
                    kw = ({} if lay is None else {'m': m, 'n': n}); kw.update(A.kw('A')); kw.update(B.kw('B'))
                    if not (lay is None and uplo == 'N'):
                        kw['uplo'] = uplo
                    sub = _sub(A0, tc=tc, uplo=uplo, lay=lay)
                    st, _ = c.call('lacpy', lapack.lacpy, (A.M, B.M), kw, 'ok',
                                   'lacpy:empty-matrix' if (m == 0 or n == 0) else 'lacpy', sub)
                    c.untouched(A, 'lacpy:input-modified', 'A after lacpy', sub)
                    keep = [(i, j) for i in range(m) for j in range(n) if (uplo == 'U' and i > j) or (uplo == 'L' and i < j)]
                    c.unchanged(B, 'lacpy:footprint:B:uplo=' + uplo, 'B outside the copied part', sub, keep)
                    if st == 'ok':
                        got = B.mat()
                        for i in range(m):
                            for j in range(n):
                                if (i, j) not in keep and got.a[i][j] != A0.a[i][j]:
                                    c.bad('lacpy:value:uplo=' + uplo, 'B[%d,%d] = %r, A[%d,%d] = %r' %
                                          (i, j, got.a[i][j], i, j, A0.a[i][j]), sub)
        return
    if which == 'larfg':
        xs = [()] + [(a,) for a in pal] + [(a, b) for a in pal for b in pal] + [(pal[0], pal[3], pal[2])]
        for alpha in pal:
            for x in xs:
                lx = len(x)
                sub = {'alpha': alpha, 'x': list(x), 'tc': tc, 'lay': lay}
                a = Arr(tc, 1, 1, Mat(1, 1, [[alpha]]), None if lay is None else (0, layA[1]))
                X = Arr(tc, lx, 1, Mat(lx, 1, [[t] for t in x]), None if lay is None else (0, layB[1]))
                kw = {} if lay is None else {'n': lx + 1, 'offseta': a.off, 'offsetx': X.off}
                st, tau = c.call('larfg', lapack.larfg, (a.M, X.M), kw, 'ok', 'larfg', sub)
                c.unchanged(a, 'larfg:footprint:alpha', 'alpha after larfg', sub)
                c.unchanged(X, 'larfg:footprint:x', 'x after larfg', sub)
                if st != 'ok':
                    continue
                beta = a.vec()[0]
                u = Mat(lx + 1, 1, [[1.0]] + [[t] for t in X.vec()])
                y = Mat(lx + 1, 1, [[alpha]] + [[t] for t in x])
                Hh = Mat.eye(lx + 1) - (u @ u.H()).scale(R._cj(tau))
                want = Mat(lx + 1, 1, [[beta]] + [[0.0]] * lx)
                e1 = R.rel((Hh @ y - want).nrm(), max(1.0, y.nrm()))
                e2 = abs(2 * (tau.real if isinstance(tau, complex) else tau) - abs(tau) ** 2 * (u.nrm() ** 2))
                c.err('recon', max(e1, e2), 'larfg:reflector', 'H^H [alpha; x] = [beta; 0] with H unitary', sub)
        return
    # larfx
    taus = [0.0, 2.0, 0.5] if tc == 'd' else [0.0, 2.0 + 0j, 0.5 - 0.5j, 1j]
    for side in 'LR':
        for m in range(4):
            for n in range(4):
                C0 = _cmat(m, n, tc)
                lv = m if side == 'L' else n
                v0 = [_cmat(lv, 1, tc).a[i][0] for i in range(lv)]
                for tau in taus:
                    V = Arr(tc, lv, 1, Mat(lv, 1, [[t] for t in v0]), None if lay is None else (0, layA[1]))
                    C = Arr(tc, m, n, C0, layB)
                    kw = ({} if lay is None else {'m': m, 'n': n, 'offsetv': V.off}); kw.update(C.kw('C'))
                    if not (lay is None and side == 'L'):
                        kw['side'] = side
                    sub = _sub(C0, v=v0, tau=tau, side=side, tc=tc, lay=lay)
                    st, _ = c.call('larfx', lapack.larfx, (V.M, tau, C.M), kw, 'ok',
                                   'larfx:empty-matrix' if (m == 0 or n == 0) else 'larfx', sub)
                    c.untouched(V, 'larfx:input-modified', 'v after larfx', sub)
                    c.unchanged(C, 'larfx:footprint:C', 'C after larfx', sub)
                    if st == 'ok' and m > 0 and n > 0:
                        u = Mat(lv, 1, [[t] for t in v0])
                        H = Mat.eye(lv) - (u @ u.H()).scale(tau)
                        want = H @ C0 if side == 'L' else C0 @ H
                        c.err('recon', R.diff(C.mat(), want, max(1.0, want.nrm())), 'larfx:product:side=' + side,
                              'C := H C / C H with H = I - tau v v^H', sub)
    if tc == 'd' and lay is None:
        V = Arr('d', 2, 1, Mat(2, 1, [[1.0], [2.0]])); C = Arr('d', 2, 2, _cmat(2, 2, 'd'))
        c.call('larfx', lapack.larfx, (V.M, 1j, C.M), {}, 'reject', 'larfx:complex-tau-real-v')
        c.untouched(C, 'larfx:rejected-call-modified-C', 'C after rejected larfx')


def cases_aux(tier, seed):
    for which in ('lacpy', 'larfg', 'larfx'):
        for tc in 'dz':
            for lay in lays2(tier):
                yield {'f': 'aux', 'fn': which, 'tc': tc, 'lay': lay, 'seed': seed}


CASEGENS.append(cases_aux)


# ======================================================== size-inconsistent arguments: TypeError / ValueError
def _reject_table(tc, n):
    """(wrapper name, label, builder) ; builder() -> (args, kwargs, [Arr to stay untouched]).  Every entry violates a
    constraint stated in the docstring of the wrapper (or in lapack.rst)."""
    o = 'z' if tc == 'd' else 'd'
    G = pool('ge', n, n, tc, 0)[-1] if n <= 2 else pool('ge', n, n, tc, 0)[0]
    H = [M for M in pool('he', n, n, tc, 0) if R.chol_class(M) == 'pd'][0]

    def sq(): return Arr(tc, n, n, G)
    def he(): return Arr(tc, n, n, H)
    def rect(): return Arr(tc, n, n + 1, _cmat(n, n + 1, tc))
    def b(rows=n, t=tc, cols=1): return Arr(t, rows, cols, rhs(rows, cols, t))
    def iv(k): return Arr('i', k, 1)
    def dv(k, t='d'): return Arr(t, k, 1)
    T = []

    def add(fn, label, f):
        T.append((fn, label, f))
    # ---- solvers
    for fn in ('gesv', 'sysv', 'hesv'):
        add(fn, 'A-not-square', lambda: ((lambda A, B: ((A.M, B.M), {}, [A, B]))(rect(), b())))
        add(fn, 'B-too-few-rows', lambda: ((lambda A, B: ((A.M, B.M), {}, [A, B]))(sq(), b(n - 1))))
        add(fn, 'ipiv-too-short', lambda: ((lambda A, B, P: ((A.M, B.M, P.M), {}, [A, B, P]))(sq(), b(), iv(n - 1))))
        add(fn, 'conflicting-typecodes', lambda: ((lambda A, B: ((A.M, B.M), {}, [A, B]))(sq(), b(n, o))))
        add(fn, 'ipiv-not-integer', lambda: ((lambda A, B, P: ((A.M, B.M, P.M), {}, [A, B, P]))(sq(), b(), dv(n))))
    for fn in ('sysv', 'hesv', 'posv', 'potrs'):
        add(fn, 'uplo=X', lambda: ((lambda A, B: ((A.M, B.M), {'uplo': 'X'}, [A, B]))(he(), b())))
    add('getrf', 'ipiv-too-short', lambda: ((lambda A, P: ((A.M, P.M), {}, [A, P]))(sq(), iv(n - 1))))
    add('getrs', 'B-too-few-rows', lambda: ((lambda A, P, B: ((A.M, P.M, B.M), {}, [A, P, B]))(sq(), iv(n), b(n - 1))))
    add('getrs', 'trans=X', lambda: ((lambda A, P, B: ((A.M, P.M, B.M), {'trans': 'X'}, [A, P, B]))(sq(), iv(n), b())))
    add('getrs', 'A-not-square', lambda: ((lambda A, P, B: ((A.M, P.M, B.M), {}, [A, P, B]))(rect(), iv(n), b())))
    add('getri', 'A-not-square', lambda: ((lambda A, P: ((A.M, P.M), {}, [A, P]))(rect(), iv(n))))
    add('getri', 'ipiv-too-short', lambda: ((lambda A, P: ((A.M, P.M), {}, [A, P]))(sq(), iv(n - 1))))
    add('potrf', 'A-not-square', lambda: ((lambda A: ((A.M,), {}, [A]))(rect())))
    add('potrf', 'uplo=X', lambda: ((lambda A: ((A.M,), {'uplo': 'X'}, [A]))(he())))
    add('posv', 'B-too-few-rows', lambda: ((lambda A, B: ((A.M, B.M), {}, [A, B]))(he(), b(n - 1))))
    add('posv', 'conflicting-typecodes', lambda: ((lambda A, B: ((A.M, B.M), {}, [A, B]))(he(), b(n, o))))
    add('potrs', 'B-too-few-rows', lambda: ((lambda A, B: ((A.M, B.M), {}, [A, B]))(he(), b(n - 1))))
    for fn in ('sytrf', 'hetrf'):
        add(fn, 'A-not-square', lambda: ((lambda A, P: ((A.M, P.M), {}, [A, P]))(rect(), iv(n))))
        add(fn, 'ipiv-too-short', lambda: ((lambda A, P: ((A.M, P.M), {}, [A, P]))(he(), iv(n - 1))))
    for fn in ('sytrs', 'hetrs'):
        add(fn, 'B-too-few-rows', lambda: ((lambda A, P, B: ((A.M, P.M, B.M), {}, [A, P, B]))(he(), iv(n), b(n - 1))))
    add('trtrs', 'A-not-square', lambda: ((lambda A, B: ((A.M, B.M), {}, [A, B]))(rect(), b())))
    add('trtrs', 'B-too-few-rows', lambda: ((lambda A, B: ((A.M, B.M), {}, [A, B]))(sq(), b(n - 1))))
    add('trtrs', 'diag=X', lambda: ((lambda A, B: ((A.M, B.M), {'diag': 'X'}, [A, B]))(sq(), b())))
    add('trtri', 'A-not-square', lambda: ((lambda A: ((A.M,), {}, [A]))(rect())))
    add('tbtrs', 'B-too-few-rows', lambda: ((lambda A, B: ((A.M, B.M), {}, [A, B]))(sq(), b(n - 1))))
    add('gbsv', 'A-too-few-rows-for-kl', lambda: ((lambda A, B: ((A.M, 2, B.M), {}, [A, B]))(Arr(tc, 2, n, _cmat(2, n, tc)), b())))
    add('gbsv', 'B-too-few-rows', lambda: ((lambda A, B: ((A.M, 1, B.M), {}, [A, B]))(Arr(tc, 3, n, _cmat(3, n, tc)), b(n - 1))))
    add('gbtrf', 'ipiv-too-short', lambda: ((lambda A, P: ((A.M, n, 1, P.M), {}, [A, P]))(Arr(tc, 4, n, _cmat(4, n, tc)), iv(n - 1))))
    add('gtsv', 'dl-too-short', lambda: ((lambda dl, d, du, B: ((dl.M, d.M, du.M, B.M), {}, [dl, d, du, B]))(
        dv(max(n - 2, 0), tc), dv(n, tc), dv(n - 1, tc), b())))
    add('gtsv', 'B-too-few-rows', lambda: ((lambda dl, d, du, B: ((dl.M, d.M, du.M, B.M), {}, [dl, d, du, B]))(
        dv(n - 1, tc), dv(n, tc), dv(n - 1, tc), b(n - 1))))
    add('gttrf', 'ipiv-too-short', lambda: ((lambda dl, d, du, du2, P: ((dl.M, d.M, du.M, du2.M, P.M), {}, [dl, d, du, du2, P]))(
        dv(n - 1, tc), dv(n, tc), dv(n - 1, tc), dv(max(n - 2, 0), tc), iv(n - 1))))
    add('ptsv', 'e-too-short', lambda: ((lambda d, e, B: ((d.M, e.M, B.M), {}, [d, e, B]))(dv(n), dv(max(n - 2, 0), tc), b())))
    add('pttrf', 'd-not-real', lambda: ((lambda d, e: ((d.M, e.M), {}, [d, e]))(dv(n, 'z'), dv(n - 1, 'z'))))
    add('pbsv', 'B-too-few-rows', lambda: ((lambda A, B: ((A.M, B.M), {}, [A, B]))(Arr(tc, 2, n, _cmat(2, n, tc)), b(n - 1))))
    # ---- least squares / QR
    add('gels', 'B-too-few-rows', lambda: ((lambda A, B: ((A.M, B.M), {}, [A, B]))(rect(), b(n))))
    add('gels', 'conflicting-typecodes', lambda: ((lambda A, B: ((A.M, B.M), {}, [A, B]))(rect(), b(n + 1, o))))
    for fn in ('geqrf', 'gelqf'):
        add(fn, 'tau-too-short', lambda: ((lambda A, t: ((A.M, t.M), {}, [A, t]))(rect(), dv(n - 1, tc))))
        add(fn, 'conflicting-typecodes', lambda: ((lambda A, t: ((A.M, t.M), {}, [A, t]))(rect(), dv(n, o))))
    add('geqp3', 'jpvt-too-short', lambda: ((lambda A, J, t: ((A.M, J.M, t.M), {}, [A, J, t]))(rect(), iv(n), dv(n, tc))))
    add('geqp3', 'tau-too-short', lambda: ((lambda A, J, t: ((A.M, J.M, t.M), {}, [A, J, t]))(rect(), iv(n + 1), dv(n - 1, tc))))
    add('unmqr', 'C-wrong-row-count', lambda: ((lambda A, t, C: ((A.M, t.M, C.M), {}, [A, t, C]))(sq(), dv(n, tc), b(n - 1))))
    add('unmqr', 'side=X', lambda: ((lambda A, t, C: ((A.M, t.M, C.M), {'side': 'X'}, [A, t, C]))(sq(), dv(n, tc), b())))
    add('ungqr', 'n>m', lambda: ((lambda A, t: ((A.M, t.M), {'n': n + 1}, [A, t]))(rect(), dv(n, tc))))
    add('unglq', 'k>m', lambda: ((lambda A, t: ((A.M, t.M), {'m': n - 1}, [A, t]))(sq(), dv(n, tc))))
    # ---- eigenvalues / SVD / Schur
    for fn in ('heev', 'heevd', 'heevx', 'heevr') + (('syev', 'syevd', 'syevx', 'syevr') if tc == 'd' else ()):
        add(fn, 'A-not-square', lambda: ((lambda A, W: ((A.M, W.M), {}, [A, W]))(rect(), dv(n))))
        add(fn, 'W-too-short', lambda: ((lambda A, W: ((A.M, W.M), {}, [A, W]))(he(), dv(n - 1))))
        add(fn, 'W-not-real', lambda: ((lambda A, W: ((A.M, W.M), {}, [A, W]))(he(), dv(n, 'z'))))
        add(fn, 'jobz=X', lambda: ((lambda A, W: ((A.M, W.M), {'jobz': 'X'}, [A, W]))(he(), dv(n))))
    for fn in ('heevx', 'heevr') + (('syevx', 'syevr') if tc == 'd' else ()):
        add(fn, 'jobz=V-without-Z', lambda: ((lambda A, W: ((A.M, W.M), {'jobz': 'V'}, [A, W]))(he(), dv(n))))
        add(fn, 'Z-too-few-columns', lambda: ((lambda A, W, Z: ((A.M, W.M), {'jobz': 'V', 'Z': Z.M}, [A, W, Z]))(
            he(), dv(n), Arr(tc, n, n - 1))))
        add(fn, 'range=X', lambda: ((lambda A, W: ((A.M, W.M), {'range': 'X'}, [A, W]))(he(), dv(n))))
    for fn in ('hegv',) + (('sygv',) if tc == 'd' else ()):
        add(fn, 'W-too-short', lambda: ((lambda A, B, W: ((A.M, B.M, W.M), {}, [A, B, W]))(he(), he(), dv(n - 1))))
        add(fn, 'itype=4', lambda: ((lambda A, B, W: ((A.M, B.M, W.M), {'itype': 4}, [A, B, W]))(he(), he(), dv(n))))
        add(fn, 'conflicting-typecodes', lambda: ((lambda A, B, W: ((A.M, B.M, W.M), {}, [A, B, W]))(
            he(), Arr(o, n, n, _cx(Mat.eye(n), o)), dv(n))))
    for fn in ('gesvd', 'gesdd'):
        add(fn, 'S-too-short', lambda: ((lambda A, S: ((A.M, S.M), {}, [A, S]))(rect(), dv(n - 1))))
        add(fn, 'S-not-real', lambda: ((lambda A, S: ((A.M, S.M), {}, [A, S]))(rect(), dv(n, 'z'))))
    add('gesvd', 'jobu=A-without-U', lambda: ((lambda A, S: ((A.M, S.M), {'jobu': 'A'}, [A, S]))(rect(), dv(n))))
    add('gesvd', 'jobu=A-U-too-few-columns', lambda: ((lambda A, S, U: ((A.M, S.M), {'jobu': 'A', 'U': U.M}, [A, S, U]))(
        rect(), dv(n), Arr(tc, n, n - 1))))
    add('gesvd', 'jobvt=A-Vt-too-few-columns', lambda: ((lambda A, S, V: ((A.M, S.M), {'jobvt': 'A', 'Vt': V.M}, [A, S, V]))(
        rect(), dv(n), Arr(tc, n + 1, n))))
    add('gesvd', 'jobu=O,jobvt=O', lambda: ((lambda A, S: ((A.M, S.M), {'jobu': 'O', 'jobvt': 'O'}, [A, S]))(rect(), dv(n))))
    add('gesdd', 'jobz=A-without-U', lambda: ((lambda A, S: ((A.M, S.M), {'jobz': 'A'}, [A, S]))(rect(), dv(n))))
    add('gesdd', 'jobz=X', lambda: ((lambda A, S: ((A.M, S.M), {'jobz': 'X'}, [A, S]))(rect(), dv(n))))
    add('gees', 'A-not-square', lambda: ((lambda A: ((A.M,), {}, [A]))(rect())))
    add('gees', 'w-too-short', lambda: ((lambda A, w: ((A.M, w.M), {}, [A, w]))(sq(), dv(n - 1, 'z'))))
    add('gees', 'w-not-complex', lambda: ((lambda A, w: ((A.M, w.M), {}, [A, w]))(sq(), dv(n, 'd'))))
    add('gees', 'V-too-small', lambda: ((lambda A, V: ((A.M,), {'V': V.M}, [A, V]))(sq(), Arr(tc, n, n - 1))))
    add('gees', 'V-conflicting-typecode', lambda: ((lambda A, V: ((A.M,), {'V': V.M}, [A, V]))(sq(), Arr(o, n, n))))
    add('gees', 'select-not-a-function', lambda: ((lambda A: ((A.M,), {'select': 1}, [A]))(sq())))
    add('gges', 'B-different-order', lambda: ((lambda A, B: ((A.M, B.M), {}, [A, B]))(sq(), Arr(tc, n - 1, n - 1, _cmat(n - 1, n - 1, tc)))))
    add('gges', 'a-without-b', lambda: ((lambda A, B, a: ((A.M, B.M), {'a': a.M}, [A, B, a]))(sq(), sq(), dv(n, 'z'))))
    add('gges', 'b-too-short', lambda: ((lambda A, B, a, bb: ((A.M, B.M), {'a': a.M, 'b': bb.M}, [A, B, a, bb]))(
        sq(), sq(), dv(n, 'z'), dv(n - 1))))
    add('lacpy', 'B-too-small', lambda: ((lambda A, B: ((A.M, B.M), {}, [A, B]))(sq(), Arr(tc, n - 1, n))))
    add('lacpy', 'conflicting-typecodes', lambda: ((lambda A, B: ((A.M, B.M), {}, [A, B]))(sq(), Arr(o, n, n))))
    return T


@family('args')
def fam_args(case, c):
    from cvxopt import lapack
    tc, n = case['tc'], case['n']
    for fn, label, build in _reject_table(tc, n):
        args, kw, arrs = build()
        sub = {'tc': tc, 'n': n, 'call': fn, 'what': label}
        c.call(fn, getattr(lapack, fn), args, kw, 'reject', '%s:%s' % (fn, label), sub)
        for a in arrs:
            c.untouched(a, '%s:rejected-call-modified-argument' % fn, 'an argument of the rejected call %s(%s)' % (fn, label), sub)


def cases_args(tier, seed):
    for tc in 'dz':
        for n in (2, 3):
            yield {'f': 'args', 'tc': tc, 'n': n, 'seed': seed}


CASEGENS.append(cases_args)


# ========================================= optional arguments documented as "= None" passed as an explicit None
@family('none')
def fam_none(case, c):
    from cvxopt import lapack
    tc, n, seed = case['tc'], case['n'], case['seed']
    G = [M for M in pool('ge', n, n, tc, seed) if not R.is_singular(M)][-1]
    H = [M for M in pool('he', n, n, tc, seed) if not R.is_singular(M)][-1]
    B0 = rhs(n, 1, tc)
    T = [('gesv', 'ipiv', lambda A, B: ((A.M, B.M), {'ipiv': None}), G),
         ('sysv', 'ipiv', lambda A, B: ((A.M, B.M), {'ipiv': None}), R.symm_from(G, 'L', False)),
         ('hesv', 'ipiv', lambda A, B: ((A.M, B.M), {'ipiv': None}), H)]
    for fn, arg, mk, M in T:
        A = Arr(tc, n, n, M); B = Arr(tc, n, 1, B0)
        args, kw = mk(A, B)
        sub = _sub(M, tc=tc, call='%s(A, B, %s=None)' % (fn, arg))
        st, _ = c.call(fn, getattr(lapack, fn), args, kw, 'ok', 'explicit-None:%s:%s' % (fn, arg), sub)
        if st == 'ok':
            c.untouched(A, fn + ':no-ipiv:A-modified', 'A after %s(A, B, ipiv=None)' % fn, sub)
            c.err('solve', R.resid(M, B.mat(), B0), fn + ':no-ipiv:residual', 'A X = B', sub)
    Mb = R.band_mask(G, 1, 1)
    A = Arr(tc, 3, n, R.gb_pack(Mb, 1, 1)); B = Arr(tc, n, 1, B0)
    st, _ = c.call('gbsv', lapack.gbsv, (A.M, 1, B.M), {'ipiv': None}, 'ok' if not R.is_singular(Mb) else 'either',
                   'explicit-None:gbsv:ipiv', _sub(Mb, tc=tc, call='gbsv(A, 1, B, ipiv=None)'))
    if st == 'ok':
        c.untouched(A, 'gbsv:no-ipiv:A-modified', 'A after gbsv(A, kl, B, ipiv=None)')
        c.err('solve', R.resid(Mb, B.mat(), B0), 'gbsv:no-ipiv:residual', 'A X = B')
    for arg in ('w', 'V', 'select'):
        A = Arr(tc, n, n, G)
        c.call('gees', lapack.gees, (A.M,), {arg: None}, 'ok', 'explicit-None:gees:' + arg,
               _sub(G, tc=tc, call='gees(A, %s=None)' % arg))
    for arg in ('a', 'b', 'Vl', 'Vr', 'select'):
        A = Arr(tc, n, n, G); B = Arr(tc, n, n, G.T())
        kw = {'a': None, 'b': None} if arg in 'ab' else {arg: None}
        c.call('gges', lapack.gges, (A.M, B.M), kw, 'ok', 'explicit-None:gges:' + ('a,b' if arg in 'ab' else arg),
               _sub(G, tc=tc, call='gges(A, B, %s)' % ', '.join('%s=None' % k for k in kw)))
    for fn in ('gesvd', 'gesdd'):
        A = Arr(tc, n, n, G); S = Arr('d', n, 1)
        c.call(fn, getattr(lapack, fn), (A.M, S.M), {'U': None, 'Vt': None}, 'ok', 'explicit-None:%s:U,Vt' % fn,
               _sub(G, tc=tc, call=fn + '(A, S, U=None, Vt=None)'))
    for fn in ('heevx', 'heevr') + (('syevx', 'syevr') if tc == 'd' else ()):
        A = Arr(tc, n, n, H); W = Arr('d', n, 1)
        c.call(fn, getattr(lapack, fn), (A.M, W.M), {'Z': None}, 'ok', 'explicit-None:%s:Z' % fn,
               _sub(H, tc=tc, call=fn + '(A, W, Z=None)'))


def cases_none(tier, seed):
    for tc in 'dz':
        for n in (2, 3):
            yield {'f': 'none', 'tc': tc, 'n': n, 'seed': seed}


CASEGENS.append(cases_none)


# ================================================================================= coverage self-check
COVERED = ['gbsv', 'gbtrf', 'gbtrs', 'gees', 'gelqf', 'gels', 'geqp3', 'geqrf', 'gesdd', 'gesv', 'gesvd', 'getrf', 'getri',
           'getrs', 'gges', 'gtsv', 'gttrf', 'gttrs', 'heev', 'heevd', 'heevr', 'heevx', 'hegv', 'hesv', 'hetrf', 'hetri',
           'hetrs', 'lacpy', 'larfg', 'larfx', 'orglq', 'orgqr', 'ormlq', 'ormqr', 'pbsv', 'pbtrf', 'pbtrs', 'posv', 'potrf',
           'potri', 'potrs', 'ptsv', 'pttrf', 'pttrs', 'syev', 'syevd', 'syevr', 'syevx', 'sygv', 'sysv', 'sytrf', 'sytri',
           'sytrs', 'tbtrs', 'trtri', 'trtrs', 'unglq', 'ungqr', 'unmlq', 'unmqr']


@family('meta')
def fam_meta(case, c):
    """every public callable of cvxopt.lapack is enumerated by some family above"""
    from cvxopt import lapack
    names = [k for k in dir(lapack) if not k.startswith('_') and callable(getattr(lapack, k))]
    c.count('wrappers-exported', False)
    for k in names:
        if k not in COVERED:
            c.bad('uncovered-wrapper:' + k, 'cvxopt.lapack.%s is exported but not enumerated by this check' % k)
    for k in COVERED:
        if k not in names:
            c.bad('missing-wrapper:' + k, 'cvxopt.lapack.%s is documented but not exported' % k)


def cases_meta(tier, seed):
    yield {'f': 'meta', 'seed': seed}


CASEGENS.append(cases_meta)


# ================================================================================= call histories (explicit-state, depth 2)
# A wrapper must not carry anything over from one call to the next (a cached workspace size, a static scratch buffer, a
# remembered flag).  For every wrapper: configurations = order (3, 4) x optional output matrices given / omitted x every
# value of every flag keyword; histories [b], [a, b], [r, b], [r, a, b] for ALL ordered pairs (a, b) of configurations
# (r = a call of the same wrapper with another order, which displaces anything keyed on the order).  The reference
# observation of [b] and [r, b] is made in a child forked from a server process that has imported cvxopt.lapack and called
# nothing (the initial state); the pair histories then run one after the other in the server itself, so b is observed
# immediately after every a, behind an ever longer prefix: outcome (return value / exception) and the contents of every
# argument after the call must equal the observation made from the initial state.

HFLAGS = {'jobz': ['N', 'V'], 'uplo': ['L', 'U'], 'trans': ['N', 'T', 'C'], 'range': ['A', 'V', 'I'],
          'jobu': ['N', 'A', 'S', 'O'], 'jobvt': ['N', 'A', 'S', 'O'], 'side': ['L', 'R'], 'diag': ['N', 'U'],
          'itype': [1, 2, 3], 'transA': ['N', 'T', 'C'], 'transB': ['N', 'T', 'C']}
HOMIT = '<omitted>'       # the flag keyword is not passed at all: the documented default must apply, whatever was passed before
HFLAGS_FN = {('gesdd', 'jobz'): ['N', 'A', 'S', 'O'], ('lacpy', 'uplo'): ['N', 'L', 'U']}
HOPTMAT = ('ipiv', 'w', 'a', 'b', 'V', 'Vl', 'Vr', 'U', 'Vt', 'Z')


def _hist_configs(name, modname='lapack'):
    import itertools, importlib
    from checks import C19
    mod = importlib.import_module('cvxopt.' + modname)
    sg = C19._lapack_sig(getattr(mod, name))
    if sg is None:
        return None, []
    pos, kws = sg
    flags = [(k, [HOMIT] + HFLAGS_FN.get((name, k), HFLAGS[k])) for k, d in kws if k in HFLAGS]
    optm = [k for k, d in kws if k in HOPTMAT]
    cfgs = []
    for n in (3, 4):
        for om in ((False, True) if optm else (False,)):
            for vals in itertools.product(*[dom for _, dom in flags]):
                cfgs.append({'n': n, 'opt': om, 'flags': dict(zip([k for k, _ in flags], vals))})
    return (pos, optm), cfgs


def _hist_args(name, sig, cfg, modname='lapack'):
    from cvxopt import matrix
    pos, optm = sig
    n = cfg['n']
    tc = 'z' if name[:2] in ('he', 'un') or name in ('dotu', 'geru') else 'd'
    def sq():
        return matrix([(4.0 + i // (n + 1)) if i % (n + 1) == 0 else (0.5 if (i // n + i % n) % 2 else -0.25)
                       for i in range(n * n)], (n, n), tc)
    args = []
    for nm in pos:
        if nm in ('ipiv', 'jpvt'):
            args.append(matrix(list(range(1, n + 1)), (n, 1), 'i'))
        elif nm in ('tau', 'dl', 'du', 'du2', 'd', 'e', 'x', 'v'):
            args.append(matrix([2.0 + i for i in range(n)], (n, 1), 'd' if nm in ('d',) else tc))
        elif nm in ('W', 'S'):
            args.append(matrix(0.0, (n, 1), 'd'))
        elif nm in ('kl', 'ku', 'kd', 'k'):
            args.append(1)
        elif nm == 'm':
            args.append(n)
        elif nm == 'alpha':
            args.append(matrix([1.5], (1, 1), tc) if modname == 'lapack' else 1.5)
        elif modname == 'blas' and nm in ('x', 'y'):
            args.append(matrix([2.0 + i for i in range(n)], (n, 1), tc))
        else:
            args.append(sq())
    kw = dict((k, v) for k, v in cfg['flags'].items() if v != HOMIT)
    if cfg['opt']:
        for k in optm:
            if k == 'ipiv':
                kw[k] = matrix(0, (n, 1), 'i')
            elif k in ('w', 'a'):
                kw[k] = matrix(0.0, (n, 1), 'z')
            elif k == 'b':
                kw[k] = matrix(0.0, (n, 1), 'd')
            else:
                kw[k] = matrix(0.0, (n, n), tc)
    return args, kw


def _hist_call(name, sig, cfg, modname='lapack'):
    """one call; observation = outcome + contents of every matrix argument afterwards"""
    import importlib
    mod = importlib.import_module('cvxopt.' + modname)
    args, kw = _hist_args(name, sig, cfg, modname)
    try:
        r = getattr(mod, name)(*args, **kw)
        out = ['ok', repr(r)]
    except Exception as e:
        out = ['exc', type(e).__name__, str(e)[:60]]
    vals = []
    for a in list(args) + [kw[k] for k in sorted(kw)]:
        if hasattr(a, 'typecode'):
            for v in a:
                vals.extend([v.real, v.imag] if isinstance(v, complex) else [float(v)])
    return out, vals


def _hist_same(o1, o2):
    if o1[0] != o2[0] or len(o1[1]) != len(o2[1]):
        return False
    for x, y in zip(o1[1], o2[1]):
        if x != x and y != y:
            continue
        if not (abs(x - y) <= 1e-9 * (1.0 + abs(x))):
            return False
    return True


def _hist_server(name, modname='lapack'):
    """runs in a fresh interpreter (nothing called yet); prints a JSON summary"""
    import json, os, pickle, sys
    sig, cfgs = _hist_configs(name, modname)
    res = {'configs': len(cfgs), 'histories': 0, 'states': 0, 'diffs': [], 'outcomes': {}}
    if not cfgs:
        print(json.dumps(res)); return

    def forked(hist):
        r, w = os.pipe()
        pid = os.fork()
        if pid == 0:
            code = 0
            try:
                os.close(r)
                o = None
                for cf in hist:
                    o = _hist_call(name, sig, cf, modname)
                os.write(w, pickle.dumps(o))
            except BaseException:
                code = 3
            finally:
                os._exit(code)
        os.close(w)
        data = b''
        while True:
            ch = os.read(r, 65536)
            if not ch:
                break
            data += ch
        os.close(r)
        _, st = os.waitpid(pid, 0)
        res['histories'] += 1
        if st != 0 or not data:
            return (['died', 'status %d' % st], [])
        return pickle.loads(data)

    seen = set()
    alone = {}
    for pre in (False, True):
        for bi, b in enumerate(cfgs):
            reset = [dict(cfgs[0], n=7 - b['n'])] if pre else []
            alone[(pre, bi)] = o = forked(reset + [b])          # from the initial state (nothing called before)
            res['outcomes'][o[0][0]] = res['outcomes'].get(o[0][0], 0) + 1
            seen.add(repr(o))
    # every ordered pair (a, b), b immediately after a, in this (no longer pristine) process: whatever preceded, the
    # observation of b must be the one made from the initial state
    for pre in (False, True):
        for bi, b in enumerate(cfgs):
            reset = [dict(cfgs[0], n=7 - b['n'])] if pre else []
            for a in cfgs:
                after = None
                for cf in reset + [a, b]:
                    after = _hist_call(name, sig, cf, modname)
                res['histories'] += 1
                seen.add(repr(after))
                if not _hist_same(alone[(pre, bi)], after) and len(res['diffs']) < 6:
                    o = alone[(pre, bi)]
                    res['diffs'].append({'reset': reset, 'a': a, 'b': b, 'alone': o[0], 'after': after[0],
                                         'alone_vals': o[1][:12], 'after_vals': after[1][:12]})
    res['states'] = len(seen)
    print(json.dumps(res))


@family('hist')
def fam_hist(case, c):
    import subprocess, sys, json
    name = case['fn']
    p = subprocess.run([sys.executable, '-c', 'from checks import C18; C18._hist_server(%r)' % name],
                       stdout=subprocess.PIPE, stderr=subprocess.PIPE, cwd=os.path.dirname(os.path.dirname(os.path.abspath(__file__))))
    try:
        res = json.loads(p.stdout.decode().strip().splitlines()[-1])
    except Exception:
        c.bad('hist:%s:server-failed' % name, 'history server for lapack.%s produced no result (rc=%s): %s'
              % (name, p.returncode, p.stderr.decode()[-600:]))
        return
    c.n += res['histories']
    c.nontrivial += res['histories'] - 2 * res['configs']
    c.states += res['states']
    c.transitions += res['histories']
    for k, v in res['outcomes'].items():
        c.outcomes['hist-last-call-' + k] = c.outcomes.get('hist-last-call-' + k, 0) + v
    for d in res['diffs']:
        c.bad('hist:%s:result-depends-on-previous-call' % name,
              'lapack.%s: the call %r gives %r (values %r) from the initial state but %r (values %r) after the call %r%s'
              % (name, d['b'], d['alone'], d['alone_vals'], d['after'], d['after_vals'], d['a'],
                 ' (both behind a call with another order)' if d['reset'] else ''), {'history': d})


def cases_hist(tier, seed):
    for name in COVERED:
        yield {'f': 'hist', 'fn': name, 'seed': seed}


CASEGENS.append(cases_hist)



def cases(tier, seed, flavour):
    for g in CASEGENS:
        for cs in g(tier, seed):
            yield cs


def crash_key(case):
    return ':'.join(str(case.get(k)) for k in ('f', 'fn', 'kind', 'tc') if case.get(k) is not None)


def run(case):
    from mc import cvx      # asserts that the staged working-tree build of cvxopt is the one imported
    c = Ctx(case)
    try:
        FAMILIES[case['f']](case, c)
    except Exception as e:
        import traceback
        c.bad('%s:harness-exception:%s' % (case['f'], type(e).__name__), traceback.format_exc()[-1800:])
    return c.result()
