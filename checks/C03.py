"""C03 - 'optimal' from coneqp/qp satisfies the quadratic-program KKT conditions."""
import itertools
from mc import dom, solve, qpsolve
from mc.ref import cone as R

PROPERTY = 'C03'
LEVEL = 'exploration'
ENGINE = 'bex'
FLAVOURS = ('plain',)
RULE = ('(a) every equality-constrained QP with P = L L^T, L lower triangular over a 3-value palette (all ranks, P = 0 '
        'included), every q, every single-row A and b over the palette, n <= 2: the direct solve path, compared with '
        'the exact rational solution; (b) planted strictly feasible cone QPs for every cone structure x n x p x 5 '
        'variants (cycling the rank of P), each under every configuration (coneqp/qp x storage x kktsolver x option set '
        'x 16 initvals subsets x junk in unreferenced triangles x operator form); the KKT residuals, cone membership, '
        'gap criteria and every result field are recomputed from the caller\'s data with tril(P) only; '
        'non-trivial = solves that ended with status optimal')
ASSUME = ['reference recomputation in plain Python floats; reported-vs-recomputed tolerance 1e-6 relative + 1e-9 of the term magnitudes',
          'instances violating the documented rank assumption are generated only in family (a) and then only "whatever is claimed optimal must be certified" applies']
BOUNDS = {'quick': 'family (a) n <= 2; 29 cone structures x n in {1,2} x p in {0,1} x 5 variants, ~60 configurations each',
          'thorough': 'family (a) n <= 2 with two palettes; all structures of D_small x n in {1,2,3} x 5 variants; all option sets'}
TECHNIQUE = 'bounded exhaustive enumeration of QP data and solver configurations; KKT certificate recomputed by an independent reference'

PALETTES = [[-1, 0, 1], [-2, 0, 1], [2, 0, -1], [1, 0, 3]]
LOOSE = {'feastol': 1e-3, 'abstol': 1e-2, 'reltol': 1e-2}
INITS = [list(c) for r in range(5) for c in itertools.combinations('xsyz', r)]


def cfgs_for(d, p, tier):
    only_l = not d['q'] and not d['s']
    kk = [None, 'ldl', 'ldl2', 'chol'] + (['chol2'] if only_l else [])
    out = []
    for k in kk:
        for st in ('dense', 'sparse'):
            out.append({'entry': 'coneqp', 'storage': st, 'kkt': k})
            out.append({'entry': 'coneqp', 'storage': st, 'kkt': k, 'opts': LOOSE})
    out.append({'entry': 'coneqp', 'storage': 'dense', 'kkt': 'ref'})
    out.append({'entry': 'coneqp', 'storage': 'dense', 'kkt': 'ref', 'operators': True, 'opts': LOOSE})
    out.append({'entry': 'coneqp', 'storage': 'dense', 'kkt': 'ref', 'operators': True})
    for iv in INITS:
        out.append({'entry': 'coneqp', 'storage': 'dense', 'kkt': None, 'init': iv})
    out.append({'entry': 'coneqp', 'storage': 'sparse', 'kkt': 'ldl', 'init': ['s', 'z'], 'opts': LOOSE})
    if d['l'] + sum(d['q']) + sum(d['s']) > 0:
        for bad in (('s', 'neg'), ('z', 'neg'), ('s', 'zero'), ('z', 'zero')):
            out.append({'entry': 'coneqp', 'storage': 'dense', 'kkt': None, 'init': ['x', 's', 'y', 'z'], 'badstart': bad})
        out.append({'entry': 'coneqp', 'storage': 'sparse', 'kkt': 'ldl', 'init': ['z'], 'badstart': ('z', 'neg')})
        out.append({'entry': 'qp' if only_l else 'coneqp', 'storage': 'dense', 'kkt': None, 'init': ['s'], 'badstart': ('s', 'neg')})
    out.append({'entry': 'coneqp', 'storage': 'dense', 'kkt': None, 'junk': 77.0})
    out.append({'entry': 'coneqp', 'storage': 'sparse', 'kkt': 'ldl2', 'junk': -9.0, 'opts': LOOSE})
    out.append({'entry': 'coneqp', 'storage': 'dense', 'kkt': None, 'opts': {'maxiters': 2}})
    out.append({'entry': 'coneqp', 'storage': 'dense', 'kkt': 'chol', 'opts': {'refinement': 2}})
    out.append({'entry': 'coneqp', 'storage': 'dense', 'kkt': 'ldl', 'opts': {'abstol': -1.0, 'reltol': 1e-3, 'feastol': 1e-4}})
    out.append({'entry': 'coneqp', 'storage': 'dense', 'kkt': 'ldl', 'opts': {'abstol': 1e-3, 'reltol': -1.0, 'feastol': 1e-4}})
    # tighter than the global defaults / an iteration limit: an entry point that drops its per-call options shows here
    for ent in ['coneqp'] + (['qp'] if only_l else []):
        out.append({'entry': ent, 'storage': 'dense', 'kkt': None, 'opts': {'feastol': 1e-9, 'abstol': 1e-9, 'reltol': 1e-9}})
        out.append({'entry': ent, 'storage': 'dense', 'kkt': None, 'opts': {'maxiters': 2}})
    # option sets that arrive through solvers.options (no options= keyword), one right behind a loose per-call call
    for ent in ['coneqp'] + (['qp'] if only_l else []):
        out.append({'entry': ent, 'storage': 'dense', 'kkt': None, 'via': 'global', 'opts': {'feastol': 1e-9, 'abstol': 1e-9, 'reltol': 1e-9}})
        out.append({'entry': ent, 'storage': 'sparse', 'kkt': None, 'via': 'global', 'prelude': LOOSE})
        out.append({'entry': ent, 'storage': 'dense', 'kkt': None, 'poison': dict(LOOSE, maxiters=3)})
        out.append({'entry': ent, 'storage': 'dense', 'kkt': None, 'opts': {'abstol': 0.0, 'reltol': 1e-6}})
    if only_l:
        for st in ('dense', 'sparse'):
            out.append({'entry': 'qp', 'storage': st, 'kkt': None})
            out.append({'entry': 'qp', 'storage': st, 'kkt': 'ldl', 'init': ['x', 's', 'y', 'z'], 'junk': 5.0})
            out.append({'entry': 'qp', 'storage': st, 'kkt': 'chol', 'opts': LOOSE})
    return out


EQ_CFGS = [{'entry': 'coneqp', 'storage': 'dense', 'kkt': None, 'noG': True},
           {'entry': 'coneqp', 'storage': 'sparse', 'kkt': None, 'junk': 31.0},
           {'entry': 'coneqp', 'storage': 'dense', 'kkt': 'ldl'},
           {'entry': 'coneqp', 'storage': 'dense', 'kkt': 'ldl2', 'junk': -4.0},
           {'entry': 'coneqp', 'storage': 'sparse', 'kkt': 'chol'},
           {'entry': 'qp', 'storage': 'dense', 'kkt': None, 'noG': True},
           {'entry': 'qp', 'storage': 'sparse', 'kkt': 'ldl'}]


def cases(tier, seed, flavour):
    pal = PALETTES[seed % len(PALETTES)]
    pals = [pal] if tier == 'quick' else [pal, PALETTES[(seed + 1) % len(PALETTES)]]
    for pl in pals:
        for n in (1, 2):
            nl = n * (n + 1) // 2
            for Lv in itertools.product(pl, repeat=nl):
                yield {'fam': 'eq', 'n': n, 'L': list(Lv), 'pal': pl}
    yield {'fam': 'extreme'}
    structs = dom.structures(tier)
    for d in structs:
        for n in ((1, 2) if tier == 'quick' else (1, 2, 3)):
            for p in (0, 1):
                if p >= n:
                    continue
                for v in range(5):
                    yield {'fam': 'planted', 'dims': d, 'n': n, 'p': p, 'variant': v + 5 * seed, 'tier': tier}


def run(case):
    O = solve.Oracle(PROPERTY)
    outcomes = {}
    n_ev = nontriv = 0
    if case['fam'] == 'eq':
        n, pal = case['n'], case['pal']
        L = [[0] * n for _ in range(n)]
        it = iter(case['L'])
        for j in range(n):
            for i in range(j, n):
                L[i][j] = next(it)
        P = [[float(sum(L[i][k] * L[j][k] for k in range(n))) for j in range(n)] for i in range(n)]
        d0 = {'l': 0, 'q': [], 's': []}
        Arows = [None] + [list(a) for a in itertools.product(pal, repeat=n) if any(a)]
        for qv in itertools.product(pal, repeat=n):
            for Ar in Arows:
                for bv in ([0] if Ar is None else pal):
                    inst = {'P': P, 'q': [float(t) for t in qv], 'G': [[] for _ in range(n)], 'h': [], 'dims': d0,
                            'A': [] if Ar is None else [[float(t) for t in Ar]], 'b': [] if Ar is None else [float(bv)]}
                    if Ar is not None and n == 1 and False:
                        continue
                    exact = qpsolve.exact_eq_qp(inst)
                    for cfg in EQ_CFGS:
                        res, _ = qpsolve.call(inst, cfg)
                        n_ev += 1
                        lab = _judge(O, inst, cfg, res, exact)
                        outcomes[lab] = outcomes.get(lab, 0) + 1
                        if lab == 'optimal':
                            nontriv += 1
                    if len(O.viol) > 40:
                        break
    elif case['fam'] == 'extreme':
        # finite, positive semidefinite data so badly scaled that the one KKT solve of the direct path overflows: whatever
        # comes back, 'optimal' may only be claimed for finite vectors and finite, small residuals (a NaN passes no test)
        d0 = {'l': 0, 'q': [], 's': []}
        big, tiny = 2.0 ** 500, 2.0 ** -660
        for P in ([[1.0, 0.0], [0.0, tiny]], [[tiny, 0.0], [0.0, 1.0]], [[tiny, 0.0], [0.0, tiny]]):
            for qv in ((1.0, big), (big, 1.0), (-big, big)):
                for A, b in (([], []), ([[1.0, 0.0]], [1.0]), ([[1.0, 1.0]], [big])):
                    inst = {'P': P, 'q': list(qv), 'G': [[], []], 'h': [], 'dims': d0, 'A': A, 'b': b}
                    for cfg in EQ_CFGS:
                        res, _ = qpsolve.call(inst, cfg)
                        n_ev += 1
                        lab = 'exc:' + type(res).__name__ if isinstance(res, Exception) else str(res.get('status'))
                        outcomes['extreme:' + lab] = outcomes.get('extreme:' + lab, 0) + 1
                        if lab == 'optimal':
                            nontriv += 1
                            vals = list(res['x']) + list(res['y']) + [res.get(k) for k in ('primal infeasibility', 'dual infeasibility')]
                            if any(t is None or t != t or abs(t) == float('inf') for t in vals) or \
                                    not (res['primal infeasibility'] <= 1e-7 and res['dual infeasibility'] <= 1e-7):
                                O.bad('extreme:optimal-with-nonfinite-or-large-residual@' + cfg.get('entry', 'coneqp'),
                                      "status 'optimal' with x = %r, y = %r, reported residuals %r / %r"
                                      % (list(res['x']), list(res['y']), res['primal infeasibility'], res['dual infeasibility']),
                                      {'instance': {'P': P, 'q': list(qv), 'A': A, 'b': b}, 'cfg': cfg})
    else:
        inst = qpsolve.planted_qp(case['dims'], case['n'], case['p'], case['variant'])
        if inst is not None:
            for cfg in cfgs_for(inst['dims'], len(inst['A']), case.get('tier', 'quick')):
                res, _ = qpsolve.call(inst, cfg)
                n_ev += 1
                lab = _judge(O, inst, cfg, res, None)
                outcomes[lab] = outcomes.get(lab, 0) + 1
                if lab == 'optimal':
                    nontriv += 1
    return {'n': n_ev, 'nontrivial': nontriv, 'outcomes': outcomes, 'viol': O.viol, 'maxerr': O.maxerr}


def _judge(O, inst, cfg, res, exact):
    nv = len(O.viol)
    if cfg.get('badstart') and solve.bad_start_outcome(O, res, cfg['badstart'][0]):
        lab = 'invalid-start:' + type(res).__name__
    elif isinstance(res, Exception):
        lab = 'exc:' + type(res).__name__
    else:
        lab = str(res.get('status'))
        if lab == 'optimal':
            o = qpsolve.check_optimal(O, inst, res, cfg)
            if exact is not None and o is not None:
                x = list(res['x'])
                sc = max([1.0] + [abs(t) for t in exact['x']])
                if max([abs(a - b) for a, b in zip(x, exact['x'])] + [0.0]) > 1e-6 * sc:
                    O.bad('eq:x-differs-from-exact', 'x = %r but the exact solution of the KKT system is %r' % (x, exact['x']))
                if abs(res['primal objective'] - exact['value']) > 1e-6 * max(1.0, abs(exact['value'])):
                    O.bad('eq:objective-differs-from-exact', 'primal objective %r, exact %r' % (res['primal objective'], exact['value']))
    for v in O.viol[nv:]:
        v['sub'] = {'instance': {k: inst[k] for k in ('P', 'q', 'G', 'h', 'dims', 'A', 'b')}, 'cfg': cfg, 'detail': v.get('sub')}
        v['key'] = v['key'] + '@' + cfg.get('entry', 'coneqp')
    return lab


def crash_key(case):
    return case['fam']
