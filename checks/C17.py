"""C17 - BLAS wrappers compute the reference operation on exactly the addressed data.

Oracle: mc/ref/blas.py (plain-Python kernels + a model of the documented argument handling).  Every call is
made on buffers pre-filled in *all* positions with distinct small dyadic values; after the call the whole
buffers are compared: positions in the documented output footprint against the reference within 1e-10
(relative to the magnitudes involved), every other position of every argument byte for byte.
"""
import itertools
from mc.ref import blas as R

PROPERTY = 'C17'
LEVEL = 'exploration'
ENGINE = 'bex'
FLAVOURS = ('plain',)
# plain flavour under the glibc malloc checker: a byte written past the end of a heap block by the (uninstrumented) Fortran
# library aborts the process in free() and is reported as a killed interpreter
EXTRA_ENV = {'plain': {'LD_PRELOAD': '/lib/x86_64-linux-gnu/libc_malloc_debug.so.0', 'MALLOC_CHECK_': '3'}}
TECHNIQUE = 'bounded-exhaustive differential testing against a plain-Python BLAS model with full-buffer footprint comparison'
RULE = ('one case = function x typecode x flag combination x mode (x first dimension); modes: "l1" full product of '
        'buffer lengths, n (given/omitted), increments and offsets for the level-1 routines; "x" every dimension, '
        'increment, leading dimension (min, min+1), offset, alpha/beta given or omitted, with buffers sized exactly, '
        'one larger, and (each buffer in turn) one too small; "d" every matrix shape with each optional integer '
        'omitted or given alone, so that the documented default formulas decide; "r" one documented requirement '
        'violated at a time (typecodes, non-matrix, flags, zero/negative increments, negative offsets, small ld, '
        'complex scalars).  non-trivial = a valid call that addresses at least one element, or a call that must be '
        'rejected'
        ' Call histories: for every function all ordered pairs (a, b) of configurations (order 3 / 4 x every flag keyword given each value or '
        'omitted); b observed right after a must equal b observed in a process that has called nothing (explicit-state, depth 2 + displacing prefix)')
ASSUME = ['the default of n in copy/axpy/dot/dotu/nrm2 is read with |inc| as in the docstring of swap (the docstrings '
          'write /incx) and "len-offset-1" with the obvious names (docstring typos offsetx for offsety etc.)',
          'buffer-size consistency means len >= offset + 1 + (n-1)|inc| for vectors and offset + (cols-1)*ld + rows for '
          '(band) arrays with at least one element; arrays without elements need no storage',
          'symm/hemm: ldB >= max(1,m) (B is m by n) is used instead of the contradictory docstring bound',
          'when a zero dimension makes the operation empty, calls that violate another documented requirement may '
          'either raise TypeError/ValueError or return; a leading dimension below its documented minimum for an array '
          'without elements, non-square A with defaulted n in syr/her/syr2/her2, and option letters not listed in the '
          'docstring are not judged (documentation silent)',
          'Hermitian in/out matrices (her, her2, herk, her2k) are given real diagonals; Hermitian input matrices get '
          'nonzero imaginary parts on the diagonal, which the documented storage scheme ignores',
          'floating-point agreement within 1e-10 relative to the magnitudes involved; all integers are small (overflow '
          'of the length tests belongs to another property)',
          'the Fortran BLAS behind the wrappers is trusted to implement the standard; only cvxopt\'s own wrapper code '
          'is under test']
BOUNDS = {'quick': 'dims 0..2, band widths 0..1, increments {1,2,-1,-2} (positive-only routines {1,2}), ld min..min+1, '
                   'offsets 0..1, level-1 buffer lengths 0..5, default-mode matrix shapes 0..2 x 0..2, 1 data palette (seed)',
          'thorough': 'dims 0..3, band widths 0..2, increments {1,2,-1,-2}, ld min..min+1, offsets 0..2, level-1 buffer '
                      'lengths 0..7, default-mode matrix shapes 0..3 x 0..3, 1 data palette (seed)'}

TOL = 1e-10
LEVEL1 = ('scal', 'nrm2', 'asum', 'iamax', 'dot', 'dotu', 'axpy', 'copy', 'swap')
SALT = {'A': 1, 'B': 4, 'C': 8, 'x': 2, 'y': 5}
ALPHA = {'d': [None, -1.5, 2], 'z': [None, complex(-1.5, 0.5), 0.5]}
BETA = {'d': [None, 0.5, -1], 'z': [None, complex(0.5, -1.0), 2]}
ALPHA_REAL = [None, -1.5, 2]
BETA_REAL = [None, 0.5, -1]


def _dom(tier):
    if tier == 'thorough':
        return dict(D=3, K=2, OFF=(0, 1, 2), L1=7, S=3, VL=4)
    return dict(D=2, K=1, OFF=(0, 1), L1=5, S=2, VL=3)


def _flagcombos(f, tc):
    names = sorted(R.SPEC[f]['flags'])
    doms = [R.flag_domain(f, n, tc) for n in names]
    for combo in itertools.product(*doms):
        yield dict(zip(names, combo))


def cases(tier, seed, flavour):
    for c in _cases(tier):
        c['tier'] = tier
        c['seed'] = seed
        yield c
    # call histories: a wrapper carries nothing over from one call to the next (flag defaults, scratch state).  For every
    # function, all ordered pairs (a, b) of configurations - order 3 / 4 x every flag keyword given each of its values or
    # omitted: b observed right after a must equal b observed in a process that has called nothing (checks/C18.py, family hist)
    for f in R.FUNCTIONS:
        yield {'f': f, 'mode': 'callhist', 'tier': tier, 'seed': seed}


def _cases(tier):
    dm = _dom(tier)
    for f in R.FUNCTIONS:
        sp = R.SPEC[f]
        for tc in sp['types']:
            if f in LEVEL1:
                nsc = 3 if sp['scalars'] else 1
                for nchoice in ['omit', -1] + list(range(0, 4)):
                    for sc in range(nsc):
                        for var in ((0, 1) if f == 'iamax' else (0,)):
                            yield {'f': f, 'tc': tc, 'mode': 'l1', 'n': nchoice, 'sc': sc, 'var': var}
                yield {'f': f, 'tc': tc, 'mode': 'r', 'flags': {}}
                continue
            d0name = _dimnames(f)[0]
            for flags in _flagcombos(f, tc):
                for d0 in range(dm['D'] + 1):
                    for sc in range(3):
                        yield {'f': f, 'tc': tc, 'mode': 'x', 'flags': flags, 'd0': d0, 'sc': sc}
                for part in range(dm['S'] + 1):
                    yield {'f': f, 'tc': tc, 'mode': 'd', 'flags': flags, 'part': part}
                yield {'f': f, 'tc': tc, 'mode': 'r', 'flags': flags}


def crash_key(case):
    return '%s:%s:%s' % (case.get('f'), case.get('tc'), case.get('mode'))


def _dimnames(f):
    """dimension arguments in signature order."""
    d = R.SPEC[f]['dims']
    return [a for a in R.SPEC[f]['sig'] if a in d]


# ------------------------------------------------------------------------------------------------ data
_FILL = {}


def fill(salt, L, tc, seed, var=0):
    """deterministic buffer contents: every position holds its own small dyadic value (never zero)."""
    key = (salt, tc, seed, var)
    base = _FILL.get(key)
    if base is None or len(base) < L:
        base = []
        for i in range(max(64, L)):
            mag = 1.0 if var else 0.5 + 0.25 * ((7 * i + 3 * salt + seed) % 9)
            sign = -1.0 if ((i * i + i) // 2 + salt + seed) % 3 == 0 else 1.0
            re = sign * mag
            if tc == 'z':
                im = 0.0 if var else 0.25 * (((5 * i + salt + 2 * seed) % 7) - 3)
                base.append(complex(re, im))
            elif tc == 'i':
                base.append(int(re * 4))
            else:
                base.append(re)
        _FILL[key] = base
    return base[:L]


class State(object):
    def __init__(self, seed, f):
        self.seed = seed
        self.f = f
        self.var = 0
        self.n = 0
        self.nontrivial = 0
        self.viol = []
        self.keys = set()
        self.outcomes = {}
        self.maxerr = 0.0

    def out(self, label):
        self.outcomes[label] = self.outcomes.get(label, 0) + 1

    def bad(self, kind, feats, msg, sub):
        key = 'C17:%s:%s:%s' % (self.f, kind, ','.join(feats))
        if key in self.keys or len(self.keys) >= 12:
            return
        self.keys.add(key)
        self.viol.append({'key': key, 'msg': msg, 'sub': sub})


_BLAS = {}


def _setup():
    if 'mod' not in _BLAS:
        from mc import cvx          # asserts the staged build is the one imported
        import cvxopt.blas as blas
        from cvxopt import matrix
        R.doc_selfcheck(blas)       # a transcription slip in the spec table is a harness error
        _BLAS['mod'] = blas
        _BLAS['matrix'] = matrix
    return _BLAS['mod'], _BLAS['matrix']


def _mk(matrix, buf, shape, tc):
    if tc is None:
        return list(buf)
    if shape[0] * shape[1] == 0:
        return matrix(0, shape, tc)
    return matrix(buf, shape, tc)


def _raw(o):
    # order='A': the bytes as they lie in memory (column-major), not the row-major logical flattening
    return memoryview(o).tobytes('A') if not isinstance(o, list) else repr(o).encode()


def _absmax(vals):
    m = 0.0
    for v in vals:
        a = abs(v)
        if a > m:
            m = a
    return m


def _features(p, tcs, sp):
    feats = [''.join((tcs[m] or '-') for m in sp['mats'])]
    env = p.get('env')
    if env:
        for name, cls, _, _ in sp['ints']:
            if cls in ('nz', 'pos') and isinstance(env.get(name), int) and env[name] < 0:
                feats.append('neg-' + name)
        if not p['vacuous'] and any(min(d) == 0 for d in p['dims'].values()):
            feats.append('empty-operand')
        if p['defaulted']:
            feats.append('default-' + '+'.join(sorted(p['defaulted'])))
        for m, a in sp['arrays'].items():
            if a[0] == 'M' and a[3] in p['defaulted'] and env[m].r == 0:
                feats.append('ld-from-empty:' + a[3])
    return feats


def evaluate(st, f, tcs, shapes, kw, replace=None):
    """predict, call, compare: one evaluation."""
    blas, matrix = _setup()
    sp = R.SPEC[f]
    p = R.predict(f, tcs, shapes, kw)
    v = p['verdict']
    if v == 'skip':
        st.out('skip')
        return
    st.n += 1
    bufs = {}
    for m in sp['mats']:
        bufs[m] = fill(SALT[m], shapes[m][0] * shapes[m][1], tcs[m] or 'd', st.seed, st.var)
    if v == 'ok' and p['tc'] == 'z':
        hm, pos = R.herm_out_diag(f, p['env'])
        if hm:
            bufs[hm] = list(bufs[hm])
            for i in pos:
                bufs[hm][i] = complex(bufs[hm][i].real, 0.0)
    objs = dict((m, _mk(matrix, bufs[m], shapes[m], tcs[m])) for m in sp['mats'])
    before = dict((m, _raw(objs[m])) for m in sp['mats'])
    call = dict(objs)
    call.update(kw)
    exc = None
    ret = None
    try:
        ret = getattr(blas, f)(**call)
    except Exception as e:          # classified below
        exc = e
    after = dict((m, _raw(objs[m])) for m in sp['mats'])
    sub = {'f': f, 'tc': tcs, 'shapes': shapes, 'kw': kw, 'why': p['why']}
    feats = _features(p, tcs, sp)
    if v in ('reject', 'either'):
        st.out(v)
        if v == 'reject':
            st.nontrivial += 1
        feats = feats + sorted(set(w.split(':')[0] + ':' + w.split(':')[1] if ':' in w else w for w in p['why']))
        if exc is None and v == 'reject':
            st.bad('accepted', feats, '%s accepted a call it must reject (%s); returned %r' % (f, p['why'], ret), sub)
        elif exc is not None and not isinstance(exc, (TypeError, ValueError)):
            st.bad('wrong-exception', feats, '%s raised %s: %s' % (f, type(exc).__name__, exc), sub)
        if after != before and not (exc is None and v == 'reject'):
            st.bad('modified-on-reject', feats, '%s changed an argument of a call that is invalid (%s)' % (f, p['why']), sub)
        return
    # ---- valid call
    nonempty = any(e > 0 for e in p['ext'].values())
    st.out('ok' if nonempty else 'ok-empty')
    if nonempty:
        st.nontrivial += 1
    if exc is not None:
        st.bad('raised', feats, '%s rejected a valid call: %s: %s' % (f, type(exc).__name__, exc), sub)
        return
    if p['vacuous']:
        want_ret, new, fp = None, bufs, {}
    else:
        want_ret, new, fp = R.apply(f, p['env'], kw, bufs)
    mag = 1.0
    for m in sp['mats']:
        mag = max(mag, _absmax(bufs[m]))
    sc = max([1.0] + [abs(kw[s]) for s in sp['scalars'] if s in kw])
    scale = 8.0 * mag * mag * mag * sc
    esz = 16 if p['tc'] == 'z' else 8
    for m in sp['mats']:
        foot = fp.get(m)
        if not foot:
            if after[m] != before[m]:
                kind = 'footprint' if m in sp['out'] else 'input-modified'
                st.bad(kind, feats + [m], '%s changed %s, which the operation does not write' % (f, m), sub)
                return
            continue
        got = list(objs[m])
        a, b = after[m], before[m]
        for i in range(len(got)):
            if i in foot:
                w = new[m][i]
                e = abs(got[i] - w) / max(scale, abs(w))
                if e == e and e > st.maxerr:
                    st.maxerr = e
                if not e <= TOL:
                    st.bad('value', feats, '%s: %s[%d] = %r, reference %r (rel err %.3g)' % (f, m, i, got[i], w, e),
                           dict(sub, index=i, got=got[i], want=w))
                    return
            elif a[i * esz:(i + 1) * esz] != b[i * esz:(i + 1) * esz]:
                st.bad('footprint', feats + [m], '%s wrote %s[%d] (%r -> %r) outside the addressed footprint'
                       % (f, m, i, bufs[m][i], got[i]), dict(sub, index=i))
                return
    kind = sp['ret']
    if kind is None:
        if ret is not None:
            st.bad('return', feats, '%s returned %r instead of None' % (f, ret), sub)
    elif kind == 'int':
        if type(ret) is not int or ret != want_ret:
            st.bad('value', feats, '%s returned %r, reference %r' % (f, ret, want_ret), sub)
    else:
        okt = isinstance(ret, complex) if (kind == 'num' and p['tc'] == 'z') else isinstance(ret, float)
        e = abs(ret - want_ret) / max(scale, abs(want_ret)) if isinstance(ret, (int, float, complex)) else float('inf')
        if e == e and e > st.maxerr and e != float('inf'):
            st.maxerr = e
        if not okt or not e <= TOL:
            st.bad('value', feats, '%s returned %r, reference %r' % (f, ret, want_ret), sub)


# ------------------------------------------------------------------------------------------------ modes
BIG = (4096, 1)
PAIRWISE3 = {2: [(0, 0, 0), (0, 1, 1), (1, 0, 1), (1, 1, 0)],
             3: [(0, 0, 0), (1, 1, 1), (2, 2, 2), (0, 1, 2), (1, 2, 0), (2, 0, 1), (0, 2, 1), (2, 1, 0), (1, 0, 2)]}


def _scalars(f, tc, sc):
    """keyword scalars for palette index sc (0 = omitted where optional)."""
    sp = R.SPEC[f]
    kw = {}
    for name, cls in sp['scalars'].items():
        pal = (ALPHA_REAL if name == 'alpha' else BETA_REAL) if cls == 'real' else (ALPHA if name == 'alpha' else BETA)[tc]
        v = pal[sc]
        if v is None and name in sp['sig'][:sp['nreq']]:
            v = 1                       # scal: alpha is a required argument
        if v is not None:
            kw[name] = v
    return kw


def _names(f, classes):
    return [e[0] for e in R.SPEC[f]['ints'] if e[1] in classes]


def _incvals(f, name):
    cls = [e[1] for e in R.SPEC[f]['ints'] if e[0] == name][0]
    return (1, 2, -1, -2) if cls == 'nz' else (1, 2)


def _run_l1(st, case, dm, seed):
    f, tc = case['f'], case['tc']
    sp = R.SPEC[f]
    st.var = case.get('var', 0)
    incn, offn = _names(f, ('nz', 'pos')), _names(f, ('nn',))
    skw = _scalars(f, tc, case['sc'])
    two = len(sp['mats']) == 2
    lens = range(0, dm['L1'] + (1 if two else 3))
    tcs = dict((m, tc) for m in sp['mats'])
    for ls in itertools.product(lens, repeat=len(sp['mats'])):
        shapes = dict((m, (ls[i], 1)) for i, m in enumerate(sp['mats']))
        for incs in itertools.product(*[('omit',) + _incvals(f, n) for n in incn]):
            for offs in itertools.product(('omit',) + tuple(dm['OFF']), repeat=len(offn)):
                kw = dict(skw)
                if case['n'] != 'omit':
                    kw['n'] = case['n']
                for n_, v in list(zip(incn, incs)) + list(zip(offn, offs)):
                    if v != 'omit':
                        kw[n_] = v
                evaluate(st, f, tcs, shapes, kw)


def _offsets(noff, dm, reduced):
    vals = tuple(dm['OFF'])
    if reduced and noff == 3:
        return PAIRWISE3[len(vals)]
    return list(itertools.product(vals, repeat=noff))


def _run_x(st, case, dm, seed):
    f, tc, flags = case['f'], case['tc'], case['flags']
    sp = R.SPEC[f]
    dn = _dimnames(f)
    ranges = [(case['d0'],)] + [tuple(range(0, (dm['D'] if sp['dims'][n] == 'dim' else dm['K']) + 1)) for n in dn[1:]]
    incn, ldn, offn = _names(f, ('nz', 'pos')), _names(f, ('ld',)), _names(f, ('nn',))
    skw = _scalars(f, tc, case['sc'])
    reduced = (f == 'gbmv') or (dm['D'] == 2 and len(offn) == 3)
    offsets = _offsets(len(offn), dm, reduced)
    tcs = dict((m, tc) for m in sp['mats'])
    big = dict((m, BIG) for m in sp['mats'])
    offof = dict((m, a[-1]) for m, a in sp['arrays'].items())
    for dims in itertools.product(*ranges):
        env0 = dict(flags)
        env0.update(zip(dn, dims))
        ldmins = [R._ev(sp['ldmin'][l], env0) for l in ldn]
        for incs in itertools.product(*[_incvals(f, n) for n in incn]):
            for lds in itertools.product(*[(m, m + 1) for m in ldmins]):
                for offs in offsets:
                    kw = dict(flags)
                    kw.update(skw)
                    kw.update(zip(dn, dims))
                    kw.update(zip(incn, incs))
                    kw.update(zip(ldn, lds))
                    kw.update(zip(offn, offs))
                    ext = R.predict(f, tcs, big, kw)['ext']
                    for pad in (0, 1):
                        shapes = dict((m, ((ext[m] or kw[offof[m]]) + pad, 1)) for m in sp['mats'])
                        evaluate(st, f, tcs, shapes, kw)
                    exact = dict((m, (ext[m] or kw[offof[m]], 1)) for m in sp['mats'])
                    for m in sp['mats']:
                        if ext[m] > 0:
                            evaluate(st, f, tcs, dict(exact, **{m: (ext[m] - 1, 1)}), kw)


def _run_d(st, case, dm, seed):
    f, tc, flags = case['f'], case['tc'], case['flags']
    sp = R.SPEC[f]
    thorough = dm['D'] == 3
    S, VL = dm['S'], dm['VL']
    mshapes = [(r, c) for r in range(S + 1) for c in range(S + 1)]
    firstM = [m for m in sp['mats'] if sp['arrays'][m][0] == 'M'][0]
    cand = {}
    for (name, cls, default, _) in sp['ints']:
        if cls == 'int':
            cand[name] = (0, 1) if sp['dims'].get(name) == 'band' else ((0, 1, 2, 3) if thorough else (0, 1, 2))
        elif cls == 'ld':
            cand[name] = (2, 3)
        elif cls in ('nz', 'pos'):
            cand[name] = (2, -1, -2) if thorough else (2, -1)
        elif cls == 'nn':
            cand[name] = (1, 2) if thorough else (1,)
    req = [(name, tuple(range(0, (dm['D'] if sp['dims'][name] == 'dim' else dm['K']) + 1)))
           for (name, cls, _, _) in sp['ints'] if cls == 'nnreq']
    pal = _scalars(f, tc, 1)
    variants = [{}]
    for names in (('alpha', 'beta'), ('alpha',), ('beta',)):
        v = dict((k, pal[k]) for k in names if k in pal)
        if v and v not in variants:
            variants.append(v)
    sentinel = dict((name, -1 if cls == 'int' else 0) for (name, cls, _, _) in sp['ints'] if cls in ('int', 'ld'))
    variants.append(sentinel)
    for name in sorted(cand):
        for v in cand[name]:
            variants.append({name: v})
    tcs = dict((m, tc) for m in sp['mats'])
    choices = []
    for m in sp['mats']:
        if sp['arrays'][m][0] == 'M':
            choices.append([s for s in mshapes if (m != firstM or s[0] == case['part'])])
        else:
            choices.append([(L, 1) for L in range(VL + 1)])
    for shp in itertools.product(*choices):
        shapes = dict(zip(sp['mats'], shp))
        for rv in itertools.product(*[r[1] for r in req]):
            base = dict(flags)
            base.update(zip([r[0] for r in req], rv))
            for var in variants:
                evaluate(st, f, tcs, shapes, dict(base, **var))


def _run_r(st, case, dm, seed):
    f, tc, flags = case['f'], case['tc'], case['flags']
    sp = R.SPEC[f]
    dn = _dimnames(f)
    incn, ldn, offn = _names(f, ('nz', 'pos')), _names(f, ('ld',)), _names(f, ('nn',))
    other = 'z' if tc == 'd' else 'd'
    for incv in (1, -2):
        kw = dict(flags)
        kw.update(_scalars(f, tc, 1))
        for n in dn:
            kw[n] = 2 if sp['dims'][n] == 'dim' else 1
        for n in incn:
            cls = [e[1] for e in sp['ints'] if e[0] == n][0]
            kw[n] = incv if cls == 'nz' else abs(incv)
        ldmins = dict((l, R._ev(sp['ldmin'][l], kw)) for l in ldn)
        for l in ldn:
            kw[l] = ldmins[l] + 1
        for n in offn:
            kw[n] = 1
        tcs = dict((m, tc) for m in sp['mats'])
        ext = R.predict(f, tcs, dict((m, BIG) for m in sp['mats']), kw)['ext']
        shapes = dict((m, (ext[m] + 1, 1)) for m in sp['mats'])
        evaluate(st, f, tcs, shapes, kw)                                  # the valid baseline
        # typecodes / non-matrix arguments
        for m in sp['mats']:
            for t in (other, 'i', None):
                evaluate(st, f, dict(tcs, **{m: t}), shapes, kw)
        evaluate(st, f, dict((m, 'i') for m in sp['mats']), shapes, kw)
        if sp['types'] == 'd':
            evaluate(st, f, dict((m, 'z') for m in sp['mats']), shapes, kw)
        # integer domains
        for n in incn:
            evaluate(st, f, tcs, shapes, dict(kw, **{n: 0}))
            if kw[n] > 0 and [e[1] for e in sp['ints'] if e[0] == n][0] == 'pos':
                evaluate(st, f, tcs, shapes, dict(kw, **{n: -1}))
        for n in offn:
            evaluate(st, f, tcs, shapes, dict(kw, **{n: -1}))
        for l in ldn:
            if ldmins[l] - 1 >= 1:
                evaluate(st, f, tcs, shapes, dict(kw, **{l: ldmins[l] - 1}))
            evaluate(st, f, tcs, shapes, dict(kw, **{l: -1}))
        for (n, cls, _, _) in sp['ints']:
            if cls == 'nnreq':
                evaluate(st, f, tcs, shapes, dict(kw, **{n: -1}))
        # options
        for name in sp['flags']:
            for bad in ('X', flags[name].lower()):
                evaluate(st, f, tcs, shapes, dict(kw, **{name: bad}))
        if f == 'syr2k' and tc == 'z':
            evaluate(st, f, tcs, shapes, dict(kw, trans='C'))
        # scalars
        for name, cls in sp['scalars'].items():
            if tc == 'd' or cls == 'real':
                evaluate(st, f, tcs, shapes, dict(kw, **{name: complex(1.0, 1.0)}))
            evaluate(st, f, tcs, shapes, dict(kw, **{name: 'a'}))
            evaluate(st, f, tcs, shapes, dict(kw, **{name: None}))


def _run_callhist(case):
    import subprocess, sys, json, os
    name = case['f']
    here = os.path.dirname(os.path.dirname(os.path.abspath(__file__)))
    p = subprocess.run([sys.executable, '-c', 'from checks import C18; C18._hist_server(%r, "blas")' % name],
                       stdout=subprocess.PIPE, stderr=subprocess.PIPE, cwd=here)
    viol = []
    try:
        res = json.loads(p.stdout.decode().strip().splitlines()[-1])
    except Exception:
        return {'n': 1, 'viol': [{'key': 'C17:hist:%s:server-failed' % name, 'msg': 'history server for blas.%s produced no result (rc=%s): %s'
                                  % (name, p.returncode, p.stderr.decode()[-600:])}]}
    for d in res['diffs']:
        viol.append({'key': 'C17:hist:%s:result-depends-on-previous-call' % name,
                     'msg': 'blas.%s: the call %r gives %r (values %r) from the initial state but %r (values %r) after the call %r%s'
                            % (name, d['b'], d['alone'], d['alone_vals'], d['after'], d['after_vals'], d['a'],
                               ' (both behind a call with another order)' if d['reset'] else ''), 'sub': {'history': d}})
    return {'n': res['histories'], 'nontrivial': res['histories'] - 2 * res['configs'], 'viol': viol,
            'outcomes': dict(('hist-last-call-' + k, v) for k, v in res['outcomes'].items()),
            'states': res['states'], 'transitions': res['histories'], 'traces': res['histories']}


def run(case):
    if case.get('mode') == 'callhist':
        return _run_callhist(case)
    seed = case.get('seed', 0)
    dm = _dom(case['tier'])
    st = State(seed, case['f'])
    {'l1': _run_l1, 'x': _run_x, 'd': _run_d, 'r': _run_r}[case['mode']](st, case, dm, seed)
    return {'n': st.n, 'nontrivial': st.nontrivial, 'outcomes': st.outcomes, 'viol': st.viol,
            'maxerr': {'blas': st.maxerr}}
