"""Solve / edit / solve histories of one op object whose status changes on the way (shared by C02, C12, C13).

modeling.rst fixes what solve() leaves behind for each status:
  optimal            variables and multipliers hold the primal and dual solution
  primal infeasible  the values of the variables are None, the multipliers hold a certificate
  dual infeasible    the values of the multipliers are None, the variables hold a certificate
A solve() that follows an earlier successful solve() on the same op (with constraints added or deleted in between) must
leave exactly that - nothing of the earlier solve may survive.

State machine: one op over x (length 1), y (length 2) with a PWL objective, a fixed feasible bounded core and two
togglable constraints: CUT (contradicts the core: problem becomes infeasible) and FLOOR (the only lower bound of the
objective direction: without it the problem is unbounded).  Alphabet: toggle CUT, toggle FLOOR, solve.  All histories
up to the given depth that end with solve are executed on a real op (prefixes replayed on a fresh op), for format in
{dense, sparse} x solver in {default, glpk}; the oracle after every solve is the table above plus the status that the
constraint set implies (decided by construction).
"""
import itertools


def _mk(variant):
    from cvxopt import matrix
    from cvxopt.modeling import variable, op, max as mmax, sum as msum
    x, y = variable(1, 'x'), variable(2, 'y')
    a = float(variant)
    core = [y >= 0, msum(y) <= 2 + a, x <= 3 + a]
    floor = (x >= -1 - a)
    cut = (x >= 5 + 2 * a)                        # contradicts x <= 3 + a
    if variant % 2 == 0:
        obj = x + mmax(y[0] - 1, 2 * y[1] - 2, -1)      # convex PWL, bounded below on the core iff FLOOR is present
    else:
        obj = 2 * x + abs(y[0] - 1) + y[1]
    return x, y, core, floor, cut, obj, op


def histories(depth):
    """all event sequences of length <= depth over {C, F, S} that end with S and contain at least two S"""
    for L in range(2, depth + 1):
        for h in itertools.product('CFS', repeat=L):
            if h[-1] == 'S' and h.count('S') >= 2:
                yield ''.join(h)


def run(prop, depth, variant, fmt, solver):
    """returns (n_solves, n_histories, viol list, outcomes)"""
    viol, outcomes = [], {}
    nsolve = nh = 0
    for h in histories(depth):
        nh += 1
        x, y, core, floor, cut, obj, op = _mk(variant)
        p = op(obj, core + [floor])
        has_floor, has_cut = True, False
        prev = None
        for i, ev in enumerate(h):
            if ev == 'C':
                (p.delconstraint if has_cut else p.addconstraint)(cut)
                has_cut = not has_cut
                continue
            if ev == 'F':
                (p.delconstraint if has_floor else p.addconstraint)(floor)
                has_floor = not has_floor
                continue
            try:
                if solver == 'glpk':
                    p.solve(fmt, 'glpk', options={'glpk': {'msg_lev': 'GLP_MSG_OFF'}, 'show_progress': False})
                else:
                    p.solve(fmt, options={'show_progress': False})
            except Exception as e:
                viol.append({'key': '%s:opsolve-history:exception:%s' % (prop, type(e).__name__),
                             'msg': 'history %s (variant %d, %s, %s): solve() #%d raised %r' % (h[:i + 1], variant, fmt, solver, i, e)})
                break
            nsolve += 1
            st = p.status
            want = 'primal infeasible' if has_cut else ('optimal' if has_floor else 'dual infeasible')
            outcomes[st] = outcomes.get(st, 0) + 1
            cons = core + ([floor] if has_floor else []) + ([cut] if has_cut else [])
            vv = [v.value for v in (x, y)]
            mm = [c.multiplier.value for c in cons]
            tag = 'history %s (variant %d, %s, %s), solve #%d after status %r' % (h[:i + 1], variant, fmt, solver, i, prev)
            if st != want and st != 'unknown' and not (has_cut and not has_floor and st == 'dual infeasible' and solver == 'glpk'):
                viol.append({'key': '%s:opsolve-history:status' % prop, 'msg': '%s: status %r, the constraint set implies %r' % (tag, st, want)})
            if st == 'primal infeasible':
                if any(v is not None for v in vv):
                    viol.append({'key': '%s:opsolve-history:primal-infeasible:variable-values-not-None' % prop,
                                 'msg': '%s: status primal infeasible but variable values are %r' % (tag, [None if v is None else list(v) for v in vv])})
                if solver != 'glpk' and any(m is None for m in mm):
                    viol.append({'key': '%s:opsolve-history:primal-infeasible:certificate-missing' % prop,
                                 'msg': '%s: status primal infeasible but a multiplier is None' % tag})
            elif st == 'dual infeasible':
                if any(m is not None for m in mm):
                    viol.append({'key': '%s:opsolve-history:dual-infeasible:multipliers-not-None' % prop,
                                 'msg': '%s: status dual infeasible but multipliers are %r' % (tag, [None if m is None else list(m) for m in mm])})
                if solver != 'glpk' and any(v is None for v in vv):
                    viol.append({'key': '%s:opsolve-history:dual-infeasible:certificate-missing' % prop,
                                 'msg': '%s: status dual infeasible but a variable value is None' % tag})
            elif st == 'optimal':
                if any(v is None for v in vv) or any(m is None for m in mm):
                    viol.append({'key': '%s:opsolve-history:optimal:value-missing' % prop,
                                 'msg': '%s: status optimal but a variable value or multiplier is None' % tag})
                else:
                    # same optimum as a fresh op with the same constraint set
                    x2, y2, core2, floor2, cut2, obj2, op2 = _mk(variant)
                    q = op2(obj2, core2 + ([floor2] if has_floor else []))
                    q.solve(fmt, options={'show_progress': False})
                    if q.status == 'optimal':
                        a, b = float(p.objective.value()[0]), float(q.objective.value()[0])
                        if not abs(a - b) <= 1e-5 * (1 + abs(b)):
                            viol.append({'key': '%s:opsolve-history:optimal:value-differs-from-fresh-op' % prop,
                                         'msg': '%s: objective %r, fresh op %r' % (tag, a, b)})
            prev = st
        if len(viol) > 12:
            break
    return nsolve, nh, viol, outcomes
