"""C13 - an op object stays consistent under any sequence of edits.

Explicit-state exploration (mc/hist.py) of edit histories of a cvxopt.modeling.op over a fixed pool of
variables, constraints and objectives.  The reference model is "current objective + two Python lists"; after
every event the public observers, the private bookkeeping documented in the class docstring, and (after
solve) a from-scratch op and an exact LP are compared with it.
"""
from mc import hist
from mc.ref import lpexact

PROPERTY = 'C13'
LEVEL = 'model_checking'
ENGINE = 'hist'
FLAVOURS = ('plain',)
TECHNIQUE = 'explicit-state BFS over edit histories, lock-step reference model, differential + exact LP on solve'
RULE = ('breadth-first search over all histories of the 19-event alphabet {addconstraint(c1..c7), '
        'delconstraint(c1..c7) (constraint present, absent or present twice), objective = o1..o4, solve()} from '
        'three initial ops (op(o1), op(o1,[c1]), op(o2,[c1,c2,c4])); every history is replayed on a fresh pool '
        'and a fresh op; states are merged only when model state and the complete implementation state '
        '(_inequalities, _equalities, _variables incl. order and flags, objective identity, status, name) are '
        'equal; one engine case = one (initial op, first event) subtree; non-trivial = a history whose last '
        'event changed the reference model or was a solve that returned a status')
ASSUME = ['modeling.rst does not document the order of variables()/constraints()/inequalities()/equalities(): '
          'they are compared as identity multisets (multiplicity matters, order does not)',
          'modeling.rst is silent on adding a constraint twice and on deleting an absent constraint: for a second '
          'add both "listed twice" and "no change" are accepted, for delconstraint of a constraint listed twice '
          'both "one occurrence removed" and "all removed" are accepted (the model follows the implementation); '
          'delconstraint of an absent constraint must leave everything unchanged and may return silently or '
          'raise ValueError; in all cases the bookkeeping must stay consistent with the resulting lists',
          'wrong-type arguments must raise TypeError (op docstrings) and change nothing',
          'op._variables[v] = {o, i, e} is checked against its description in the op class docstring',
          'solvers.lp requires Rank(A)=p and Rank([G;A])=n (coneprog.rst): when the exact LP of the reference '
          'model violates this, the outcome of solve() is unspecified and only recorded',
          'status "unknown" (solver not successful, e.g. "singular KKT matrix" on LPs without a strictly feasible dual, '
          'depending on the column order) is a documented outcome of any solve: it is recorded in the outcome '
          'histogram but neither compared with the exact LP nor demanded equal between edited and fresh op; '
          'a problem that is both primal and dual infeasible may report either infeasibility status',
          'solver tolerances abstol = reltol = 1e-8 are set for both the edited and the fresh op',
          'exceptions raised by solve() itself on a consistent op (no inequality, equality-only, single '
          'constant-only inequality) are not C13 matters: only "edited op behaves like the fresh op" is demanded',
          'whether op.status is reset by an edit is not documented and not checked',
          'optimal values agree within 1e-6 (relative to 1+|value|)']
BOUNDS = {'quick': 'depth 4 (events after the initial op) from each of the 4 initial ops (one of them built from a bare equality constraint), all 19 events at every state '
                   '(60 subtrees, ~1.2e5 histories, ~4.6e4 states); right-hand-side palette VERIF_SEED mod 4; '
                   'solve format dense for even seeds, sparse for odd seeds',
          'thorough': 'depth 5 from each of the 4 initial ops (one of them built from a bare equality constraint), all 19 events at every state (~8.7e5 histories, ~3.1e5 states); '
                      'palette and format as in quick'}

CNAMES = ('c1', 'c2', 'c3', 'c4', 'c5', 'c6', 'c7')
ONAMES = ('o1', 'o2', 'o3', 'o4')
# which pool variables occur where (written by hand: independent of cvxopt's own .variables())
CVARS = {'c1': ('x',), 'c2': ('x', 'y'), 'c3': ('y',), 'c4': ('z',), 'c5': ('x',), 'c6': (), 'c7': ('y', 'z')}
CTYPE = {'c1': '<', 'c2': '<', 'c3': '<', 'c4': '=', 'c5': '<', 'c6': '<', 'c7': '<'}
OVARS = {'o1': ('x',), 'o2': ('x', 'y'), 'o3': ('x', 'z'), 'o4': ('x', 'y')}
# right-hand sides: c1: x<=a, c2: x+sum(y)<=b, c4: z==d, c5: |x|<=e, c7: y0-z<=g    (c3: y>=0, c6: 1<=0)
RHS = [{'c1': 1.0, 'c2': 2.0, 'c4': 1.0, 'c5': 3.0, 'c7': 4.0},
       {'c1': 2.0, 'c2': 3.0, 'c4': -1.0, 'c5': 2.0, 'c7': 3.0},
       {'c1': -1.0, 'c2': 1.0, 'c4': 2.0, 'c5': 4.0, 'c7': 0.0},
       {'c1': 0.5, 'c2': 2.5, 'c4': 0.0, 'c5': 1.5, 'c7': -2.0}]     # palette 3: {c3,c4,c7} is infeasible
# an initial op with exactly one constraint receives it bare (op(f, c), not op(f, [c])): the documented single-constraint form
INIT = [('o1', ()), ('o1', ('c1',)), ('o2', ('c1', 'c2', 'c4')), ('o3', ('c4',))]
ALPHABET = [('add', c) for c in CNAMES] + [('del', c) for c in CNAMES] + [('obj', o) for o in ONAMES] + [('solve',)]
TOL = 1e-6


def cases(tier, seed, flavour):
    depth = 5 if tier == 'thorough' else 4
    pal = seed % 4
    fmt = 'sparse' if seed % 2 else 'dense'
    for k in range(len(INIT)):
        yield {'init': k, 'first': None, 'depth': 0, 'pal': pal, 'fmt': fmt}
    for k in range(len(INIT)):
        for e in ALPHABET:
            yield {'init': k, 'first': list(e), 'depth': depth - 1, 'pal': pal, 'fmt': fmt}
    for k in range(len(RESOLVE)):
        yield {'part': 'resolve', 'k': k, 'pal': pal, 'fmt': fmt}
    for c in _cases_opsolve_hist(tier, seed):
        yield c



def _run_opsolve_hist(case):
    """solve / edit / solve histories of one op whose status changes on the way (checks/opsolve_hist.py)"""
    from mc import cvx
    from checks import opsolve_hist as H
    ns, nh, viol, outcomes = H.run(PROPERTY, case['depth'], case['variant'], case['fmt'], case['solver'])
    return {'n': ns, 'nontrivial': ns - nh, 'viol': viol, 'outcomes': {'opsolve-history:' + k: v for k, v in outcomes.items()},
            'states': ns, 'transitions': ns, 'traces': nh}


def _cases_opsolve_hist(tier, seed):
    for variant in ((seed % 4, (seed + 1) % 4) if tier == 'quick' else (0, 1, 2, 3)):
        for fmt in ('dense', 'sparse'):
            for solver in ('default', 'glpk'):
                yield {'part': 'opsolve-hist', 'variant': variant, 'fmt': fmt, 'solver': solver, 'depth': 5 if tier == 'quick' else 6}

def crash_key(case):
    if case.get('part') == 'opsolve-hist':
        return 'opsolve-hist'
    if case.get('part') == 'resolve':
        return 'resolve:%d' % case['k']
    return 'init%s:%s' % (case.get('init'), '-'.join(case.get('first') or ['none']))


# ------------------------------------------------------------------ solve() does not edit the problem
# piecewise-linear problems (several convex terms in one constraint, PWL objectives): name -> builder(x, y, z)
RESOLVE = [
    lambda x, y, z, M: (M.sum(y) - x, [M.max(y) - M.min(y) <= 1, abs(x) <= 2, y >= -1]),
    lambda x, y, z, M: (-x - M.sum(y), [abs(x) + M.max(y) <= 2, M.sum(abs(y)) + M.max(x, 0) <= 3]),
    lambda x, y, z, M: (M.max(y) + abs(x - 1), [M.sum(y) >= 1, M.max(y) - M.min(y) <= 2, M.max(x, z) + M.max(y) <= 4, z == 1]),
    lambda x, y, z, M: (M.sum(abs(y)) + M.max(x, -x, 1), [M.min(y) + M.min(x, z) >= -2, z <= 1, M.max(abs(y)) + M.max(y) <= 5]),
    lambda x, y, z, M: (x + z, [M.max(y) <= x, -M.min(y) <= z, M.max(y) - M.min(y) + abs(x - z) <= 3, M.sum(y) == 1]),
]


# variables of each constraint / of the objective, read off the formulas above
RESOLVE_CVARS = [[['y'], ['x'], ['y']], [['x', 'y'], ['x', 'y']], [['y'], ['y'], ['x', 'y', 'z'], ['z']],
                 [['x', 'y', 'z'], ['z'], ['y']], [['x', 'y'], ['y', 'z'], ['x', 'y', 'z'], ['y']]]
RESOLVE_OVARS = [['x', 'y'], ['x', 'y'], ['x', 'y'], ['x', 'y'], ['x', 'z']]


def run_resolve(case):
    """solve() repeated on one op, and a fresh op built from the same constraint objects afterwards: the op's variables,
    the values of its objective and constraint functions at a fixed point and the answer stay the same."""
    from cvxopt import matrix, modeling as M
    x, y, z = M.variable(1, 'x'), M.variable(2, 'y'), M.variable(1, 'z')
    obj, cons = RESOLVE[case['k']](x, y, z, M)
    p = M.op(obj, cons)
    viol = []
    n = 0

    def snapshot():
        x.value, y.value, z.value = matrix([0.75]), matrix([-1.25, 2.5]), matrix([-0.5])
        out = {'variables': sorted(v.name for v in p.variables()),
               'objective': list(p.objective.value()),
               'constraints': [list(c.value()) for c in p.constraints()],
               'cvars': [sorted(v.name for v in c.variables()) for c in cons]}
        x.value = y.value = z.value = None
        return out

    def answer(q):
        try:
            q.solve(case['fmt'])
        except Exception as e:
            return ('exc', type(e).__name__, str(e)[:80])
        return (q.status, None if q.status != 'optimal' else round(q.objective.value()[0], 6))
    s0 = snapshot()
    # the variables an op knows are those of its objective and constraints (here: all of x, y, z - by construction)
    want_c = RESOLVE_CVARS[case['k']]
    want_v = sorted(set(v for cv in want_c for v in cv) | set(RESOLVE_OVARS[case['k']]))
    if s0['variables'] != want_v or s0['cvars'] != [sorted(cv) for cv in want_c]:
        viol.append({'key': 'C13:resolve:variables-of-a-fresh-op', 'msg': 'op.variables() of the freshly built op is %r (formulas: %r), constraint '
                     'variables %r (formulas: %r)' % (s0['variables'], want_v, s0['cvars'], want_c), 'sub': {'k': case['k']}})
    first = answer(p)
    n += 1
    # the problems are feasible and bounded by construction (box-like constraints on every variable that the objective moves)
    if first[0] != 'optimal':
        viol.append({'key': 'C13:resolve:first-solve-not-optimal', 'msg': 'solve() of a feasible bounded PWL problem gives %r' % (first,),
                     'sub': {'k': case['k']}})
    for rep in (2, 3):
        try:
            s1 = snapshot()
        except Exception as e:
            viol.append({'key': 'C13:resolve:op-unusable-after-solve', 'msg': 'after %d solve() calls reading the op raises %s: %s'
                         % (rep - 1, type(e).__name__, e), 'sub': {'k': case['k']}})
            break
        if s1 != s0:
            viol.append({'key': 'C13:resolve:solve-edited-the-problem', 'msg': 'after %d solve() calls the op reads %r, before the first %r'
                         % (rep - 1, s1, s0), 'sub': {'k': case['k']}})
            break
        again = answer(p)
        n += 1
        if again != first:
            viol.append({'key': 'C13:resolve:repeated-solve-differs', 'msg': 'solve() #%d gives %r, the first gave %r' % (rep, again, first)})
            break
    if not viol:
        fresh = answer(M.op(obj, cons))
        n += 1
        if fresh != first:
            viol.append({'key': 'C13:resolve:fresh-op-differs', 'msg': 'a fresh op over the same objective and constraints gives %r, the '
                         'solved one gave %r' % (fresh, first)})
    return {'n': n, 'nontrivial': n, 'viol': viol, 'outcomes': {'resolve:' + str(first[0]): 1}, 'states': 0, 'transitions': 0, 'traces': 0}


# ------------------------------------------------------------------ pool
def make_pool(pal):
    from cvxopt.modeling import variable, max as mmax, sum as msum
    r = RHS[pal]
    x, y, z = variable(1, 'x'), variable(2, 'y'), variable(1, 'z')
    V = {'x': x, 'y': y, 'z': z}
    C = {'c1': x <= r['c1'], 'c2': x + msum(y) <= r['c2'], 'c3': y >= 0, 'c4': z == r['c4'],
         'c5': abs(x) <= r['c5'], 'c6': 0 * x + 1 <= 0, 'c7': y[0] - z <= r['c7']}
    O = {'o1': x, 'o2': msum(y) - x, 'o3': z + mmax(x, 0), 'o4': -x - msum(y)}
    names = {}
    for d in (V, C, O):
        for k, o in d.items():
            names.setdefault(id(o), k)      # O['o1'] is the variable x itself: keeps the name 'x'
    return V, C, O, names


class World(object):
    pass


def _nm(w, o):
    return w.names.get(id(o), '?' + type(o).__name__)


def observe(w):
    p = w.p
    ob = {}
    for m in ('variables', 'constraints', 'inequalities', 'equalities'):
        ob[m] = [_nm(w, t) for t in getattr(p, m)()]
    ob['_ineq'] = [_nm(w, t) for t in p._inequalities]
    ob['_eq'] = [_nm(w, t) for t in p._equalities]
    ob['_vars'] = [(_nm(w, v), d.get('o'), [_nm(w, t) for t in d.get('i', ())], [_nm(w, t) for t in d.get('e', ())])
                   for v, d in p._variables.items()]
    f = p.objective
    tag = w.names.get(id(f))
    if tag is None:
        tag = 'fn(%s)' % ','.join(sorted(_nm(w, v) for v in f.variables()))
    ob['objective'] = tag
    ob['status'] = p.status
    ob['name'] = p.name
    ob['values'] = [(k, w.V[k].value is None) for k in ('x', 'y', 'z')]
    return ob


def key_of(w, ob):
    model = (w.obj, tuple(w.ineqs), tuple(w.eqs))
    impl = (tuple(ob['variables']), tuple(ob['constraints']), tuple(ob['inequalities']), tuple(ob['equalities']),
            tuple(ob['_ineq']), tuple(ob['_eq']),
            tuple((n, o, tuple(i), tuple(e)) for n, o, i, e in ob['_vars']),
            ob['objective'], ob['status'], ob['name'], tuple(ob['values']))
    return (model, impl)


def expected_vars(w):
    s = set(OVARS[w.obj])
    for c in w.ineqs + w.eqs:
        s.update(CVARS[c])
    return s


def tokens(w, ob):
    """set of discrepancies between the implementation's observable state and the reference model."""
    T = set()
    exp = expected_vars(w)
    got = ob['variables']
    for n in got:
        if n not in exp:
            T.add(('var-extra', n))
        if got.count(n) > 1:
            T.add(('var-dup', n))
    for n in exp:
        if n not in got:
            T.add(('var-missing', n))
    if sorted(ob['inequalities']) != sorted(w.ineqs):
        T.add(('list', 'inequalities'))
    if sorted(ob['equalities']) != sorted(w.eqs):
        T.add(('list', 'equalities'))
    if sorted(ob['constraints']) != sorted(w.ineqs + w.eqs):
        T.add(('list', 'constraints'))
    want = 'fn(x)' if w.obj == 'o1' else w.obj
    if ob['objective'] != want:
        T.add(('objective', 'wrong'))
    for n, o, li, le in ob['_vars']:
        inobj = n in OVARS[w.obj]
        if o and not inobj:
            T.add(('bk-o-stale', n))
        if inobj and not o:
            T.add(('bk-o-missing', n))
        if sorted(li) != sorted(c for c in w.ineqs if n in CVARS[c]):
            T.add(('bk-i', n))
        if sorted(le) != sorted(c for c in w.eqs if n in CVARS[c]):
            T.add(('bk-e', n))
    return T


def token_key(tok, ec, w, ob):
    kind, n = tok
    if kind == 'var-extra':
        stale_o = any(v == n and o and n not in OVARS[w.obj] for v, o, _, _ in ob['_vars'])
        if ec.startswith('delconstraint') and stale_o:
            return 'C13:variables:stale-after-objective-change:revealed-by-delconstraint'
        if ec == 'objective-change':
            return 'C13:variables:stale-after-objective-change:immediately'
        return 'C13:variables:stale-after-' + ec
    if kind == 'var-missing':
        return 'C13:variables:missing-after-' + ec
    if kind == 'var-dup':
        return 'C13:variables:duplicate-after-' + ec
    if kind == 'list':
        return 'C13:%s:wrong-list-after-%s' % (n, ec)
    if kind == 'objective':
        return 'C13:objective:wrong-after-' + ec
    return 'C13:bookkeeping:%s-after-%s' % ({'bk-o-stale': 'o-flag-stale', 'bk-o-missing': 'o-flag-missing',
                                             'bk-i': 'i-list', 'bk-e': 'e-list'}[kind], ec)


def _shape(c):
    return 'multivar' if len(CVARS[c]) > 1 else ('constant' if not CVARS[c] else 'singlevar')


def _removed(lst, c, all_=False):
    if all_:
        return [t for t in lst if t != c]
    out = list(lst)
    out.remove(c)
    return out


def do_solve(p, fmt):
    try:
        p.solve(fmt)
    except Exception as ex:
        return ('exc', type(ex).__name__, str(ex)[:120])
    st = p.status
    val = None
    if st == 'optimal':
        try:
            val = float(p.objective.value()[0])
        except Exception:       # e.g. a variable of the objective got no value: compared as NaN (never within tolerance)
            val = float('nan')
    return ('status', st, val)


def step(w, e):
    """apply one event to implementation and model; fills w.viol with what THIS event introduced."""
    kind = e[0]
    exc = None
    viol = []
    w.solved = None
    changed = False
    if kind == 'init':
        from cvxopt.modeling import op
        obj, cs = INIT[e[1]]
        w.obj, w.ineqs, w.eqs = obj, [c for c in cs if CTYPE[c] == '<'], [c for c in cs if CTYPE[c] == '=']
        ec = 'constructor'
        w.p = (op(w.O[obj], w.C[cs[0]]) if len(cs) == 1 else op(w.O[obj], [w.C[c] for c in cs])) if cs else op(w.O[obj])
        changed = True
    elif kind in ('add', 'del'):
        c = e[1]
        which = 'ineqs' if CTYPE[c] == '<' else 'eqs'
        cur = getattr(w, which)
        n = cur.count(c)
        if kind == 'add':
            ec = 'addconstraint' + ('-twice' if n else '')
            suffix = '-twice' if n else ''
            cands = [cur + [c]] + ([list(cur)] if n else [])
            try:
                w.p.addconstraint(w.C[c])
            except Exception as ex:
                exc = ex
        else:
            suffix = '-absent' if n == 0 else ('-duplicate' if n > 1 else '')
            sh = _shape(c)
            ec = 'delconstraint' + suffix + ('' if sh == 'singlevar' else '-' + sh)
            cands = [list(cur)] if n == 0 else ([_removed(cur, c)] + ([_removed(cur, c, True)] if n > 1 else []))
            try:
                w.p.delconstraint(w.C[c])
            except Exception as ex:
                exc = ex
        got = sorted(_nm(w, t) for t in (w.p.inequalities() if which == 'ineqs' else w.p.equalities()))
        new = cands[0]
        for cand in cands:
            if sorted(cand) == got:
                new = cand
                break
        changed = new != cur
        setattr(w, which, new)
        if exc is not None and not (kind == 'del' and n == 0 and isinstance(exc, ValueError)):
            viol.append({'key': 'C13:%s:%s-%s-constraint%s' % ('addconstraint' if kind == 'add' else 'delconstraint',
                                                               type(exc).__name__, _shape(c).replace('singlevar', 'single-variable'), suffix),
                         'msg': '%sconstraint(%s) [%s%s] raised %s: %s' % (kind, c, _shape(c), suffix, type(exc).__name__, exc)})
    elif kind == 'obj':
        ec = 'objective-change'
        changed = w.obj != e[1]
        w.obj = e[1]
        try:
            w.p.objective = w.O[e[1]]
        except Exception as ex:
            viol.append({'key': 'C13:objective:%s-on-assignment' % type(ex).__name__,
                         'msg': 'op.objective = %s raised %s: %s' % (e[1], type(ex).__name__, ex)})
    elif kind == 'solve':
        ec = 'solve'
        w.solved = do_solve(w.p, w.fmt)
    else:
        raise AssertionError(e)
    ob = observe(w)
    T = tokens(w, ob)
    origin = {}
    for t in sorted(T):
        if t in w.origin:
            origin[t] = w.origin[t]
        else:
            k = token_key(t, ec, w, ob)
            origin[t] = k
            viol.append({'key': k, 'msg': 'after %s: %s %s; model: objective %s, inequalities %s, equalities %s; '
                         'op: variables() %s, inequalities() %s, equalities() %s, constraints() %s, objective %s, _variables %s'
                         % ('-'.join(str(t_) for t_ in e), t[0], t[1], w.obj, w.ineqs, w.eqs, ob['variables'],
                            ob['inequalities'], ob['equalities'], ob['constraints'], ob['objective'], ob['_vars'])})
    w.origin = origin
    w.ob = ob
    w.viol = viol
    w.ec = ec
    w.changed = changed


# ------------------------------------------------------------------ exact LP of the reference model
def exact_lp(obj, ineqs, eqs, pal):
    """(c, G, h, A, b) over the scalar columns of the variables occurring in the model (+ epigraph variable t for o3)."""
    r = RHS[pal]
    used = set(OVARS[obj])
    for c in ineqs + eqs:
        used.update(CVARS[c])
    colnames = []
    for v in ('x', 'y', 'z'):
        if v in used:
            colnames += ['y0', 'y1'] if v == 'y' else [v]
    if obj == 'o3':
        colnames.append('t')
    idx = dict((n, i) for i, n in enumerate(colnames))
    n = len(colnames)

    def row(d):
        a = [0] * n
        for k, v in d.items():
            a[idx[k]] = v
        return a
    G, h, A, b = [], [], [], []
    for c in ineqs:
        if c == 'c1':
            G.append(row({'x': 1})); h.append(r['c1'])
        elif c == 'c2':
            G.append(row({'x': 1, 'y0': 1, 'y1': 1})); h.append(r['c2'])
        elif c == 'c3':
            G.append(row({'y0': -1})); h.append(0)
            G.append(row({'y1': -1})); h.append(0)
        elif c == 'c5':
            G.append(row({'x': 1})); h.append(r['c5'])
            G.append(row({'x': -1})); h.append(r['c5'])
        elif c == 'c6':
            G.append(row({})); h.append(-1)
        elif c == 'c7':
            G.append(row({'y0': 1, 'z': -1})); h.append(r['c7'])
        else:
            raise AssertionError(c)
    for c in eqs:
        assert c == 'c4'
        A.append(row({'z': 1})); b.append(r['c4'])
    if obj == 'o1':
        cost = row({'x': 1})
    elif obj == 'o2':
        cost = row({'x': -1, 'y0': 1, 'y1': 1})
    elif obj == 'o3':
        cost = row({'z': 1, 't': 1})
        G.append(row({'x': 1, 't': -1})); h.append(0)
        G.append(row({'t': -1})); h.append(0)
    else:
        cost = row({'x': -1, 'y0': -1, 'y1': -1})
    return cost, G, h, A, b


_exact_cache = {}


def exact(obj, ineqs, eqs, pal):
    k = (obj, tuple(sorted(ineqs)), tuple(sorted(eqs)), pal)
    if k not in _exact_cache:
        c, G, h, A, b = exact_lp(obj, list(k[1]), list(k[2]), pal)
        n = len(c)
        rank_ok = (lpexact.rank(A) == len(A) if A else True) and (lpexact.rank(G + A) == n if (G or A) else n == 0)
        res = lpexact.solve(c, G, h, A, b)
        ray = lpexact.solve(c, G, [0] * len(G), A, [0] * len(A))['status'] == 'unbounded'
        if res['status'] == 'optimal':
            ok = {'optimal'}
        elif res['status'] == 'unbounded':
            ok = {'dual infeasible'}
        else:
            ok = {'primal infeasible', 'dual infeasible'} if ray else {'primal infeasible'}
        _exact_cache[k] = {'rank_ok': rank_ok, 'status': res['status'], 'accept': ok,
                           'value': None if res['value'] is None else float(res['value'])}
    return _exact_cache[k]


def check_solve(w, stats):
    """the last event was solve(): differential against a freshly constructed op and against the exact LP."""
    from cvxopt.modeling import op
    viol = []
    got = w.solved
    V2, C2, O2, _ = make_pool(w.pal)
    q = op(O2[w.obj], [C2[c] for c in w.ineqs + w.eqs])
    fresh = do_solve(q, w.fmt)
    ex = exact(w.obj, w.ineqs, w.eqs, w.pal)
    lab = (got[1] if got[0] == 'status' else 'exc:' + got[1])
    stats['outcomes']['solve:' + ('' if ex['rank_ok'] else 'rank-deficient:') + lab] = \
        stats['outcomes'].get('solve:' + ('' if ex['rank_ok'] else 'rank-deficient:') + lab, 0) + 1
    if not ex['rank_ok']:
        return viol
    desc = 'objective %s, inequalities %s, equalities %s' % (w.obj, w.ineqs, w.eqs)
    mism = None
    if got[0] == fresh[0] == 'status' and got[1] != fresh[1] and 'unknown' in (got[1], fresh[1]):
        # 'unknown' (solver did not succeed) is a documented outcome of any solve: recorded, not demanded equal
        lab2 = 'solve:unknown-on-one-side(edited %s, fresh %s)' % (got[1], fresh[1])
        stats['outcomes'][lab2] = stats['outcomes'].get(lab2, 0) + 1
    elif got[0] != fresh[0] or got[1] != fresh[1]:
        mism = 'exception-' + got[1] if got[0] == 'exc' else 'status'
    elif got[0] == 'status' and got[2] is not None:
        err = abs(got[2] - fresh[2]) / (1.0 + abs(fresh[2]))
        stats['maxerr'] = max(stats['maxerr'], err)
        if not err <= TOL:
            mism = 'value'
    if mism:
        pre = sorted(set(k for t, k in w.pre_origin.items() if t[0] in ('var-extra', 'var-missing', 'var-dup', 'list', 'objective')))
        # one violation per inconsistency that was already present (and reported under its own key) before the solve;
        # a mismatch on a consistent op gets the plain key
        for key in (['C13:solve:differs-from-fresh:due-to:' + k[4:] for k in pre] or ['C13:solve:differs-from-fresh:' + mism]):
            viol.append({'key': key, 'msg': 'solve() on the edited op gave %r, on a freshly constructed op(%s) %r; '
                         'op.variables() before solve: %s' % (got, desc, fresh, w.pre_ob['variables'])})
    for who, out in (('fresh', fresh), ('edited', got)):
        if out[0] != 'status' or out[1] == 'unknown' or (who == 'edited' and mism):
            continue
        if out[1] not in ex['accept']:
            viol.append({'key': 'C13:solve:differs-from-exact-lp:status', 'msg': '%s op(%s): status %r, exact LP is %s'
                         % (who, desc, out[1], ex['status'])})
        elif out[1] == 'optimal':
            err = abs(out[2] - ex['value']) / (1.0 + abs(ex['value']))
            stats['maxerr'] = max(stats['maxerr'], err)
            if not err <= TOL:
                viol.append({'key': 'C13:solve:differs-from-exact-lp:value', 'msg': '%s op(%s): value %r, exact %r'
                             % (who, desc, out[2], ex['value'])})
    if got[0] == 'status':
        stats['nontrivial'] += 1
    return viol


# ------------------------------------------------------------------ probes on the final state of a history
def probes(w):
    """returned lists are copies; wrong-type arguments raise TypeError and change nothing."""
    viol = []
    p = w.p
    base = key_of(w, w.ob)
    for m in ('variables', 'constraints', 'inequalities', 'equalities'):
        L = getattr(p, m)()
        ids = [id(t) for t in L]
        L.append(None)
        if L:
            L[0] = None
        L2 = getattr(p, m)()
        if [id(t) for t in L2] != ids or L2 is L:
            viol.append({'key': 'C13:copies:%s-returns-internal-list' % m,
                         'msg': 'mutating the list returned by op.%s() changed the result of the next call' % m})
            return viol        # the op is damaged now
    if key_of(w, observe(w)) != base:
        viol.append({'key': 'C13:copies:mutating-returned-list-changed-op', 'msg': 'op state changed after mutating returned lists'})
        return viol
    x, y = w.V['x'], w.V['y']
    bad = [('addconstraint', lambda: p.addconstraint(x)), ('addconstraint', lambda: p.addconstraint(None)),
           ('addconstraint', lambda: p.addconstraint([w.C['c1']])),
           ('delconstraint', lambda: p.delconstraint('c1')), ('delconstraint', lambda: p.delconstraint(+x)),
           ('objective', lambda: setattr(p, 'objective', y)), ('objective', lambda: setattr(p, 'objective', 'o1')),
           ('objective', lambda: setattr(p, 'objective', -abs(x))), ('objective', lambda: setattr(p, 'objective', None))]
    for i, (m, f) in enumerate(bad):
        try:
            f()
            r = 'no exception'
        except TypeError:
            r = None
        except Exception as ex:
            r = type(ex).__name__
        if r is not None:
            viol.append({'key': 'C13:%s:wrong-type-argument:%s' % (m, r.replace(' ', '-')),
                         'msg': 'probe %d (%s with an argument of the wrong type) gave %s instead of TypeError' % (i, m, r)})
        if key_of(w, observe(w)) != base:
            viol.append({'key': 'C13:%s:wrong-type-argument:state-changed' % m,
                         'msg': 'probe %d (%s with an argument of the wrong type) changed the op' % (i, m)})
            break
    return viol


# ------------------------------------------------------------------ hist plumbing
def build(history, pal, fmt, stats):
    w = World()
    w.pal, w.fmt = pal, fmt
    w.V, w.C, w.O, w.names = make_pool(pal)
    w.origin = {}
    w.ob = None
    for e in history:
        w.pre_origin, w.pre_ob = w.origin, w.ob
        step(w, e)
    w.key = key_of(w, w.ob)
    viol = list(w.viol)
    last = history[-1]
    if last[0] == 'solve':
        viol += check_solve(w, stats)
    elif w.changed:
        stats['nontrivial'] += 1
    viol += probes(w)
    w.allviol = viol
    lab = w.ec
    stats['outcomes'][lab] = stats['outcomes'].get(lab, 0) + 1
    return w


def run(case):
    from mc import cvx
    from cvxopt import solvers
    solvers.options['show_progress'] = False
    if case.get('part') == 'opsolve-hist':
        solvers.options.clear()
        return _run_opsolve_hist(case)
    if case.get('part') == 'resolve':
        return run_resolve(case)
    solvers.options['abstol'] = 1e-8        # tighter than the defaults (1e-7 / 1e-6) so that values can be compared to 1e-6
    solvers.options['reltol'] = 1e-8
    stats = {'outcomes': {}, 'maxerr': 0.0, 'nontrivial': 0}
    init = (('init', case['init']),)
    if case['first'] is not None:
        init += (tuple(case['first']),)
    pal, fmt = case['pal'], case['fmt']
    r = hist.explore(init, lambda w: ALPHABET, lambda h: build(h, pal, fmt, stats), lambda w: w.key,
                     lambda w, h: w.allviol, case['depth'])
    viol = []
    for v in r['violations']:
        hs = ' ; '.join('-'.join(str(t) for t in e) for e in v['history'])
        viol.append({'key': v['key'], 'msg': '[%d histories in this subtree, shortest: %s] %s' % (r['by_key'][v['key']], hs, v['msg']),
                     'sub': {'history': v['history']}})
    return {'n': r['traces'], 'nontrivial': stats['nontrivial'], 'outcomes': stats['outcomes'], 'viol': viol,
            'maxerr': {'objective value': stats['maxerr']},
            'states': r['states'], 'transitions': r['transitions'] + (1 if case['first'] is not None else 0),
            'traces': r['traces'],
            'extra': {'subtrees_completed_to_bound': int(r['depth'] == case['depth']), 'merged_histories': r['merged']}}
