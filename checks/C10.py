"""C10 - numerical failures inside a solve are contained and reported as documented."""
import sys
from mc import dom, solve, qpsolve, nlsolve
from mc.ref import cone as R

PROPERTY = 'C10'
LEVEL = 'fault_enumeration'
ENGINE = 'fault'
FLAVOURS = ('plain',)
RULE = ('environment-answer enumeration: for every base problem (conelp, coneqp, cpl, cp; every cone block kind, with and '
        'without start points / initvals, refinement 0 and 1) a fault-free run with a counting user KKT solver records the '
        'number of factor() and solve() calls; then ArithmeticError is injected at EVERY factor index and at EVERY solve index '
        '(deviation bound 1; thorough: every pair, bound 2); for cpl/cp additionally, for every iteration i and every r in 1..4, '
        'F refuses the first r distinct trial points of the line search of iteration i (prefix patterns, as a convex domain '
        'produces), and the real restricted-domain problems of the library are started 1, 1/4, 2^-6, 2^-20 from the boundary. '
        'Oracle = the documented failure protocol. non-trivial = runs in which the injected fault was actually reached')
ASSUME = ['the solver frame (locals iters) is read at injection time to decide whether the fault hit start-up / iteration 0',
          "after a fault only: ValueError mentioning Rank (start-up or iteration 0), status 'unknown' with s, z strictly interior and self-consistent fields, or a continuation whose final status passes that status's own certificate oracle",
          'executions run to completion; livelock horizon: 60 consecutive refusals']
BOUNDS = {'quick': '26 base problems x every single fault position (factor and solve), transient and persistent (all later calls fail too) + refusal patterns (iteration x r<=4)',
          'thorough': '60 base problems; every single fault position, transient and persistent; on every 4th base problem all pairs (factor k < 16, solve j < 64) and all pairs of solves j < 64 at distance <= 5 (bound 2); r<=6'}
TECHNIQUE = 'exhaustive enumeration of fault positions (deviation-bounded) against a reference model of the documented failure protocol'


class Fault(object):
    """fault plan + bookkeeping shared by the instrumented KKT solver."""
    def __init__(self, fail_factor=(), fail_solve=()):
        self.ff, self.fs = set(fail_factor), set(fail_solve)
        self.nf = self.ns = 0
        self.hit = []          # (kind, index, iters at injection)

    def _iters(self):
        fr = sys._getframe(2)
        while fr is not None:
            if fr.f_code.co_name in ('conelp', 'coneqp', 'cpl'):
                return fr.f_locals.get('iters', -1)
            fr = fr.f_back
        return None

    def factor(self):
        k = self.nf
        self.nf += 1
        if k in self.ff:
            self.hit.append(('factor', k, self._iters()))
            raise ArithmeticError('injected failure in factor #%d' % k)

    def solve(self):
        j = self.ns
        self.ns += 1
        if j in self.fs:
            self.hit.append(('solve', j, self._iters()))
            raise ArithmeticError('injected failure in solve #%d' % j)


def _kkt_conelp(inst, flt, builtin):
    """user KKT solver = a built-in factory wrapped with the fault plan."""
    from cvxopt import misc
    a = solve.build_args(inst, {'storage': 'dense'})
    fac = getattr(misc, 'kkt_' + builtin)(a['G'], a['dims'], a['A'])

    def kk(W):
        flt.factor()
        g = fac(W)

        def sv(x, y, z):
            flt.solve()
            g(x, y, z)
        return sv
    return kk


def _kkt_coneqp(inst, flt, builtin):
    from cvxopt import misc
    a = qpsolve.build(inst, {'storage': 'dense'})
    fac = getattr(misc, 'kkt_' + builtin)(a['G'], a['dims'], a['A'])

    def kk(W):
        flt.factor()
        g = fac(W, a['P'])

        def sv(x, y, z):
            flt.solve()
            g(x, y, z)
        return sv
    return kk


def _kkt_nl(pb, flt, F, builtin='ldl'):
    from cvxopt import misc, matrix
    from mc import cvx
    n = len(pb['x0'])
    N = R.cdim(pb['dims'])
    p = len(pb['A'])
    Gm = cvx.from_cols(pb['G'], N)
    Am = matrix([pb['A'][i][j] for j in range(n) for i in range(p)], (p, n), 'd') if p else matrix(0.0, (0, n))
    m = nlsolve.nfun(pb)
    epi = pb['entry'] == 'cp'
    mnl = m - 1 if epi else m
    fac = getattr(misc, 'kkt_' + builtin)(Gm, pb['dims'], Am, mnl)

    def kk(x, z, W):
        # the scaling handed to the KKT solver must satisfy its invariants also after a restore-and-retry
        inv = R.w_invariants(cvx.W_to_ref(W), pb['dims'], mnl)
        bad = inv.get('bad') or ', '.join('%s=%.2g' % (k_, v_) for k_, v_ in inv.items() if k_ != 'bad' and not v_ <= 1e-8)
        if bad and not getattr(flt, 'wviol', None):
            flt.wviol = 'kktsolver call #%d: %s' % (flt.nf, bad)
        flt.factor()
        flt.kkt_calls = getattr(flt, 'kkt_calls', 0) + 1
        f, Df, H = F(x, z)
        g = fac(W, H, Df[1:, :] if epi else Df)

        def sv(x_, y_, z_):
            flt.solve()
            g(x_, y_, z_)
        return sv
    return kk


# ------------------------------------------------------------------------------------------------ base problems
def base_list(tier, seed):
    out = []
    structs = [{'l': 2, 'q': [], 's': []}, {'l': 0, 'q': [3], 's': []}, {'l': 0, 'q': [], 's': [2]}, {'l': 1, 'q': [2], 's': [2]},
               {'l': 0, 'q': [], 's': [2, 2]}]       # two 's' blocks: the failure handlers walk the blocks with their own offsets
    if tier == 'thorough':
        structs += [{'l': 3, 'q': [], 's': []}, {'l': 1, 'q': [1, 2], 's': []}, {'l': 0, 'q': [], 's': [1, 2]}, {'l': 0, 'q': [2], 's': [3]}]
    for d in structs:
        for (n, p) in ((2, 0), (2, 1)):
            for start in (None, 'both'):
                for rf in ((None, 1) if tier == 'quick' else (None, 0, 1)):
                    if tier == 'quick' and start and rf:
                        continue
                    out.append({'kind': 'conelp', 'dims': d, 'n': n, 'p': p, 'start': start, 'refinement': rf, 'variant': seed})
            out.append({'kind': 'coneqp', 'dims': d, 'n': n, 'p': p, 'init': None, 'refinement': None, 'variant': seed})
            if tier == 'thorough' or p == 0:
                out.append({'kind': 'coneqp', 'dims': d, 'n': n, 'p': p, 'init': ['x', 's', 'y', 'z'], 'refinement': 1, 'variant': seed + 1})
    # conelp / coneqp with a user-defined vector type for x (operators G, A as functions, xnewcopy / xdot / xaxpy / xscal,
    # own KKT solver): the failure handlers must treat x through the user's operations as well
    for kd in ('conelp', 'coneqp'):
        for (dd, n, p) in (({'l': 2, 'q': [], 's': []}, 3, 1), ({'l': 1, 'q': [2], 's': [2]}, 3, 0), ({'l': 1, 'q': [2], 's': [2]}, 3, 1)):
            out.append({'kind': kd, 'dims': dd, 'n': n, 'p': p, 'start': None, 'init': None, 'refinement': None, 'variant': seed,
                        'customx': True})
    # coneqp without inequalities: one direct KKT solve (start-up protocol: the documented ValueError about rank)
    for (n, p) in ((2, 1), (2, 0), (3, 2)):
        out.append({'kind': 'coneqp', 'dims': {'l': 0, 'q': [], 's': []}, 'n': n, 'p': p, 'init': None, 'refinement': None, 'variant': seed})
    # ballo1.1 / ball2.0: cpl takes relaxed steps that overshoot, so faults there exercise the restore-and-retry path
    tags = ['quad2.0', 'acent2.1', 'acent2.0.015625', 'entropy2', 'lse.0.cp', 'ballo2.0', 'ballo1.1', 'ball2.0', 'expc2', 'logdom.0.1', 'logdom.1.0.015625']
    if tier == 'thorough':
        tags += ['quad3.1', 'acent1.0.25', 'entropy3', 'lse3.cp', 'ballo3.1', 'expc3', 'logdom.0.9.53674e-07', 'acent2.9.53674e-07']
    for t in tags:
        for cone in (None, {'l': 1, 'q': [2], 's': [2]}, {'l': 0, 'q': [], 's': [2, 2]}):
            for rf in (1, 0):
                if cone and cone['s'] == [2, 2] and (rf == 0 or tier == 'quick' and not t.startswith('ball')):
                    continue
                out.append({'kind': 'nl', 'tag': t, 'cone': cone, 'refinement': rf, 'seed': seed})
    # overshooting problems with an equality constraint: y belongs to the state cpl saves and restores
    for t in ['ballo2.0', 'ball2.0'] + (['ballo3.1'] if tier == 'thorough' else []):
        for cone in (None, {'l': 1, 'q': [2], 's': [2]}):
            for av in (1, 2):       # two different equality constraints (multiplier y != 0 at the optimum)
                out.append({'kind': 'nl', 'tag': t, 'cone': cone, 'refinement': 1, 'seed': seed, 'p': 1, 'av': av})
    if tier == 'quick':
        # a start 2^-20 from the domain boundary with an order-2 's' block: the relaxed line searches fail here and cpl
        # resumes its saved line search (the state restored there includes the eigen-decomposition of the 's' steps)
        out.append({'kind': 'nl', 'tag': 'logdom.0.9.53674e-07', 'cone': {'l': 1, 'q': [2], 's': [2]}, 'refinement': 1,
                    'seed': seed, 'maxiters': 52})
    return out


def cases(tier, seed, flavour):
    for i, b in enumerate(base_list(tier, seed)):
        yield {'base': b, 'tier': tier, 'idx': i}


class XVec(object):
    """a user-defined primal vector: two blocks kept as separate cvxopt matrices."""
    def __init__(self, a, b):
        self.a, self.b = a, b

    def flat(self):
        from cvxopt import matrix
        return matrix(list(self.a) + list(self.b))

    def load(self, m):
        na = len(self.a)
        self.a[:] = m[:na]
        self.b[:] = m[na:]


def _call_customx(inst, kind, flt, opts):
    """conelp / coneqp in operator form over XVec, KKT solver = the built-in 'ldl' factory on the dense data wrapped with
    the fault plan.  Returns the result with 'x' converted back to a matrix (or the exception)."""
    from cvxopt import solvers, matrix, blas, misc, base
    from mc import cvx
    d = inst['dims']
    cvec = inst['c'] if kind == 'conelp' else inst['q']
    n, p = len(cvec), len(inst['A'])
    N = R.cdim(d)
    Gm = cvx.from_cols(inst['G'], N)
    Am = matrix([inst['A'][i][j] for j in range(n) for i in range(p)], (p, n), 'd') if p else matrix(0.0, (0, n))
    hm, bm = cvx.dmat(solve.lower_sym(inst['h'], d)), cvx.dmat(inst['b'])
    na = 1

    def X(lst):
        return XVec(matrix(lst[:na]), matrix(lst[na:]))
    c = X([float(t) for t in cvec])

    def xnewcopy(u): return XVec(+u.a, +u.b)
    def xdot(u, v): return blas.dot(u.a, v.a) + blas.dot(u.b, v.b)
    def xaxpy(u, v, alpha=1.0):
        blas.axpy(u.a, v.a, alpha=alpha); blas.axpy(u.b, v.b, alpha=alpha)
    def xscal(alpha, u):
        blas.scal(alpha, u.a); blas.scal(alpha, u.b)

    def op(M, sgemv):
        def f(u, v, alpha=1.0, beta=0.0, trans='N'):
            if trans == 'N':
                uf = u.flat()
                if sgemv:
                    misc.sgemv(M, uf, v, d, alpha=alpha, beta=beta)
                else:
                    base.gemv(M, uf, v, alpha=alpha, beta=beta)
            else:
                vf = v.flat()
                if sgemv:
                    misc.sgemv(M, u, vf, d, trans='T', alpha=alpha, beta=beta)
                else:
                    base.gemv(M, u, vf, trans='T', alpha=alpha, beta=beta)
                v.load(vf)
        return f
    fG, fA = op(Gm, True), op(Am, False)
    if kind == 'conelp':
        fac = misc.kkt_ldl(Gm, d, Am)
    else:
        Pm = matrix([inst['P'][i][j] for j in range(n) for i in range(n)], (n, n), 'd')
        fac = misc.kkt_ldl(Gm, d, Am)

        def fP(u, v, alpha=1.0, beta=0.0):
            uf, vf = u.flat(), v.flat()
            base.symv(Pm, uf, vf, alpha=alpha, beta=beta)
            v.load(vf)

    def kk(W):
        flt.factor()
        g = fac(W) if kind == 'conelp' else fac(W, Pm)

        def sv(x, y, z):
            flt.solve()
            xf = x.flat()
            g(xf, y, z)
            x.load(xf)
        return sv
    o = {'show_progress': False}
    o.update(opts or {})
    try:
        if kind == 'conelp':
            sol = solvers.conelp(c, fG, hm, d, fA, bm, kktsolver=kk, xnewcopy=xnewcopy, xdot=xdot, xaxpy=xaxpy, xscal=xscal,
                                 options=o)
        else:
            sol = solvers.coneqp(fP, c, fG, hm, d, fA, bm, kktsolver=kk, xnewcopy=xnewcopy, xdot=xdot, xaxpy=xaxpy, xscal=xscal,
                                 options=o)
    except Exception as e:
        return e
    if isinstance(sol.get('x'), XVec):
        sol = dict(sol)
        sol['x'] = sol['x'].flat()
    return sol


# ------------------------------------------------------------------------------------------------ running one plan
def _setup(b):
    """returns (runner(flt, refuse) -> (result, rec), judge helpers)."""
    if b['kind'] == 'conelp':
        inst = None
        for k in range(8):
            inst = solve.planted(b['dims'], b['n'], b['p'], b['variant'] + k, 'strict')
            if inst is not None:
                break
        opts = {} if b['refinement'] is None else {'refinement': b['refinement']}
        cfg = {'entry': 'conelp', 'storage': 'dense', 'kkt': 'ref', 'start': b['start'], 'opts': opts}
        builtin = 'ldl'

        def runner(flt, refuse=None):
            if b.get('customx'):
                return _call_customx(inst, 'conelp', flt, opts), None
            return solve.call(inst, cfg, kktsolver_obj=_kkt_conelp(inst, flt, builtin))[0], None
        return inst, cfg, runner
    if b['kind'] == 'coneqp':
        inst = None
        for k in range(8):
            inst = qpsolve.planted_qp(b['dims'], b['n'], b['p'], b['variant'] + k)
            if inst is not None:
                break
        n = b['n']
        inst['P'] = [[inst['P'][i][j] + (1.0 if i == j else 0.0) for j in range(n)] for i in range(n)]
        opts = {} if b['refinement'] is None else {'refinement': b['refinement']}
        cfg = {'entry': 'coneqp', 'storage': 'dense', 'kkt': 'ref', 'init': b['init'], 'opts': opts}

        def runner(flt, refuse=None):
            if b.get('customx'):
                return _call_customx(inst, 'coneqp', flt, opts), None
            return qpsolve.call(inst, cfg, kktsolver_obj=_kkt_coneqp(inst, flt, 'ldl'))[0], None
        return inst, cfg, runner
    pb = [p for p in nlsolve.base_problems(b['seed']) if p['tag'] == b['tag']][0]
    if b['cone'] is not None or b.get('p'):
        A0, b0 = pb['A'], pb['b']
        pb = nlsolve.with_cone(pb, b['cone'] or nlsolve.D0, b['seed'] + b.get('av', 0), b.get('p', 0))
        if A0:
            pb['A'], pb['b'] = A0, b0
    cfg = {'opts': {'refinement': b['refinement']}}
    if b['tag'].startswith('ball'):
        cfg['opts']['maxiters'] = 14     # the overshoot and the restore happen within the first 12 iterations
    if b.get('maxiters'):
        cfg['opts']['maxiters'] = b['maxiters']

    def runner(flt, refuse=None, none_style=0):
        rec = {'calls': []}
        cfg2 = dict(cfg)
        if refuse is not None:
            cfg2['refuse'] = refuse
            cfg2['none_style'] = none_style     # both documented forms of 'outside the domain': None and (None, None)
        F = nlsolve.make_F(pb, cfg2, rec)
        kk = _kkt_nl(pb, flt, F)
        # nlsolve.call builds its own F; pass ours through by monkeypatching make_F for this call
        orig = nlsolve.make_F
        nlsolve.make_F = lambda pb_, cfg_, rec_: F
        try:
            res, _ = nlsolve.call(pb, cfg2, kktsolver_obj=kk)
        finally:
            nlsolve.make_F = orig
        return res, rec
    return pb, cfg, runner


def _judge(O, b, inst, cfg, res, flt, rec, what):
    """the reference model of the failure protocol."""
    kind = b['kind']
    ent = {'conelp': 'conelp', 'coneqp': 'coneqp'}.get(kind) or inst['entry']
    if not flt.hit and what != 'refusal':
        return 'fault-not-reached'
    it = flt.hit[0][2] if flt.hit else None
    site = '%s@%s' % (flt.hit[0][0] if flt.hit else 'refusal', ent)
    if kind == 'nl' and b['tag'].endswith('9.53674e-07'):
        site += ':start-2^-20-from-boundary'       # the ill-conditioned start points are their own class of findings
    if isinstance(res, Exception):
        if isinstance(res, ValueError) and 'Rank' in str(res):
            if it is not None and it > 0:
                O.bad('rank-error-after-first-iteration:' + site, 'ValueError(Rank...) raised for a failure in iteration %r' % it)
            return 'ValueError(Rank)'
        O.bad('escaped:%s:%s' % (type(res).__name__, site),
              'the injected failure left the solver as %s: %s (fault %r, iteration %r)' % (type(res).__name__, res, flt.hit[:1], it))
        return 'exc:' + type(res).__name__
    st = res.get('status')
    if st == 'unknown':
        if kind == 'conelp':
            solve.check_unknown(O, inst, res, 'conelp', cfg)
        elif kind == 'coneqp':
            qpsolve.check_optimal(O, inst, res, cfg, status='unknown')
            _interior(O, res, inst['dims'], ('s', 'z'), 0, site)
        else:
            nlsolve.check_optimal(O, inst, res, cfg, rec, status='unknown')
            _interior_nl(O, res, inst, site)
        if kind in ('conelp', 'coneqp') and it is not None and res.get('iterations') != it:
            O.bad('unknown:iterations-field:' + site, "status 'unknown' after a failure in iteration %r reports iterations = %r" % (it, res.get('iterations')))
        return 'unknown'
    if st == 'optimal':
        # a continuation (restore-and-retry, or the fault was absorbed): accepted only if genuinely optimal
        if kind == 'conelp':
            solve.check_optimal(O, inst, res, 'conelp', cfg)
        elif kind == 'coneqp':
            qpsolve.check_optimal(O, inst, res, cfg)
        else:
            nlsolve.check_optimal(O, inst, res, cfg, rec)
        return 'optimal-after-fault'
    if st in ('primal infeasible', 'dual infeasible') and kind == 'conelp':
        O.bad('infeasible-status-after-fault:' + site, 'status %r on a strictly feasible instance after an injected failure' % st)
        return st
    O.bad('status:undocumented:' + site, 'undocumented status %r' % (st,))
    return str(st)


def _interior(O, res, d, names, mnl, site):
    for nm in names:
        v = list(res[nm])
        # (an eigenvalue / margin is only computed to ~1e-16 |v|: converged iterates sit within that of the boundary)
        if R.cdim(d, mnl) and not -R.max_step(v, d, mnl) > -1e-12 * max(1.0, R.snrm2(v, d, mnl)):
            O.bad('unknown:%s-not-interior:%s' % (nm, site), "status 'unknown' but %s is not strictly inside the cone" % nm)


def _interior_nl(O, res, pb, site):
    d = pb['dims']
    s = list(res['snl']) + list(res['sl'])
    z = list(res['znl']) + list(res['zl'])
    mnl = len(res['snl'])
    for nm, v in (('s', s), ('z', z)):
        if (mnl + R.cdim(d)) and not -R.max_step(v, d, mnl) > -1e-12 * max(1.0, R.snrm2(v, d, mnl)):
            O.bad('unknown:%s-not-interior:%s' % (nm, site), "status 'unknown' but (%snl, %sl) is not strictly positive" % (nm, nm))


DF_K, DF_J = 16, 64


def run(case):
    b = case['base']
    tier = case.get('tier', 'quick')
    O = solve.Oracle(PROPERTY)
    outcomes = {}
    inst, cfg, runner = _setup(b)
    base = Fault()
    res0, rec0 = runner(base)
    n_ev = 1
    nontriv = 0
    if isinstance(res0, Exception):
        return {'n': 1, 'outcomes': {'fault-free:exc:' + type(res0).__name__: 1},
                'viol': [{'key': 'C10:harness:fault-free-run-raised', 'msg': repr(res0)}]}
    nf, ns = base.nf, base.ns
    outcomes['fault-free:' + str(res0.get('status'))] = 1
    plans = [((k,), ()) for k in range(nf)] + [((), (j,)) for j in range(ns)]
    # persistent failures: from call k on every factorisation (every solve) fails, so that the retry after cpl's
    # restore of the saved state fails as well and the solver has to report the restored iterates
    plans += [(tuple(range(k, k + 400)), ()) for k in range(nf)] + [((), tuple(range(j, j + 1600))) for j in range(ns)]
    if tier == 'thorough' and case['idx'] % 4 == 0:
        # double faults: every (factor k, solve j) and every pair of solves at distance <= 5, within the first
        # DF_K factorisations / DF_J solves (runs that use all 100 iterations make 100 x 400 calls)
        plans += [((k,), (j,)) for k in range(min(nf, DF_K)) for j in range(min(ns, DF_J))]
        plans += [((), (j, j2)) for j in range(min(ns, DF_J)) for j2 in range(j + 1, min(ns, j + 6))]
    for ff, fs in plans:
        flt = Fault(ff, fs)
        res, rec = runner(flt)
        n_ev += 1
        nv = len(O.viol)
        lab = _judge(O, b, inst, cfg, res, flt, rec, 'kkt')
        if getattr(flt, 'wviol', None):
            O.bad('W-invariants-broken-after-fault@%s' % (inst['entry'] if b['kind'] == 'nl' else b['kind']),
                  'after the injected failure %r the solver handed a scaling to the KKT solver that violates the documented invariants: %s'
                  % (flt.hit[:1], flt.wviol))
        if flt.hit:
            nontriv += 1
        outcomes[lab] = outcomes.get(lab, 0) + 1
        for v in O.viol[nv:]:
            v['sub'] = {'base': b, 'fail_factor': list(ff)[:3], 'fail_solve': list(fs)[:3], 'persistent': len(ff) + len(fs) > 2, 'hit': flt.hit[:2]}
        if len(O.viol) > 30:
            break
    if b['kind'] == 'nl':
        nk = getattr(base, 'kkt_calls', 0)
        rmax = 4 if tier == 'quick' else 6
        for i in range(nk):
            for r in range(1, rmax + 1):
                state = {'refused': [], 'armed': False, 'seen_kkt': 0}
                flt = Fault()

                x0key = tuple(inst['x0'])

                def refuse(rec, xl, state=state, flt=flt, i=i, r=r):
                    k = getattr(flt, 'kkt_calls', 0)
                    key = tuple(xl)
                    # points the solver already holds as iterates are in the domain: never refuse them
                    if key == x0key or any(c[0] == 'F2' and tuple(c[1]) == key for c in rec['calls']):
                        return False
                    if k != i + 1:
                        return key in state['refused']
                    if key in state['refused']:
                        return True
                    if len(state['refused']) < r and key not in state.get('accepted', ()):
                        state['refused'].append(key)
                        return True
                    state.setdefault('accepted', set()).add(key)
                    return False
                res, rec = runner(flt, refuse, none_style=(i + r) % 2)
                n_ev += 1
                nv = len(O.viol)
                if state['refused']:
                    nontriv += 1
                lab = _judge(O, b, inst, cfg, res, flt, rec, 'refusal')
                outcomes['refusal:' + lab] = outcomes.get('refusal:' + lab, 0) + 1
                for v in O.viol[nv:]:
                    v['sub'] = {'base': b, 'refuse_iteration': i, 'refuse_first': r}
                if len(O.viol) > 30:
                    break
    return {'n': n_ev, 'nontrivial': nontriv, 'outcomes': outcomes, 'viol': O.viol, 'maxerr': O.maxerr}


def crash_key(case):
    return case['base']['kind']
