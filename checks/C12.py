"""C12 - op.solve() solves the piecewise-linear problem that was written down.

Every problem of a small grammar of convex piecewise-linear programs over x (length 1), y (length 2), z (length 1)
is built with cvxopt.modeling, solved with format in {dense, sparse} x solver in {default, glpk}, and compared
with an exact reference: mc/ref/pwl.py evaluates the expressions in Fractions and forms the epigraph LP of the
problem independently; mc/ref/lpexact.py solves that LP (and the Lagrange dual function LPs) exactly.
"""
import itertools
from fractions import Fraction as Fr
from mc.ref import pwl, lpexact

PROPERTY = 'C12'
LEVEL = 'exploration'
ENGINE = 'bex'
FLAVOURS = ('plain',)
TECHNIQUE = 'bounded-exhaustive problem grammar, exact epigraph LP + exact box-restricted Lagrange dual function'
RULE = ('one case = (objective form, ordered tuple of 1-3 constraint forms); the inner loop runs over the full product '
        'of the data variants of the forms (2 per form quick, 3 thorough; VERIF_SEED rotates which variants of each '
        'form\'s fixed list are used) and, per problem, over format in {dense, sparse} x solver in {default, glpk}; '
        '15 objective forms (a negative multiple of a sum of componentwise minima, affine with constant, affine in x only, max of two affine, max(affine, affine, constant), '
        'abs, sum(abs(vector)), sum(max(vector, 0)), max over components, affine + max, 2*abs + affine, z + max, '
        'max(abs, sum(abs)), the nested sum(max(0, abs-1, 2*abs-3)) of modeling.rst) and 22 constraint forms (scalar '
        '<=, vector >= scalar, dense/sparse matrix coefficient, scalar/vector/matrix ==, abs <= c scalar, vector and '
        'with matrix coefficient, max(affine, affine) <= c, sum(abs(y)) <= c, abs + max <= c, max over components, '
        'componentwise max <= vector, constants-only 0*x + 1 <= c, number >= x, constraints on z, nested sum(max), scalar function <= vector); '
        'non-trivial = a solve that returned a status which was compared with the exact LP')
ASSUME = ['mc/ref/lpexact.py (exact two-phase simplex) and mc/ref/pwl.py (epigraph construction) are trusted; they are '
          'independent of cvxopt (plain Python, Fractions)',
          'default solver options (abstol 1e-7, reltol 1e-6, feastol 1e-7; tighter tolerances make the default solver '
          'stop with "singular KKT matrix"/unknown on well-posed degenerate-vertex LPs, which is not a C12 matter); '
          'comparisons: constraints 1e-6 (1+|v|), objective vs exact optimum 5e-6 (1+|p*|) (reltol of the solver is 1e-6), '
          'between configurations 1e-5, dual function 1e-5 (1+|p*|), '
          'evaluation of objective/constraint functions 1e-9',
          'status is demanded only when the exact LP satisfies the rank assumptions of solvers.lp and is strictly '
          'primal and dual feasible (-> optimal) / has a strict Farkas certificate (-> primal infeasible) / a strictly '
          'improving ray (-> dual infeasible); otherwise any documented status is accepted, but a claim must be true '
          '(optimal only if the exact LP has an optimum and everything below holds, primal infeasible only if it is '
          'infeasible, dual infeasible only if it has an improving ray); "unknown" is then accepted as well',
          'status "unknown" of the default solver on a well-posed problem is accepted under C05\'s escape clause when G has '
          'full column rank and the iterate left in the variables is feasible and optimal to 1e-5 (interior-point end game, '
          '"singular KKT matrix" one step before the tolerances are met); it is reported when the iterate is not '
          'near-optimal (so far only when Rank(G) < n = Rank([G;A]): known finding about kkt_chol2); GLPK must always give '
          'the demanded status',
          'modeling.rst says that after status "unknown" all values are None; this is checked (known finding: the default '
          'solver leaves its last iterates)',
          'rank-deficient problems (Rank(A) < p or Rank([G;A]) < n for the exact LP; e.g. a variable component that occurs '
          'nowhere with a nonzero coefficient): outcome incl. ValueError/ArithmeticError unspecified, claims still checked',
          'equality multipliers: for f1 == f2 modeling.rst defines the constraint function f1 - f2 and calls c.multiplier '
          'the Lagrange multiplier of the constraint; coneprog.rst fixes the LP dual as G\'z + A\'y + c = 0 for Ax = b; '
          'the Lagrangian f0 + nu\'(f1 - f2) is therefore used; a result that is a dual solution only after flipping '
          'the sign of all equality multipliers is reported under the separate key ...:equality-multiplier-sign',
          'problems without any inequality (affine objective, only equalities): solvers.lp has no form for them and '
          'op.solve refuses with TypeError("lp must have at least one inequality"); modeling.rst is silent, the refusal is '
          'accepted; any other exception there is reported',
          'with solver glpk modeling.rst promises no certificates: for infeasible/unbounded problems only status and the '
          'documented None values are checked; with the default solver the certificates are checked (multipliers: box '
          'infimum of sum lambda_i f_i + nu_j h_j is positive; variables: recession direction of the PWL problem)',
          'uniqueness of the optimum is decided exactly, but only when two configurations return points further apart '
          'than 1e-4 (otherwise nothing depends on it); multipliers are not compared between configurations (dual '
          'uniqueness is not decided), each is checked through the dual function instead',
          'a variable occurrence multiplied by the number 0 (0*x + 1 <= c) does not make x a variable of the problem']
BOUNDS = {'quick': '15 objective forms x (24 single constraint forms + 72 ordered pairs (second = first + 1, 4, 9 mod 24)) '
                   'and 4 objective forms x 24 ordered triples (i, i+2, i+7 mod 24); 2 data variants per form; '
                   '4 configurations per problem (9.4e3 problems, 3.8e4 solves)',
          'thorough': '15 objective forms x (24 singles + all 576 ordered pairs) with 3 data variants per form (pairs: '
                      '2 variants of the objective), 15 objective forms x 44 ordered triples ((i, i+2, i+7), (i, i+5, i+11) '
                      'mod 24) with 2 variants per form; 4 configurations per problem (1.25e5 problems, 5e5 solves)'}

TOLF = 1e-6      # feasibility (feastol 1e-7 relative to the data)
TOLV = 5e-6      # optimal value: the default solver stops at gap <= max(abstol 1e-7, reltol 1e-6 |p|) with residuals 1e-7,
                 # i.e. |value - p*| up to ~2e-6 (1+|p*|); observed maximum 9.3e-7
TOLD = 1e-5      # dual function
TOLE = 1e-9      # evaluation of functions
P0 = [0.75, -1.25, 2.5, -0.5]           # fixed probe point (dyadic)
CONFIGS = [('dense', 'default'), ('sparse', 'default'), ('dense', 'glpk'), ('sparse', 'glpk')]

X, Y, Z = ['v', 'x'], ['v', 'y'], ['v', 'z']
Y0, Y1 = ['i', 'y', 0], ['i', 'y', 1]
M1 = [[1, 1], [1, -1]]
M2 = [[2, 0], [-1, 1]]
M3 = [[1, 0], [1, 1]]


def C(a):
    return ['c', a]


def CM(a, b):
    return ['cm', [a, b]]


def _phi(u):
    """the function of modeling.rst:  max(0, |u| - 1, 2|u| - 3)  (componentwise)."""
    return ['max', C(0), ['-', ['abs', u], C(1)], ['-', ['*', 2, ['abs', u]], C(3)]]


# name -> (list of data variants, builder)
OBJ = [
    ('aff', [(1, 1, 1, 0), (-1, 2, 1, 1), (2, -1, -1, -1), (-1, -1, 2, 2)],
     lambda a, b0, b1, d: ['+', ['*', a, X], ['dot', [b0, b1], Y], C(d)]),
    ('affx', [(1, 0), (-1, 2), (2, -1)],
     lambda a, d: ['+', ['*', a, X], C(d)]),
    ('max2', [(1, 0), (-1, 1), (2, -1)],
     lambda a, d: ['max', ['+', ['*', a, X], C(d)], ['sum', Y]]),
    ('max3c', [(0,), (-1,), (1,)],
     lambda c: ['max', X, ['-', Y0, Y1], C(c)]),
    ('abs', [(1, 1, 0), (-1, 2, 1), (2, -1, -1)],
     lambda a, b, d: ['abs', ['+', ['*', a, X], ['dot', [1, b], Y], C(d)]]),
    ('sumabs', [(None, 1, 0), (M1, 0, 2), (M2, 1, -1)],
     lambda M, c0, c1: ['sum', ['abs', ['-', (Y if M is None else ['m*', M, Y]), CM(c0, c1)]]]),
    ('sumpos', [(1, 1, 0), (-1, 0, 2), (2, -1, 1)],
     lambda a, c0, c1: ['+', ['*', a, X], ['sum', ['max', ['-', Y, CM(c0, c1)], C(0)]]]),
    ('vmax', [(None, 1, 0), (M1, 0, -1), (M2, 2, 1)],
     lambda M, c0, c1: ['vmax', ['+', (Y if M is None else ['m*', M, Y]), CM(c0, c1)]]),
    ('affmax', [(1, 0), (-1, 1), (2, -1)],
     lambda a, d: ['+', ['*', a, X], ['max', Y0, Y1, C(0)], C(d)]),
    ('2abs', [(1, 1), (-1, -1), (2, 2)],
     lambda d, b: ['+', ['*', 2, ['abs', ['-', X, C(d)]]], ['*', b, ['sum', Y]]]),
    ('zmax', [(0,), (1,), (-1,)],
     lambda c: ['+', Z, ['max', X, C(c)]]),
    ('nest', [(0, 0), (1, -1), (2, 1)],
     lambda c0, c1: ['max', ['abs', X], ['sum', ['abs', ['-', Y, CM(c0, c1)]]]]),
    ('docphi', [(1,), (-1,), (2,)],
     lambda a: ['+', ['*', a, X], ['sum', _phi(Y)]]),
    # sum of a vector function that contains a scalar convex term broadcast over its components
    ('sumbc', [(1, 0, 1), (0, 2, -1), (-1, 1, 2)],
     lambda c0, c1, a: ['+', ['*', a, X], ['sum', ['+', ['*', 2, ['abs', ['-', Y, CM(c0, c1)]]], ['vmax', Y]]]]),
    ('nsmin', [(-2, 1, 0, 1), (-1, 0, 2, -1), (-3, -1, 1, 2)],
     lambda k, c0, c1, a: ['+', ['*', a, X], ['nsmin', k, Y, ['-', CM(c0, c1), Y]]]),
]
CON = [
    ('le', [(1, 1, 1, 2), (-1, 1, -1, 1), (2, -1, 1, 3)],
     lambda a, b0, b1, c: [['+', ['*', a, X], ['dot', [b0, b1], Y]], '<=', C(c)]),
    ('gev', [(0,), (-1,), (1,)],
     lambda c: [Y, '>=', C(c)]),
    ('lev', [(M1, 2), (M2, 1), (M3, 3)],
     lambda M, c: [['m*', M, Y], '<=', C(c)]),
    ('slev', [([[1, 0], [0, 2]], 2, 2), ([[0, 1], [1, 0]], 1, 3), ([[1, 1], [0, 1]], 3, 1)],
     lambda M, c0, c1: [['sm*', M, Y], '<=', CM(c0, c1)]),
    ('eq', [(1,), (0,), (2,)],
     lambda c: [['+', X, ['sum', Y]], '==', C(c)]),
    ('eqv', [(1, 0), (0, 2), (-1, 1)],
     lambda c0, c1: [['-', Y, X], '==', CM(c0, c1)]),
    ('eqm', [(M1, 2, 0), (M2, 1, 1), (M3, 0, 3)],
     lambda M, c0, c1: [['m*', M, Y], '==', CM(c0, c1)]),
    ('absx', [(0, 1), (1, 2), (-1, 3)],
     lambda a, c: [['abs', ['-', X, C(a)]], '<=', C(c)]),
    ('absv', [(0, 0, 1), (1, -1, 2), (0, 2, 3)],
     lambda c0, c1, c: [['abs', ['-', Y, CM(c0, c1)]], '<=', C(c)]),
    ('absm', [(M1, 2), (M2, 1), (M3, 3)],
     lambda M, c: [['abs', ['+', ['m*', M, Y], X]], '<=', C(c)]),
    ('max2', [(1, 0, 1), (-1, 1, 2), (2, -1, 3)],
     lambda a, d, c: [['max', ['+', ['*', a, X], C(d)], ['sum', Y]], '<=', C(c)]),
    ('sumabs', [(1,), (2,), (3,)],
     lambda c: [['sum', ['abs', Y]], '<=', C(c)]),
    ('nest', [(1, 1), (2, 2), (1, 3)],
     lambda s, c: [['+', ['*', s, ['abs', X]], ['max', Y0, Y1]], '<=', C(c)]),
    ('const', [(2,), (0,), (1,)],
     lambda c: [['+', ['*', 0, X], C(1)], '<=', C(c)]),
    ('zeq', [(1,), (-1,), (0,)],
     lambda c: [Z, '==', C(c)]),
    ('zle', [(1,), (0,), (2,)],
     lambda c: [['-', Y0, Z], '<=', C(c)]),
    ('zabs', [(0,), (1,), (-1,)],
     lambda a: [['abs', ['-', X, C(a)]], '<=', Z]),
    ('ger', [(1,), (2,), (0,)],
     lambda c: [C(c), '>=', X]),
    ('vmaxc', [(0, 0, 1), (1, -1, 2), (-1, 0, 0)],
     lambda c0, c1, c: [['vmax', ['+', Y, CM(c0, c1)]], '<=', C(c)]),
    ('maxv', [(1, 2), (2, 0), (3, 1)],
     lambda c0, c1: [['max', Y, X], '<=', CM(c0, c1)]),
    ('docphi', [(1,), (2,), (3,)],
     lambda c: [['sum', _phi(Y)], '<=', C(c)]),
    ('bsum', [(1, 2, 1), (-1, 1, 3), (2, 3, 2)],
     lambda a, c0, c1: [['+', ['sum', Y], ['*', a, X]], '<=', CM(c0, c1)]),
    # a scalar affine function of the vector variable times a constant column (an outer-product coefficient)
    ('dotcol', [(1, 2, 1, -1, 3, 2), (2, -1, 2, 1, 4, 1), (-1, 1, 1, 2, 2, 5)],
     lambda a, b, c0, c1, h0, h1: [['*c', ['+', ['dot', [a, b], Y], X], [c0, c1]], '<=', CM(h0, h1)]),
    # vector affine part + the maximum over the components of a vector function (a single-argument max): written by
    # the modeling layer as "vector + f0[k] <= 0 for all k"
    ('vmaxv', [(M1, 3, 2), (M2, 1, 4), (M3, 2, 2)],
     lambda M, c0, c1: [['+', Y, ['vmax', ['m*', M, Y]]], '<=', CM(c0, c1)]),
    # a scalar constraint whose linear pieces have different lengths (x: 1 row, y: 2 rows)
    ('maxs', [(1,), (2,), (0,)],
     lambda c: [['max', X, ['vmax', Y]], '<=', C(c)]),
]
OBJD = dict((n, (v, f)) for n, v, f in OBJ)
COND = dict((n, (v, f)) for n, v, f in CON)
ONAMES = [n for n, _, _ in OBJ]
CNAMES = [n for n, _, _ in CON]
TRIPLE_OBJ = ('aff', 'abs', 'affmax', 'nest')


def cases(tier, seed, flavour):
    N = len(CNAMES)
    if tier == 'thorough':
        k1, ko2, k2, k3 = 3, 2, 3, 2
        pairs = [(i, j) for i in range(N) for j in range(N)]
        triples = [(i, (i + 2) % N, (i + 7) % N) for i in range(N)] + [(i, (i + 5) % N, (i + 11) % N) for i in range(N)]
        tobj = ONAMES
    else:
        k1, ko2, k2, k3 = 2, 2, 2, 2
        pairs = [(i, (i + s) % N) for s in (1, 4, 9) for i in range(N)]
        triples = [(i, (i + 2) % N, (i + 7) % N) for i in range(N)]
        tobj = TRIPLE_OBJ
    for i in range(N):
        for o in ONAMES:
            yield {'obj': o, 'cons': [CNAMES[i]], 'ko': k1, 'kc': k1, 'rot': seed}
    for (i, j) in pairs:
        for o in ONAMES:
            yield {'obj': o, 'cons': [CNAMES[i], CNAMES[j]], 'ko': ko2, 'kc': k2, 'rot': seed}
    for t in triples:
        for o in tobj:
            yield {'obj': o, 'cons': [CNAMES[i] for i in t], 'ko': k3, 'kc': k3, 'rot': seed}
    for c in _cases_opsolve_hist(tier, seed):
        yield c


def _run_opsolve_hist(case):
    """solve / edit / solve histories of one op whose status changes on the way (checks/opsolve_hist.py)"""
    from mc import cvx
    from checks import opsolve_hist as H
    ns, nh, viol, outcomes = H.run(PROPERTY, case['depth'], case['variant'], case['fmt'], case['solver'])
    return {'n': ns, 'nontrivial': ns - nh, 'viol': viol, 'outcomes': {'opsolve-history:' + k: v for k, v in outcomes.items()},
            'states': ns, 'transitions': ns, 'traces': nh}


def _cases_opsolve_hist(tier, seed):
    for variant in ((seed % 4, (seed + 1) % 4) if tier == 'quick' else (0, 1, 2, 3)):
        for fmt in ('dense', 'sparse'):
            for solver in ('default', 'glpk'):
                yield {'part': 'opsolve-hist', 'variant': variant, 'fmt': fmt, 'solver': solver, 'depth': 5 if tier == 'quick' else 6}


def crash_key(case):
    if case.get('part') == 'opsolve-hist':
        return 'opsolve-hist'
    return 'solve:%s:%s' % (case.get('obj'), '+'.join(case.get('cons', [])))


def _variants(tab, name, k, rot):
    vs, f = tab[name]
    return [f(*vs[(rot + i) % len(vs)]) for i in range(min(k, len(vs)))]


def problems(case):
    ov = _variants(OBJD, case['obj'], case['ko'], case['rot'])
    cv = [_variants(COND, c, case['kc'], case['rot']) for c in case['cons']]
    for o in ov:
        for cs in itertools.product(*cv):
            yield {'obj': o, 'cons': list(cs)}


# ------------------------------------------------------------------ cvxopt side
def _build(e, V):
    from cvxopt import matrix, spmatrix
    from cvxopt.modeling import max as mmax, sum as msum, dot
    t = e[0]
    if t == 'v':
        return V[e[1]]
    if t == 'i':
        return V[e[1]][e[2]]
    if t == 'c':
        return e[1]
    if t == 'cm':
        return matrix([float(v) for v in e[1]])
    if t == '*':
        return e[1] * _build(e[2], V)
    if t == 'm*':
        r = e[1]
        return matrix([float(r[i][j]) for j in range(len(r[0])) for i in range(len(r))], (len(r), len(r[0]))) * _build(e[2], V)
    if t == 'sm*':
        r = e[1]
        ent = [(float(r[i][j]), i, j) for j in range(len(r[0])) for i in range(len(r)) if r[i][j] != 0]
        return spmatrix([a for a, _, _ in ent], [i for _, i, _ in ent], [j for _, _, j in ent], (len(r), len(r[0]))) * _build(e[2], V)
    if t == 'dot':
        return dot(matrix([float(v) for v in e[1]]), _build(e[2], V))
    if t == 'sum':
        return msum(_build(e[1], V))
    if t == 'neg':
        return -_build(e[1], V)
    if t == 'abs':
        return abs(_build(e[1], V))
    if t == 'vmax':
        return mmax(_build(e[1], V))
    if t == '*c':
        return _build(e[1], V) * matrix([float(v) for v in e[2]])       # scalar affine function times a constant column
    if t == 'nsmin':
        from cvxopt.modeling import min as mmin
        return e[1] * msum(mmin(_build(e[2], V), _build(e[3], V)))      # negative multiple of a sum of minima
    parts = [_build(a, V) for a in e[1:]]
    if t == '+':
        acc = parts[0]
        for p in parts[1:]:
            acc = acc + p
        return acc
    if t == '-':
        return parts[0] - parts[1]
    if t == 'max':
        return mmax(*parts)
    raise ValueError(t)


def _derive_and_discard(g, V):
    """build a function from g and scale it in place, as a user would who reuses g elsewhere (f = z + g; f *= 0.5);
    g itself, used afterwards in the problem, must not be affected (functions own their coefficient matrices)."""
    try:
        f = V['z'] + g
        f *= 0.5
        f = g - V['z']
        f *= -2.0
    except Exception:
        pass


def _inplace_identity(g):
    """three documented in-place scalings whose product is 1 (exact in binary floating point): a convex function becomes
    concave, convex again with factor 2, and itself again - the function that enters the problem is the one written down"""
    if hasattr(g, 'variables') and not hasattr(g, 'name'):
        g *= -1
        g *= -2.0
        g /= 2
    return g


def _mkcon(con, V, inplace=False):
    a, b = _build(con[0], V), _build(con[2], V)
    for g in (a, b):
        if hasattr(g, 'variables'):
            _derive_and_discard(g, V)
    if inplace:
        a, b = _inplace_identity(a), _inplace_identity(b)
    if con[1] == '<=':
        return a <= b
    if con[1] == '>=':
        return a >= b
    return a == b


def _lst(m):
    if m is None:
        return None
    return {'v': [float(t) for t in m], 'size': list(m.size), 'tc': m.typecode}


def _probe(V, obj, cons):
    from cvxopt import matrix
    V['x'].value = matrix([P0[0]])
    V['y'].value = matrix([P0[1], P0[2]])
    V['z'].value = matrix([P0[3]])
    out = [_lst(obj.value())] + [_lst(c.value()) for c in cons]
    V['x'].value = None
    V['y'].value = None
    V['z'].value = None
    return out


def observe(prob, fmt, solver):
    """build the problem from scratch, solve it in one configuration, return plain-Python observations."""
    from cvxopt.modeling import variable, op
    V = {'x': variable(1, 'x'), 'y': variable(2, 'y'), 'z': variable(1, 'z')}
    # with the GLPK back-end the functions are additionally passed through in-place scalings that multiply to 1
    obj = _build(prob['obj'], V)
    if solver != 'default':
        obj = _inplace_identity(obj)
    cons = [_mkcon(c, V, inplace=(solver != 'default')) for c in prob['cons']]
    ob = {'pre': _probe(V, obj, cons), 'clen': [len(c) for c in cons], 'ctype': [c.type() for c in cons]}
    p = op(obj, cons)
    if fmt == 'sparse':
        # the op that is solved was edited on the way (a throw-away equality and inequality on a variable of their own,
        # added and deleted again): the problem written down is the same, so is everything observed below
        w = variable(1, 'w')
        e1, i1 = (w == 1), (w <= 5)
        p.addconstraint(e1); p.addconstraint(i1)
        p.delconstraint(e1); p.delconstraint(i1)
    ob['exc'] = None
    # the accuracy fields of the underlying solvers.lp call (public API) are recorded: after status 'unknown' the
    # values are None as documented, and the escape clause of C05 is decided from the solver's own residuals
    from cvxopt import solvers as _solvers
    _orig = _solvers.lp
    cap = {}

    def _lp(*a, **k):
        r = _orig(*a, **k)
        cap['sol'] = dict((kk, r.get(kk)) for kk in ('status', 'primal infeasibility', 'dual infeasibility', 'gap', 'relative gap'))
        return r
    _solvers.lp = _lp
    try:
        if solver == 'default':
            p.solve(fmt)
        else:
            p.solve(fmt, solver)
    except Exception as ex:
        ob['exc'] = [type(ex).__name__, str(ex)[:200]]
        return ob
    finally:
        _solvers.lp = _orig
    ob['sol'] = cap.get('sol')
    ob['status'] = p.status
    ob['vals'] = dict((n, _lst(V[n].value)) for n in ('x', 'y', 'z'))
    ob['mult'] = [_lst(c.multiplier.value) for c in cons]
    ob['objval'] = ob['cval'] = None
    if p.status == 'optimal' and all(V[n].value is not None for n in ('x', 'y', 'z') if V[n] in p.variables()):
        # (evaluation with unset variables is a C11 matter)
        ob['objval'] = _lst(p.objective.value())
        ob['cval'] = [_lst(c.value()) for c in cons]
    ob['post'] = _probe(V, p.objective, cons)
    return ob


# ------------------------------------------------------------------ reference side
class Ref(object):
    """exact facts about one problem, computed on demand."""

    def __init__(self, prob):
        self.prob = prob
        self.lp = pwl.epigraph_lp(prob)
        L = self.lp
        self.names = L['names']
        self.n = len(L['c'])
        self.rank_ok = ((lpexact.rank(L['A']) == len(L['A'])) if L['A'] else True) and \
                       (lpexact.rank(L['G'] + L['A']) == self.n if (L['G'] or L['A']) else self.n == 0)
        r = lpexact.solve(L['c'], L['G'], L['h'], L['A'], L['b'])
        self.status = r['status']
        self.value = None if r['value'] is None else r['value'] + L['d']
        self.x = r['x']
        # rank(G) < n although rank([G; A]) = n: allowed by solvers.lp, but the default KKT solver (kkt_chol2) starts
        # from a Cholesky factorization of G'G
        self.g_rank_def = self.rank_ok and (lpexact.rank(L['G']) if L['G'] else 0) < self.n
        self._cls = None
        self._ray = None
        self._unique = None
        self.memo = {}
        self.pre = [pwl.ev(prob['obj'], P0)] + [pwl.ev(pwl.cfun(c), P0) for c in prob['cons']]
        self.clen = [pwl.length(pwl.cfun(c)) for c in prob['cons']]
        self.ctype = [pwl.ctype(c) for c in prob['cons']]
        self.n_ineq = sum(1 for t in self.ctype if t == '<')
        self.obj_affine = pwl.is_affine(prob['obj'])

    def cls(self):
        if self._cls is None:
            L = self.lp
            self._cls = lpexact.classify(L['c'], L['G'], L['h'], L['A'], L['b'])
        return self._cls

    def has_ray(self):
        """an improving direction of the exact LP exists (c'u < 0, G u <= 0, A u = 0)."""
        if self._ray is None:
            L = self.lp
            self._ray = lpexact.solve(L['c'], L['G'], [0] * len(L['G']), L['A'], [0] * len(L['A']))['status'] == 'unbounded'
        return self._ray

    def unique(self):
        """the optimal point (original variables) of the exact LP is unique."""
        if self._unique is None:
            L = self.lp
            G = L['G'] + [L['c']]
            h = L['h'] + [self.value - L['d']]
            uniq = True
            for n in self.names:
                for j in pwl.COLS[n]:
                    col = L['colmap'][j]
                    for s in (1, -1):
                        e = [0] * self.n
                        e[col] = s
                        r = lpexact.solve(e, G, h, L['A'], L['b'])
                        if r['status'] != 'optimal' or s * r['value'] != self.x[col]:
                            uniq = False
                            break
                    if not uniq:
                        break
                if not uniq:
                    break
            self._unique = uniq
        return self._unique

    def shape(self):
        """shape class of the problem for exception keys."""
        prob = self.prob
        consts = [i for i, c in enumerate(prob['cons']) if not (pwl.occurs(c[0]) | pwl.occurs(c[2]))]
        if self.obj_affine and self.n_ineq == 0:
            return 'no-inequality'
        if self.obj_affine and len(self.names) == 1 and len(pwl.COLS[self.names[0]]) >= 1 and self.n_ineq == 1 and \
                len(prob['cons']) - self.n_ineq <= 1 and \
                [i for i in consts if self.ctype[i] == '<'] and all(pwl.is_affine(pwl.cfun(c)) for c in prob['cons']):
            return 'one-variable-lp-whose-only-inequality-is-constant'
        return 'general'


def _rel(a, b):
    return abs(a - b) / (1.0 + abs(b))


def _shape_ok(m, n):
    return m is not None and m['size'] == [n, 1] and m['tc'] == 'd'


def _grid(t):
    """the float t moved to the nearest multiple of 2**-32 (exact Fraction).  Keeps the exact LPs small; the dual
    function moves by at most 2**-33 * sum_i sup_box |f_i| (< 1e-7 here), far inside the 1e-5 tolerance."""
    return Fr(int(round(t * 4294967296.0)), 4294967296)


def dual_value(R, lam, centre, radius, with_objective=True):
    key = (tuple(tuple(l) for l in lam), tuple(centre), radius, with_objective)
    if key not in R.memo:        # dense/sparse (and the two GLPK runs) usually return the same multipliers
        L = pwl.lagrangian_lp(R.prob, lam, centre, radius, with_objective)
        r = lpexact.solve(L['c'], L['G'], L['h'], L['A'], L['b'])
        R.memo[key] = None if r['status'] != 'optimal' else r['value'] + L['d']
    return R.memo[key]


def judge(R, ob, cfg, st):
    """violations of one observation against the exact reference (everything except cross-configuration checks)."""
    viol = []
    tag = '%s-%s' % cfg
    prob = R.prob

    def V(key, msg):
        viol.append({'key': 'C12:%s:%s' % (key, tag), 'msg': msg,
                     'sub': {'problem': prob, 'format': cfg[0], 'solver': cfg[1]}})

    def out(label):
        st['outcomes'][label] = st['outcomes'].get(label, 0) + 1

    # --- the expressions mean what the reference thinks (precondition of everything else)
    for k, (g, w) in enumerate(zip(ob['pre'], R.pre)):
        what = 'objective' if k == 0 else 'constraint'
        if g is None or len(g['v']) != len(w) or any(abs(a - float(b)) > TOLE * (1 + abs(float(b))) for a, b in zip(g['v'], w)):
            V('build:%s-value-before-solve' % what, '%s function evaluates to %r at %r before solve, reference %r'
              % (what, g, P0, [float(t) for t in w]))
            return viol
    if ob['clen'] != R.clen or ob['ctype'] != R.ctype:
        V('build:constraint-length-or-type', 'len/type of constraints %r %r, reference %r %r' % (ob['clen'], ob['ctype'], R.clen, R.ctype))
        return viol

    # --- exceptions
    if ob['exc'] is not None:
        et, em = ob['exc']
        shape = R.shape()
        if shape == 'no-inequality' and et == 'TypeError' and 'at least one inequality' in em:
            out('refused:no-inequality(TypeError)')
            return viol
        if not R.rank_ok and (et in ('ValueError', 'ArithmeticError', 'ZeroDivisionError') and shape == 'general' or
                              et == 'ValueError' and 'Rank' in em):
            out('rank-deficient:' + et)
            return viol
        out('exception:' + et)
        if shape == 'general' and et == 'ValueError' and R.g_rank_def and cfg[1] == 'default':
            shape = 'G-column-rank-deficient'
        V('solve:exception:%s:%s' % (et, shape), 'solve() raised %s: %s (exact LP: %s, rank assumptions %s)'
          % (et, em, R.status, 'hold' if R.rank_ok else 'violated'))
        return viol

    status = ob['status']
    st['nontrivial'] += 1
    out('%s:%s%s' % (cfg[1], status, '' if R.rank_ok else ' (rank-deficient)'))
    for k, (g, w) in enumerate(zip(ob['post'], ob['pre'])):
        if g != w:
            V('solve:formula-changed:%s' % ('objective' if k == 0 else 'constraint'),
              'after solve the %s evaluates to %r at %r, before solve %r' % ('objective' if k == 0 else 'constraint %d' % (k - 1), g, P0, w))
            return viol
    if status not in ('optimal', 'primal infeasible', 'dual infeasible', 'unknown'):
        V('status:undocumented', 'status %r' % (status,))
        return viol

    # --- is the status allowed / true
    natural = {'optimal': 'optimal', 'infeasible': 'primal infeasible', 'unbounded': 'dual infeasible'}[R.status]
    if status != natural:
        demanded = None
        if R.rank_ok:
            c = R.cls()
            if R.status == 'optimal' and c['strict_primal'] and c['strict_dual']:
                demanded = 'optimal'
            elif R.status == 'infeasible' and c['strict_pinf_cert']:
                demanded = 'primal infeasible'
            elif R.status == 'unbounded' and c['strict_dinf_ray']:
                demanded = 'dual infeasible'
        if demanded == 'optimal' and status == 'unknown' and cfg[1] == 'default' and not R.g_rank_def and _near_optimal(R, ob):
            # C05's escape clause: the interior-point method stopped ("singular KKT matrix") at an iterate that is
            # optimal to 1e-5; 'unknown' is then a documented, truthful answer
            out('well-posed:unknown-at-a-1e-5-optimal-iterate-accepted')
            demanded = None
        if demanded is not None:
            V('status:well-posed:%sexpected-%s:got-%s' % ('G-column-rank-deficient:' if R.g_rank_def and cfg[1] == 'default' else '',
                                                         demanded.replace(' ', '-'), status.replace(' ', '-')),
              'status %r; the exact LP is %s, satisfies the rank assumptions and is strictly feasible / strictly certified, '
              'so %r is the only correct status' % (status, R.status, demanded))
            return viol
        if status == 'optimal':
            V('status:claims-optimal:exact-lp-%s' % R.status, 'status optimal but the exact LP is %s' % R.status)
            return viol
        if status == 'primal infeasible' and R.status != 'infeasible':
            V('status:claims-primal-infeasible:exact-lp-%s' % R.status, 'status primal infeasible but the exact LP is %s (point %r)'
              % (R.status, None if R.x is None else [float(t) for t in R.x]))
            return viol
        if status == 'dual infeasible' and not (R.status == 'unbounded' or (R.status == 'infeasible' and R.has_ray())):
            V('status:claims-dual-infeasible:exact-lp-%s' % R.status, 'status dual infeasible but the exact LP is %s and has no '
              'improving direction' % R.status)
            return viol
        out('degenerate-accepted:%s-for-%s' % (status, R.status))

    occ = R.names
    vals, mult = ob['vals'], ob['mult']
    ncon = len(prob['cons'])

    if status == 'unknown':
        if any(vals[n] is not None for n in occ) or any(m is not None for m in mult):
            V('unknown:values-not-None', 'status unknown but values %r multipliers %r (documented: None)' % (vals, mult))
        return viol

    if status == 'primal infeasible':
        if any(vals[n] is not None for n in occ):
            V('primal-infeasible:variable-values-not-None', 'status primal infeasible but variable values %r (documented: None)' % (vals,))
            return viol
        if cfg[1] == 'default':
            for i in range(ncon):
                if not _shape_ok(mult[i], R.clen[i]):
                    V('primal-infeasible:certificate-shape', 'multiplier of constraint %d is %r, expected a %d x 1 matrix (certificate)'
                      % (i, mult[i], R.clen[i]))
                    return viol
            big = max([1.0] + [abs(t) for m in mult for t in m['v']])
            for i in range(ncon):
                if R.ctype[i] == '<' and min(mult[i]['v']) < -1e-7 * big:
                    V('primal-infeasible:certificate-negative', 'multiplier of inequality %d is %r' % (i, mult[i]['v']))
                    return viol
            lam = [[max(_grid(t), Fr(0)) if R.ctype[i] == '<' else _grid(t) for t in mult[i]['v']] for i in range(ncon)]
            g = dual_value(R, lam, [0, 0, 0, 0], Fr(10), with_objective=False)
            if g is None or float(g) < 1e-4 * big:
                V('primal-infeasible:not-a-certificate', 'multipliers %r: inf over |v|<=10 of sum_i lambda_i f_i(v) = %r is not positive, so '
                  'they do not prove infeasibility' % ([m['v'] for m in mult], None if g is None else float(g)))
        return viol

    if status == 'dual infeasible':
        if any(m is not None for m in mult):
            V('dual-infeasible:multipliers-not-None', 'status dual infeasible but multipliers %r (documented: None)' % (mult,))
            return viol
        if cfg[1] == 'default':
            for n in occ:
                if not _shape_ok(vals[n], len(pwl.COLS[n])):
                    V('dual-infeasible:certificate-shape', 'value of %s is %r, expected a %d x 1 matrix (certificate)' % (n, vals[n], len(pwl.COLS[n])))
                    return viol
            pt = _point(vals, occ)
            nrm = 1.0 + max(abs(float(t)) for t in pt)
            o = float(pwl.ev(prob['obj'], pt, homog=True)[0])
            bad = o >= -TOLF * nrm
            for con, ty in zip(prob['cons'], R.ctype):
                fv = [float(t) for t in pwl.ev(pwl.cfun(con), pt, homog=True)]
                if (ty == '<' and max(fv) > TOLF * nrm) or (ty == '=' and max(abs(t) for t in fv) > TOLF * nrm):
                    bad = True
            if bad:
                V('dual-infeasible:not-a-certificate', 'variable values %r are not a direction along which the objective decreases '
                  'and the constraints stay satisfied (recession objective %r)' % (vals, o))
        return viol

    # --- optimal (and the exact LP has an optimum)
    pstar = R.value
    pf = float(pstar)
    for n in occ:
        if not _shape_ok(vals[n], len(pwl.COLS[n])):
            V('optimal:variable-value-missing-or-misshaped', 'value of %s is %r after an optimal solve' % (n, vals[n]))
            return viol
    pt = _point(vals, occ)
    nrm = 1.0 + max(abs(float(t)) for t in pt)
    # feasibility of every original constraint, and constraint.value()
    for i, con in enumerate(prob['cons']):
        fv = [float(t) for t in pwl.ev(pwl.cfun(con), pt)]
        worst = max(fv) if R.ctype[i] == '<' else max(abs(t) for t in fv)
        st['maxerr']['constraint violation'] = max(st['maxerr'].get('constraint violation', 0.0), worst / nrm)
        if worst > TOLF * nrm:
            V('optimal:constraint-violated:%s' % ('inequality' if R.ctype[i] == '<' else 'equality'),
              'constraint %d (%s) has value %r at the returned point %r' % (i, R.ctype[i], fv, [float(t) for t in pt]))
            return viol
        cv = ob['cval'][i] if ob['cval'] is not None else None
        if cv is None or len(cv['v']) != len(fv) or any(abs(a - b) > TOLE * (1 + abs(b)) for a, b in zip(cv['v'], fv)):
            V('optimal:constraint-value', 'constraint %d .value() = %r, reference at the returned point %r' % (i, cv, fv))
            return viol
    # objective value: = objective at the returned point = exact optimum
    fo = float(pwl.ev(prob['obj'], pt)[0])
    ov = ob['objval']
    if ov is None or len(ov['v']) != 1:
        V('optimal:objective-value-missing', 'objective.value() = %r' % (ov,))
        return viol
    if abs(ov['v'][0] - fo) > TOLE * (1 + abs(fo)):
        V('optimal:objective-value-vs-point', 'objective.value() = %r but the objective at the returned point %r is %r'
          % (ov['v'][0], [float(t) for t in pt], fo))
        return viol
    e = _rel(ov['v'][0], pf)
    st['maxerr']['objective vs exact'] = max(st['maxerr'].get('objective vs exact', 0.0), e)
    if e > TOLV:
        V('optimal:objective-value-vs-exact', 'objective.value() = %r, exact optimal value %r (point %r)' % (ov['v'][0], pf, [float(t) for t in pt]))
        return viol
    # multipliers
    for i in range(ncon):
        if not _shape_ok(mult[i], R.clen[i]):
            V('optimal:multiplier-shape', 'multiplier of constraint %d is %r, expected a %d x 1 matrix' % (i, mult[i], R.clen[i]))
            return viol
        if R.ctype[i] == '<' and min(mult[i]['v']) < -1e-7:
            V('optimal:multiplier-negative', 'multiplier of inequality %d is %r' % (i, mult[i]['v']))
            return viol
    lam = [[max(_grid(t), Fr(0)) if R.ctype[i] == '<' else _grid(t) for t in mult[i]['v']] for i in range(ncon)]
    centre = [Fr(round(t)) for t in pt]          # any box is sound; this one contains |v - v*| <= 1/2 + |v*|
    radius = Fr(2 + int(max(abs(t) for t in pt)))
    g = dual_value(R, lam, centre, radius)
    gap = float('inf') if g is None else float(pstar - g) / (1.0 + abs(pf))
    if gap <= TOLD:
        st['maxerr']['dual function gap'] = max(st['maxerr'].get('dual function gap', 0.0), gap)
    else:
        flipped = [[-t for t in l] if R.ctype[i] == '=' else l for i, l in enumerate(lam)]
        g2 = dual_value(R, flipped, centre, radius) if '=' in R.ctype else None
        if g2 is not None and float(pstar - g2) / (1.0 + abs(pf)) <= TOLD:
            V('optimal:equality-multiplier-sign', 'multipliers %r form a dual solution only after flipping the sign of the equality '
              'multipliers (dual function %r, flipped %r, optimum %r)' % ([m['v'] for m in mult], None if g is None else float(g), float(g2), pf))
        else:
            V('optimal:multipliers-not-dual-optimal', 'multipliers %r: Lagrange dual function (inf over |v - v*| <= %s) = %r, exact '
              'optimum %r: not a dual solution of the problem as written' % ([m['v'] for m in mult], float(radius), None if g is None else float(g), pf))
    return viol


def _near_optimal(R, ob):
    """the iterate at which an 'unknown' solve stopped is feasible and optimal to 1e-5: decided from the values left
    behind if there are any, otherwise (values None, as documented) from the accuracy fields of the solvers.lp call."""
    if all(ob['vals'][n] is None for n in R.names):
        sol = ob.get('sol') or {}
        try:
            return sol['primal infeasibility'] <= 1e-5 and sol['dual infeasibility'] <= 1e-5 and \
                (sol['gap'] <= 1e-5 or (sol['relative gap'] is not None and sol['relative gap'] <= 1e-5))
        except Exception:
            return False
    if any(not _shape_ok(ob['vals'][n], len(pwl.COLS[n])) for n in R.names):
        return False
    pt = _point(ob['vals'], R.names)
    nrm = 1.0 + max(abs(float(t)) for t in pt)
    for con, ty in zip(R.prob['cons'], R.ctype):
        fv = [float(t) for t in pwl.ev(pwl.cfun(con), pt)]
        if (max(fv) if ty == '<' else max(abs(t) for t in fv)) > 1e-5 * nrm:
            return False
    return _rel(float(pwl.ev(R.prob['obj'], pt)[0]), float(R.value)) <= 1e-5


def _point(vals, occ):
    pt = [Fr(0)] * pwl.NV
    for n in occ:
        for j, t in zip(pwl.COLS[n], vals[n]['v']):
            pt[j] = Fr(t)
    return pt


def cross(R, obs, st):
    """agreement of the four configurations."""
    viol = []
    done = [(cfg, ob) for cfg, ob in obs if ob['exc'] is None]
    claims = sorted(set(ob['status'] for _, ob in done if ob['status'] != 'unknown'))
    if len(claims) > 1 and not (claims == ['dual infeasible', 'primal infeasible'] and R.status == 'infeasible' and R.has_ray()):
        viol.append({'key': 'C12:agreement:status', 'msg': 'configurations disagree on the status: %r'
                     % ([('%s-%s' % cfg, ob['status']) for cfg, ob in done],), 'sub': {'problem': R.prob}})
        return viol
    excs = sorted(set(ob['exc'][0] for _, ob in obs if ob['exc'] is not None))
    if excs and done and R.rank_ok:
        viol.append({'key': 'C12:agreement:exception-in-some-configurations:' + '+'.join(excs),
                     'msg': 'solve() raised in some configurations only: %r'
                     % ([('%s-%s' % cfg, ob['exc'] or ob['status']) for cfg, ob in obs],), 'sub': {'problem': R.prob}})
        return viol
    opt = [(cfg, ob) for cfg, ob in done if ob['status'] == 'optimal' and ob['objval'] is not None and
           all(_shape_ok(ob['vals'][n], len(pwl.COLS[n])) for n in R.names)]
    for a in range(len(opt)):
        for b in range(a + 1, len(opt)):
            (ca, oa), (cb, ob_) = opt[a], opt[b]
            va, vb = oa['objval']['v'][0], ob_['objval']['v'][0]
            if _rel(va, vb) > 2 * TOLV:
                viol.append({'key': 'C12:agreement:objective-value', 'msg': '%s-%s gives %r, %s-%s gives %r'
                             % (ca[0], ca[1], va, cb[0], cb[1], vb), 'sub': {'problem': R.prob}})
                return viol
            d = max(abs(s - t) for n in R.names for s, t in zip(oa['vals'][n]['v'], ob_['vals'][n]['v']))
            if d > 1e-4 and R.status == 'optimal' and R.rank_ok and R.unique():
                viol.append({'key': 'C12:agreement:solution', 'msg': 'the optimum is unique but %s-%s returns %r and %s-%s returns %r'
                             % (ca[0], ca[1], oa['vals'], cb[0], cb[1], ob_['vals']), 'sub': {'problem': R.prob}})
                return viol
    return viol


def run(case):
    from mc import cvx
    from cvxopt import solvers
    if case.get('part') == 'opsolve-hist':
        solvers.options.clear()
        return _run_opsolve_hist(case)
    solvers.options['show_progress'] = False
    for k in ('abstol', 'reltol', 'feastol', 'maxiters', 'refinement'):
        solvers.options.pop(k, None)        # default solver options (abstol 1e-7, reltol 1e-6, feastol 1e-7)
    solvers.options['glpk'] = {'msg_lev': 'GLP_MSG_OFF'}
    st = {'outcomes': {}, 'maxerr': {}, 'nontrivial': 0}
    viol, seen = [], set()
    nprob = nev = 0
    for prob in problems(case):
        nprob += 1
        R = Ref(prob)
        lab = 'exact:%s%s' % (R.status, '' if R.rank_ok else ' (rank-deficient)')
        st['outcomes'][lab] = st['outcomes'].get(lab, 0) + 1
        obs = []
        new = []
        for cfg in CONFIGS:
            nev += 1
            try:
                ob = observe(prob, cfg[0], cfg[1])
            except Exception as ex:      # building, probing or reading results failed (solve() itself is caught in observe)
                import traceback
                new.append({'key': 'C12:build-or-readback:exception:%s:%s-%s' % (type(ex).__name__, cfg[0], cfg[1]),
                            'msg': traceback.format_exc()[-1200:], 'sub': {'problem': prob, 'format': cfg[0], 'solver': cfg[1]}})
                continue
            obs.append((cfg, ob))
            new += judge(R, ob, cfg, st)
        if not new:
            new += cross(R, obs, st)
        for v in new:
            if v['key'] not in seen:        # one witness per key and case
                seen.add(v['key'])
                viol.append(v)
    return {'n': nev, 'nontrivial': st['nontrivial'], 'outcomes': st['outcomes'], 'viol': viol, 'maxerr': st['maxerr'],
            'extra': {'programs': nprob}}
