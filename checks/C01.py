"""C01 - 'optimal' from conelp/lp/socp/sdp is an independently checkable certificate."""
from checks import conelp_family as F

PROPERTY = 'C01'
LEVEL = 'exploration'
ENGINE = 'bex'
FLAVOURS = ('plain',)
RULE = ('all members of the tiny LP families L(n,m) over a 3-value palette (every c != 0, G, h), and planted cone '
        'programs for every cone structure of D_small x n x p x planting kind x variant, each under every '
        'configuration (entry point x storage x kktsolver x option set x start point x junk x back-end); the '
        'oracle recomputes residuals, cone membership, gap and every result field from the caller\'s data in plain '
        'Python; non-trivial = solves that ended with status optimal (the oracle\'s interesting branch)')
ASSUME = ['reference recomputation in plain Python floats; reported-vs-recomputed tolerance 1e-6 relative + 1e-9 of the term magnitudes',
          'GLPK/DSDP results are checked at 1e-6 (their own tolerances), only the Python post-processing is from the working tree',
          'MOSEK branches unreachable (not installed)']
BOUNDS = {'quick': 'L(1,2), L(1,3), L(2,2); 28 cone structures x n in {1,2} x p in {0,1} x 3 plantings x 2 variants; ~75 configurations each',
          'thorough': 'adds L(2,3); all 126 structures x n in {1,2,3} x 3 variants; all 8 option sets'}
TECHNIQUE = 'bounded exhaustive enumeration of problem data and solver configurations; certificate recomputed by an independent reference'


def cases(tier, seed, flavour):
    for c in F.cases(tier, seed, flavour):
        c['tier'] = tier
        yield c


def run(case):
    return F.run(case, PROPERTY, {'optimal'}, case.get('tier', 'quick'))


def crash_key(case):
    return case['fam']
