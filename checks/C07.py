"""C07 - KKT solvers and Nesterov-Todd scalings satisfy their linear-algebra contract."""
import math, itertools
from mc import dom, solve, qpsolve, nlsolve, hist
from mc.ref import cone as R
from mc.ref import lpexact

PROPERTY = 'C07'
LEVEL = 'model_checking'
ENGINE = 'hist'
FLAVOURS = ('plain',)
# plain flavour under the glibc malloc checker: a byte written past the end of a heap block by the (uninstrumented) Fortran
# library aborts the process in free() and is reported as a killed interpreter
EXTRA_ENV = {'plain': {'LD_PRELOAD': '/lib/x86_64-linux-gnu/libc_malloc_debug.so.0', 'MALLOC_CHECK_': '3'}}
RULE = ('(1) scaling grid: for every cone structure x mnl x pair (s,z) of enumerated strictly interior points, '
        'compute_scaling must satisfy the documented invariants and W z = W^-T s = lambda; then for every second pair '
        'update_scaling is fed exactly what the solvers feed it and the same invariants are required (histories of '
        'length 2, thorough 3), on the compiled kernels and on the Python fallbacks; (2) explicit-state BFS over '
        'histories factor(W_i) / solve(rhs_j) on ONE factory object of each of kkt_ldl, kkt_ldl2, kkt_chol, kkt_chol2, '
        'kkt_qr (with and without H, Df/mnl, dense and sparse, including the singular-first-S branch of kkt_chol2): every '
        'solve must satisfy the documented block system, agree with an independent dense reference solve and with a fresh '
        'factory given only the last W; (3) every W handed to a user kktsolver during real conelp/coneqp/cpl solves is '
        'checked against the invariants and against s, z, lmbda of the calling frame. '
        'non-trivial = scalings with at least one q or s block, solve states, monitored W')
ASSUME = ['invariants are measured relative to the norms of the factors (tolerance 1e-9; observed drift < 1e-13)',
          'the state key of the factory BFS is (sequence of factored W indices, number of solves since the last factor, '
          'bit image of the last solution): over-fine on purpose, merging only histories that are observably identical',
          'only the most recent solve closure is used, as the solvers do']
BOUNDS = {'quick': 'scaling: quick structures x mnl 0..2 x 3x3 first pairs x 3x3 second pairs; factories: 5 solvers x 14 problem variants, alphabet 3 factor + 2 solve events, depth 4; monitor: 3 solvers x planted instances',
          'thorough': 'scaling: all D_small x 4x4 x 4x4 pairs, third update for a subset; factories depth 5'}
TECHNIQUE = 'explicit-state BFS over factor/solve histories on the real factory objects + exhaustive grid of scaling pairs, reference linear algebra as oracle'

TOL = 1e-10


# ------------------------------------------------------------------------------------------------ cases
def cases(tier, seed, flavour):
    V = 3 if tier == 'quick' else 4
    for d in dom.nonempty(dom.structures(tier)):
        for mnl in (0, 1, 2):
            for impl in ('C', 'py'):
                yield {'part': 'scaling', 'dims': d, 'mnl': mnl, 'impl': impl, 'V': V, 'seed': seed, 'tier': tier}
    for f in ('ldl', 'ldl2', 'chol', 'chol2', 'qr'):
        for pv in range(len(FACT_PROBLEMS)):
            pr = FACT_PROBLEMS[pv]
            if f == 'chol2' and (pr['dims']['q'] or pr['dims']['s']):
                continue
            if f == 'qr' and (pr.get('H') or pr.get('mnl')):
                continue
            for st in ('dense', 'sparse'):
                yield {'part': 'factory', 'solver': f, 'prob': pv, 'storage': st, 'depth': 4 if tier == 'quick' else 5,
                       'seed': seed}
    for i in range(len(MON)):
        yield {'part': 'monitor', 'idx': i, 'seed': seed, 'tier': tier}
    # scalings handed out after a restore-and-retry of cpl (KKT failure after a relaxed step): every fault position
    for tag in ('ballo1.1', 'ball2.0', 'ballo2.0', 'expc2'):
        for cone in ({'l': 1, 'q': [2], 's': [2]}, {'l': 0, 'q': [], 's': [2, 2]}):
            yield {'part': 'monitor-fault', 'tag': tag, 'cone': cone, 'seed': seed}


# ------------------------------------------------------------------------------------------------ part 1
def _chol(A):
    m = len(A)
    L = [[0.0] * m for _ in range(m)]
    for j in range(m):
        t = A[j][j] - sum(L[j][k] ** 2 for k in range(j))
        if t <= 0:
            return None
        L[j][j] = math.sqrt(t)
        for i in range(j + 1, m):
            L[i][j] = (A[i][j] - sum(L[i][k] * L[j][k] for k in range(j))) / L[j][j]
    return L


def _check_W(viol, K, Wc, s, z, lmbda, d, mnl, maxerr, what, sub):
    from mc import cvx
    Wr = cvx.W_to_ref(Wc)
    inv = R.w_invariants(Wr, d, mnl)
    if 'bad' in inv:
        viol.append({'key': K + ':sign-or-shape', 'msg': '%s: %s' % (what, inv['bad']), 'sub': sub})
        return False
    mp = R.w_maps(Wr, s, z, lmbda, d, mnl)
    for name, e in list(inv.items()) + list(mp.items()):
        maxerr[name] = max(maxerr.get(name, 0.0), e)
        if not e <= TOL:
            viol.append({'key': K + ':' + name, 'msg': '%s: invariant %s violated, relative error %.3g' % (what, name, e), 'sub': sub})
            return False
    return True


def run_scaling(case):
    from mc import cvx
    import cvxopt.misc as miscC
    misc = miscC if case['impl'] == 'C' else cvx.misc_py()
    d, mnl, V = case['dims'], case['mnl'], case['V']
    base = case['seed'] * V
    viol, maxerr = [], {}
    n = nt = 0
    K = 'C07:scaling:%s' % case['impl']
    Nd = R.cdim_diag(d, mnl)
    third = case.get('tier') == 'thorough' and R.cdim(d) <= 6
    for v1, v2 in itertools.product(range(V), repeat=2):
        s = solve.lower_sym(dom.interior(d, mnl, base + v1), d) if not mnl else _sym_mnl(dom.interior(d, mnl, base + v1), d, mnl)
        z = _sym_mnl(dom.interior(d, mnl, base + v2 + 1), d, mnl)
        lm = cvx.dmat([0.0] * Nd)
        try:
            W = misc.compute_scaling(cvx.dmat(s), cvx.dmat(z), lm, d, mnl if mnl else None)
        except Exception as e:
            viol.append({'key': K + ':compute_scaling:exception:' + type(e).__name__, 'msg': repr(e), 'sub': {'s': s, 'z': z}})
            break
        n += 1
        nt += 1 if (d['q'] or d['s']) else 0
        if mnl == 0 and 'dnl' in W:
            viol.append({'key': K + ':dnl-present-without-mnl', 'msg': 'W has dnl although mnl is None'}); break
        if not _check_W(viol, K + ':compute', W, s, z, list(lm), d, mnl, maxerr, 'compute_scaling', {'s': s, 'z': z}):
            break
        for u1, u2 in itertools.product(range(V), repeat=2):
            seq = [(u1, u2)] + ([((u1 + 1) % V, (u2 + 2) % V)] if third else [])
            W2 = _copyW(W)
            lm2 = +lm
            ok = True
            for (a, b) in seq:
                s2 = _sym_mnl(dom.interior(d, mnl, base + a + 2), d, mnl)
                z2 = _sym_mnl(dom.interior(d, mnl, base + b + 3), d, mnl)
                Wr = cvx.W_to_ref(W2)
                st = R.apply_W(s2, Wr, 'T', 'I')
                zt = R.apply_W(z2, Wr, 'N', 'N')
                sa, za = list(st), list(zt)
                good = True
                for kind, off, m in R.blocks(d, mnl):
                    if kind == 's':
                        Ls, Lz = _chol(R.low(st, off, m)), _chol(R.low(zt, off, m))
                        if Ls is None or Lz is None:
                            good = False
                            break
                        for j in range(m):
                            for i in range(m):
                                sa[off + j * m + i] = Ls[i][j]
                                za[off + j * m + i] = Lz[i][j]
                if not good:
                    continue
                try:
                    misc.update_scaling(W2, lm2, cvx.dmat(sa), cvx.dmat(za))
                except Exception as e:
                    viol.append({'key': K + ':update_scaling:exception:' + type(e).__name__, 'msg': repr(e),
                                 'sub': {'s': s, 'z': z, 's2': s2, 'z2': z2}})
                    ok = False
                    break
                n += 1
                nt += 1 if (d['q'] or d['s']) else 0
                if not _check_W(viol, K + ':update', W2, s2, z2, list(lm2), d, mnl, maxerr, 'update_scaling',
                                {'s': s, 'z': z, 's2': s2, 'z2': z2}):
                    ok = False
                    break
            if not ok:
                break
        if viol:
            break
    return {'n': n, 'nontrivial': nt, 'viol': viol, 'maxerr': maxerr, 'outcomes': {'scaling': n},
            'states': n, 'transitions': max(0, n - 1), 'traces': n}


def _sym_mnl(v, d, mnl):
    return v[:mnl] + solve.lower_sym(v[mnl:], d)


def _copyW(W):
    W2 = {}
    for k, v in W.items():
        if k == 'beta':
            W2[k] = list(v)
        elif isinstance(v, list):
            W2[k] = [+t for t in v]
        else:
            W2[k] = +v
    return W2


# ------------------------------------------------------------------------------------------------ part 2
def _P(n, v):
    P0 = qpsolve.gen_P(n, v)
    return [[P0[i][j] + (0.5 if i == j else 0.0) for j in range(n)] for i in range(n)]


FACT_PROBLEMS = [
    {'dims': {'l': 2, 'q': [], 's': []}, 'n': 2, 'p': 0, 'v': 0},
    {'dims': {'l': 3, 'q': [], 's': []}, 'n': 2, 'p': 1, 'v': 1},
    {'dims': {'l': 3, 'q': [], 's': []}, 'n': 3, 'p': 1, 'v': 2, 'H': True},
    {'dims': {'l': 2, 'q': [], 's': []}, 'n': 2, 'p': 0, 'v': 0, 'mnl': 1, 'H': True},
    {'dims': {'l': 1, 'q': [], 's': []}, 'n': 2, 'p': 1, 'v': 3, 'singularS': True},
    {'dims': {'l': 1, 'q': [], 's': []}, 'n': 3, 'p': 2, 'v': 1, 'singularS': True, 'H0': True},
    {'dims': {'l': 0, 'q': [3], 's': []}, 'n': 2, 'p': 0, 'v': 0},
    {'dims': {'l': 1, 'q': [2, 2], 's': []}, 'n': 3, 'p': 1, 'v': 1},
    {'dims': {'l': 0, 'q': [], 's': [2]}, 'n': 2, 'p': 0, 'v': 2},
    {'dims': {'l': 0, 'q': [], 's': [3]}, 'n': 3, 'p': 1, 'v': 0, 'H': True},
    {'dims': {'l': 1, 'q': [2], 's': [2]}, 'n': 3, 'p': 1, 'v': 1},
    {'dims': {'l': 1, 'q': [2], 's': [2, 1]}, 'n': 2, 'p': 0, 'v': 2, 'mnl': 1, 'H': True},
    {'dims': {'l': 0, 'q': [1], 's': [0, 2]}, 'n': 2, 'p': 1, 'v': 3},
    {'dims': {'l': 2, 'q': [], 's': []}, 'n': 2, 'p': 0, 'v': 1, 'mnl': 2},
    # two equality constraints (the equality block is a genuine matrix) with every cone kind
    {'dims': {'l': 0, 'q': [3], 's': []}, 'n': 4, 'p': 2, 'v': 1},
    {'dims': {'l': 1, 'q': [2], 's': [2]}, 'n': 4, 'p': 2, 'v': 2},
    {'dims': {'l': 3, 'q': [], 's': []}, 'n': 4, 'p': 2, 'v': 0, 'H': True},
    # box + arrow rows: G'W^-2 G has an arrow pattern, which CHOLMOD permutes (sparse storage)
    {'dims': {'l': 14, 'q': [], 's': []}, 'n': 5, 'p': 2, 'v': 0, 'arrow': True},
    {'dims': {'l': 17, 'q': [], 's': []}, 'n': 6, 'p': 2, 'v': 3, 'arrow': True},
    # box + arrow + band + skip rows and equality rows with three nonzeros: a fill-reducing ordering that is not
    # its own inverse (P and P' differ)
    {'dims': {'l': 28, 'q': [], 's': []}, 'n': 7, 'p': 2, 'v': 0, 'pattern': True},
    {'dims': {'l': 33, 'q': [], 's': []}, 'n': 8, 'p': 3, 'v': 1, 'pattern': True},
]


def _fact_data(pr):
    d, n, p, v = pr['dims'], pr['n'], pr['p'], pr['v']
    N = R.cdim(d)
    mnl = pr.get('mnl', 0)
    if pr.get('singularS'):
        # G has rank 1 < n, A completes the rank: S = G'W^-2 G (+H) is singular on the first call of kkt_chol2
        G = [[1.0] * N if j == 0 else [0.0] * N for j in range(n)]
        A = [[1.0 if j == i + 1 else 0.0 for j in range(n)] for i in range(p)]
        if p < n - 1:
            A = [[1.0 if j >= 1 else 0.0 for j in range(n)]][:p]
    elif pr.get('pattern'):
        rows = []
        for i in range(n):
            rows.append({i: 1.0}); rows.append({i: -1.0})
        for i in range(1, n):
            rows.append({0: 1.0, i: 1.0 + 0.25 * i})
        for i in range(n - 2):
            rows.append({i: 1.0, i + 2: -0.5 - 0.125 * i})
        for i in range(0, n - 1, 2):
            rows.append({i: 2.0, i + 1: -1.0})
        rows = rows[:N] + [{(3 * k) % n: 1.0} for k in range(N - len(rows))]
        assert len(rows) == N, (len(rows), N)
        G = [[rows[i].get(j, 0.0) for i in range(N)] for j in range(n)]
        acols = [(0, 3, 5), (1, 2, 6), (2, 4, 7)]
        A = [[(1.0 + 0.5 * k + 0.25 * j) if j in [c % n for c in acols[k]] else 0.0 for j in range(n)] for k in range(p)]
    elif pr.get('arrow'):
        ar = solve.arrow_lp(n, v)
        assert ar['dims'] == d and len(ar['A']) == p
        G, A = ar['G'], ar['A']
    else:
        G = solve.gen_G(d, n, v)
        A = solve.gen_A(p, n, v)
    H = _P(n, v) if pr.get('H') else None
    if pr.get('H0'):
        H = [[0.0] * n for _ in range(n)]
    Df = [[float((2 * k + 3 * j + v) % 5 - 2) for j in range(n)] for k in range(mnl)] if mnl else None
    if mnl and H is None:
        H = _P(n, v + 1)
    return G, A, H, Df


def run_factory(case):
    from cvxopt import matrix, sparse, spmatrix
    from mc import cvx
    import cvxopt.misc as misc
    pr = FACT_PROBLEMS[case['prob']]
    d, n, p = pr['dims'], pr['n'], pr['p']
    N = R.cdim(d)
    mnl = pr.get('mnl', 0)
    G, A, H, Df = _fact_data(pr)
    inst = {'dims': d, 'G': G, 'A': A, 'c': [0.0] * n}
    rows = solve.eff_rows(inst) + [list(r) for r in A] + ([list(r) for r in H] if H else []) + ([list(r) for r in Df] if Df else [])
    if (p and lpexact.rank(A) != p) or lpexact.rank(rows) != n:
        return {'n': 0, 'outcomes': {'skipped-rank': 1}}
    sp = case['storage'] == 'sparse'

    def mk():
        Gm = cvx.from_cols(G, N)
        Am = matrix([A[i][j] for j in range(n) for i in range(p)], (p, n), 'd') if p else matrix(0.0, (0, n))
        if sp:
            Gm = sparse(Gm) if N else spmatrix([], [], [], (0, n), 'd')
            Am = sparse(Am) if p else spmatrix([], [], [], (0, n), 'd')
        f = case['solver']
        if f == 'ldl':
            return misc.kkt_ldl(Gm, d, Am, mnl)
        if f == 'ldl2':
            return misc.kkt_ldl2(Gm, d, Am, mnl)
        if f == 'chol':
            return misc.kkt_chol(Gm, d, Am, mnl)
        if f == 'chol2':
            return misc.kkt_chol2(Gm, d, Am, mnl)
        return misc.kkt_qr(Gm, d, Am)

    Ws = [dom.genericW(d, mnl, case['seed'] + i) for i in range(3)]
    Hm = None
    if H is not None:
        Hm = matrix([H[i][j] if i >= j else 13.0 for j in range(n) for i in range(n)], (n, n), 'd')
        if sp:
            Hm = sparse(matrix([H[i][j] for j in range(n) for i in range(n)], (n, n), 'd'))
    Dfm = None
    if mnl:
        Dfm = matrix([Df[k][j] for j in range(n) for k in range(mnl)], (mnl, n), 'd')
        if sp:
            Dfm = sparse(Dfm)
    dimz = mnl + N
    rhss = [([1.0 + 0.5 * j for j in range(n)], [-1.0 + i for i in range(p)],
             _sym_mnl([0.25 * ((3 * i) % 7 - 3) for i in range(dimz)], d, mnl)),
            ([1.0 if j == n - 1 else 0.0 for j in range(n)], [0.0] * p, _sym_mnl([1.0 if i == dimz - 1 else 0.0 for i in range(dimz)], d, mnl))]
    GG = [list(Df[k][j] for k in range(mnl)) + G[j] if mnl else G[j] for j in range(n)]   # columns of [Df; G]

    def factor_call(fac, i):
        Wc = cvx.W_from_ref(Ws[i])
        if not mnl:
            Wc.pop('dnl', None); Wc.pop('dnli', None)
        if case['solver'] == 'qr':
            return fac(Wc)
        if mnl:
            return fac(Wc, Hm, Dfm)
        if Hm is not None:
            return fac(Wc, Hm)
        return fac(Wc)

    def build(h):
        fac = mk()
        g = None
        lastW = None
        out = None
        err = None
        nsol = 0
        for ev in h:
            try:
                if ev[0] == 'F':
                    g = factor_call(fac, ev[1]); lastW = ev[1]; nsol = 0; out = None
                else:
                    bx, by, bz = rhss[ev[1]]
                    x, y, z = cvx.dmat(bx), cvx.dmat(by), cvx.dmat(bz)
                    g(x, y, z)
                    out = (list(x), list(y), list(z), ev[1]); nsol += 1
            except Exception as e:
                err = (ev, e)
                break
        return {'fac': fac, 'g': g, 'lastW': lastW, 'out': out, 'err': err, 'nsol': nsol,
                'fseq': tuple(e[1] for e in h if e[0] == 'F')}

    def alphabet(o):
        if o['err'] is not None:
            return []
        evs = [('F', 0), ('F', 1), ('F', 2)]
        if o['g'] is not None:
            evs += [('S', 0), ('S', 1)]
        return evs

    def canon(o):
        return (o['fseq'], o['nsol'], repr(o['out']), repr(o['err'] and o['err'][0]))

    fresh_cache = {}

    def fresh(wi, ri):
        if (wi, ri) not in fresh_cache:
            fac = mk()
            g = factor_call(fac, wi)
            bx, by, bz = rhss[ri]
            x, y, z = cvx.dmat(bx), cvx.dmat(by), cvx.dmat(bz)
            g(x, y, z)
            fresh_cache[(wi, ri)] = (list(x), list(y), list(z))
        return fresh_cache[(wi, ri)]

    KEY = 'C07:factory:%s' % case['solver']

    def invariant(o, h):
        v = []
        if o['err'] is not None:
            ev, e = o['err']
            v.append({'key': KEY + ':exception:%s:%s' % (ev[0], type(e).__name__), 'msg': 'event %r raised %r' % (ev, e)})
            return v
        if o['out'] is None or not h or h[-1][0] != 'S':
            return v
        ux, uy, wz, ri = o['out']
        bx, by, bz = rhss[ri]
        Wr = Ws[o['lastW']]
        uz = R.apply_W(wz, Wr, 'N', 'I')                 # uz = W^-1 (W uz)
        dz = {'l': d['l'], 'q': d['q'], 's': d['s']}
        Hux = qpsolve.Px(H, ux) if H is not None else [0.0] * n
        ATy = [sum(A[i][j] * uy[i] for i in range(p)) for j in range(n)]
        GTuz = [R.sdot(GG[j], uz, dz, mnl) for j in range(n)]
        r1 = [Hux[j] + ATy[j] + GTuz[j] - bx[j] for j in range(n)]
        r2 = [sum(A[i][j] * ux[j] for j in range(n)) - by[i] for i in range(p)]
        GGx = R.Gx(GG, ux, dimz)
        WTWuz = R.apply_W(wz, Wr, 'T', 'N')
        r3 = [GGx[i] - WTWuz[i] - bz[i] for i in range(dimz)]
        up = set()
        for kind, off, m in R.blocks(dz, mnl):
            if kind == 's':
                for j in range(m):
                    for i in range(j):
                        up.add(off + j * m + i)
        r3 = [0.0 if i in up else r3[i] for i in range(dimz)]
        scale = max([1.0] + [abs(t) for t in ux + uy + wz + uz + bx + by + bz]) * max(
            [1.0] + [abs(t) for c_ in GG for t in c_] + ([abs(t) for r_ in H for t in r_] if H else [])) * _wn(Wr)
        res = max([abs(t) for t in r1 + r2 + r3] + [0.0]) / scale
        if not res <= 1e-9:
            v.append({'key': KEY + ':block-system-residual', 'msg': 'solve does not satisfy the documented block system: '
                      'relative residual %.3g (history %r)' % (res, h)})
            return v
        fx, fy, fz = fresh(o['lastW'], ri)
        dd = max([abs(a - b) for a, b in zip(ux + uy + [t for i, t in enumerate(wz) if i not in up],
                                             fx + fy + [t for i, t in enumerate(fz) if i not in up])] + [0.0])
        sc = max([1.0] + [abs(t) for t in fx + fy + fz])
        if not dd <= 1e-8 * sc * _wn(Wr):
            v.append({'key': KEY + ':differs-from-fresh-factory', 'msg': 'solution differs from the one of a fresh factory given '
                      'only the last W by %.3g (history %r)' % (dd, h)})
        return v

    r = hist.explore((), alphabet, build, canon, invariant, case['depth'], keep=1)
    return {'n': r['traces'], 'nontrivial': r['states'], 'states': r['states'], 'transitions': r['transitions'],
            'traces': r['traces'], 'viol': [{'key': x['key'], 'msg': x['msg'], 'sub': {'history': x.get('history')}} for x in r['violations']],
            'outcomes': {'factory-histories': r['traces']}}


def _wn(Wr):
    t = [1.0]
    for k in ('dnl', 'dnli', 'd', 'di'):
        t += [abs(v) for v in Wr.get(k, [])]
    for k, v in enumerate(Wr['v']):
        t.append(Wr['beta'][k] * 2 * sum(a * a for a in v)); t.append(2 * sum(a * a for a in v) / Wr['beta'][k])
    for r in Wr['r'] + Wr['rti']:
        t.append(sum(a * a for row in r for a in row))
    return max(t) ** 2


# ------------------------------------------------------------------------------------------------ part 3
def _mon_list():
    out = []
    for d in [{'l': 2, 'q': [], 's': []}, {'l': 0, 'q': [3], 's': []}, {'l': 0, 'q': [], 's': [2]}, {'l': 1, 'q': [2], 's': [2]},
              {'l': 1, 'q': [2, 2], 's': []}, {'l': 0, 'q': [], 's': [1, 2]}, {'l': 0, 'q': [1], 's': [3]}]:
        for n, p in ((2, 0), (2, 1), (3, 1)):
            for v in (0, 1):
                out.append(('conelp', d, n, p, v))
                out.append(('coneqp', d, n, p, v))
    for i in range(8):
        out.append(('cpl', i))
    return out


MON = _mon_list()


def run_monitor(case):
    import sys
    from mc import cvx
    item = MON[case['idx']]
    viol, maxerr = [], {}
    cnt = {'W': 0}

    def monitor_for(frame_names, mnl_of):
        def monitor(Wr, Wc):
            fr = sys._getframe(2)
            while fr is not None and not all(k in fr.f_locals for k in frame_names):
                fr = fr.f_back
            if fr is None:
                return
            loc = fr.f_locals
            if 'lmbda' not in loc or 'iters' not in loc:
                return
            d = loc['dims']
            mnl = mnl_of(loc)
            s, z, lm = list(loc['s']), list(loc['z']), list(loc['lmbda'])
            Nd = R.cdim_diag(d, mnl)
            cnt['W'] += 1
            if max(abs(t) for t in lm[:Nd] + [0.0]) == 0.0:
                # start-up factorisation with the identity scaling: lmbda not yet defined
                inv = R.w_invariants(Wr, d, mnl)
                if 'bad' in inv:
                    viol.append({'key': 'C07:handed-out-W:sign-or-shape', 'msg': inv['bad']})
                return
            _check_W(viol, 'C07:handed-out-W:%s' % item[0], Wc, _sym_mnl(s, d, mnl), _sym_mnl(z, d, mnl), lm[:Nd], d, mnl,
                     maxerr, 'W passed to kktsolver at iteration %r' % loc.get('iters'), {'iters': loc.get('iters')})
        return monitor

    if item[0] == 'conelp':
        inst = solve.planted(item[1], item[2], item[3], item[4] + case['seed'], 'strict')
        if inst is None:
            return {'n': 0, 'outcomes': {'skipped-rank': 1}}
        kk = solve.ref_kkt(inst, monitor=monitor_for(('s', 'z', 'dims', 'W'), lambda loc: 0))
        res, _ = solve.call(inst, {'entry': 'conelp', 'storage': 'dense', 'kkt': 'ref'}, kktsolver_obj=kk)
    elif item[0] == 'coneqp':
        inst = qpsolve.planted_qp(item[1], item[2], item[3], item[4] + case['seed'])
        if inst is None:
            return {'n': 0, 'outcomes': {'skipped-rank': 1}}
        kk = qpsolve.ref_kkt_qp(inst, monitor=monitor_for(('s', 'z', 'dims', 'W'), lambda loc: 0))
        res, _ = qpsolve.call(inst, {'entry': 'coneqp', 'storage': 'dense', 'kkt': 'ref'}, kktsolver_obj=kk)
    else:
        pbs = [p for p in nlsolve.base_problems(case['seed']) if p['entry'] == 'cpl']
        pb = pbs[item[1] % len(pbs)]
        if item[1] % 2:
            pb = nlsolve.with_cone(pb, {'l': 1, 'q': [2], 's': [2]}, item[1], 0)
        mon = monitor_for(('s', 'z', 'dims', 'W', 'mnl'), lambda loc: loc['mnl'])
        # built-in factory, wrapped so that the W it receives is monitored
        import cvxopt.misc as misc
        from cvxopt import matrix
        n = len(pb['x0'])
        N = R.cdim(pb['dims'])
        Gm = cvx.from_cols(pb['G'], N)
        Am = matrix(0.0, (0, n))
        mnl = nlsolve.nfun(pb)
        rec = {'calls': []}
        F = nlsolve.make_F(pb, {}, rec)
        fac = misc.kkt_ldl(Gm, pb['dims'], Am, mnl)

        def kk(x, z, W):
            mon(cvx.W_to_ref(W), W)
            f, Df, Hh = F(x, z)
            return fac(W, Hh, Df)
        res, _ = nlsolve.call(pb, {}, kktsolver_obj=kk)
    lab = 'exc:' + type(res).__name__ if isinstance(res, Exception) else str(res.get('status'))
    return {'n': cnt['W'], 'nontrivial': cnt['W'], 'viol': viol[:5], 'maxerr': maxerr, 'outcomes': {'monitored:' + lab: 1},
            'states': cnt['W'], 'transitions': max(0, cnt['W'] - 1), 'traces': 1}


def run_monitor_fault(case):
    from checks import C10
    b = {'kind': 'nl', 'tag': case['tag'], 'cone': case['cone'], 'refinement': 1, 'seed': case['seed']}
    inst, cfg, runner = C10._setup(b)
    base = C10.Fault()
    res0, _ = runner(base)
    viol = []
    n = 1
    if getattr(base, 'wviol', None):
        viol.append({'key': 'C07:handed-out-W:cpl:fault-free', 'msg': base.wviol})
    for k in range(base.nf):
        flt = C10.Fault((k,), ())
        runner(flt)
        n += 1
        if getattr(flt, 'wviol', None):
            viol.append({'key': 'C07:handed-out-W:cpl:after-kkt-failure', 'msg': 'after an ArithmeticError in kktsolver call #%d '
                         '(restore-and-retry): %s' % (k, flt.wviol), 'sub': {'tag': case['tag'], 'cone': case['cone'], 'fail_factor': k}})
            break
    return {'n': n, 'nontrivial': n, 'viol': viol, 'outcomes': {'monitored-fault-runs': n}, 'states': n, 'transitions': n - 1, 'traces': n}


def run(case):
    if case['part'] == 'monitor-fault':
        return run_monitor_fault(case)
    if case['part'] == 'scaling':
        return run_scaling(case)
    if case['part'] == 'factory':
        return run_factory(case)
    return run_monitor(case)


def crash_key(case):
    return case['part'] + ':' + str(case.get('solver', ''))
