"""C20 - matrices survive serialisation, copying and buffer exchange unchanged.

Two parts, both emitted from `cases`:
  (a) bex : exhaustive enumeration of round trips (pickle 0-5, copy, deepcopy, tofile/fromfile, buffer import
            from array/memoryview/numpy in every layout, buffer export) against a plain-Python byte-exact model;
  (b) hist: explicit-state BFS over histories of export / release / write / in-place operator / reshape / del /
            gc on one 4-element dense matrix, lock-step with a reference model (mc/ref/serial.py:HModel).
"""
import os, sys, gc, struct, itertools
from mc.ref import serial as R

PROPERTY = 'C20'
LEVEL = 'model_checking'
ENGINE = 'hist'
FLAVOURS = ('plain', 'asan')
TECHNIQUE = 'bounded exhaustive round-trip enumeration + explicit-state BFS over export/mutation histories'
RULE = ('bex part: every (typecode, shape) dense matrix with bitwise-distinct palette values and every sparse '
        'pattern cell->{absent, explicit zero, nonzero} of the bounded shapes goes through every operation '
        '(pickle protocols 0-5, copy, deepcopy, tofile/fromfile via real files and BytesIO, matrix(x), +x, slices, '
        'in-place operators, memoryview / numpy export) and every buffer exporter (array.array typecodes, '
        'memoryview casts in 1-D/2-D/3-D, numpy dtypes x layouts x shapes x tc argument) is imported; results are '
        'compared byte-for-byte with a plain-Python model.  hist part: breadth-first search over all histories up '
        'to the depth bound of the alphabet {export memoryview, export numpy, release k, write through matrix, '
        'write through view k, 8 in-place operators, 3 reshapes, del, gc.collect}; each transition replays the '
        'history on fresh objects; states are merged only if model state and the complete observable '
        'implementation state agree.  non-trivial = the object had at least one element / the history had a live '
        'view')
ASSUME = ['pickle protocol 0 writes floats through repr(); Python itself does not keep NaN sign/payload there, so for '
          'protocol 0 a NaN component only has to come back as a NaN (all other protocols and operations: bitwise)',
          'the element format of tofile() files is not documented: only the round trip (same or reshaped '
          'matrix, sequential matrices in one file) is checked, not the file bytes',
          'buffer formats that must be accepted are the native ones of the three typecodes plus the documented '
          'array("i") example: "i", "l", "d", "Zd"; every other format may be refused with TypeError or must give '
          'correct values',
          'strides of an exported buffer are compared exactly only for dimensions of extent > 1',
          'an in-place operator that raises (type change, division by zero, complex remainder) is assumed to leave '
          'the matrix bytes unchanged - this is how a freed buffer is observed on the non-ASan build',
          'reshaping (A.size = ...) while a view is live is not documented as refused; it is only required that the '
          'old view keeps the shape/strides it was created with and keeps showing the same storage',
          'down-conversions matrix(x, tc=lower type) from a buffer are undocumented: TypeError or exact values',
          'slices and +S of sparse matrices are checked for independence and numerical value only (their triplet '
          'structure belongs to C16)',
          'ASan flavour observes only accesses made by instrumented cvxopt code or through libc interceptors '
          '(memcpy in memoryview.tobytes); ASan reports one error per code location and worker process '
          '(suppress_equal_pcs), so the asan flavour shows a kind of memory error at least once per shard, not per case; '
          'the plain-build oracles (address, byte and aliasing comparisons) do not depend on it']
BOUNDS = {'quick': 'dense {0..3}x{0..3} x i,d,z, one palette rotation; sparse all 3^(mn) patterns for shapes up to '
                   '2x3 (asan: up to 2x2 and 1x3) plus 0x0, 0x2, 2x0, typecodes d,z; array typecodes x lengths 0..4; '
                   'memoryview casts of 20 formats, 1-D 0..4, 2-D up to 3x3, 3-D; numpy 22 dtypes x 14 layouts x '
                   'shapes {0..3}^2 x tc argument; hist depth 3 from 3 initial typecodes',
          'thorough': 'as quick with two palette rotations, sparse shapes additionally 3x2 and 3x3 (19683 patterns '
                      'each typecode; asan: up to 2x3 and 3x2, one rotation); hist depth 4'}

MUST_FORMATS = ('i', 'l', 'd', 'Zd')
TMPDIR = os.path.join(os.path.dirname(os.path.dirname(os.path.abspath(__file__))), '.cache')

ARRAY_CODES = 'bBhHiIlLqQfdu'
MV_FORMATS = ['B', 'b', 'c', 'h', 'H', 'i', 'I', 'l', 'L', 'q', 'Q', 'n', 'N', 'f', 'd', '?', 'P', '@i', '@l', '@d']
NP_DTYPES = ['int32', 'int64', 'float64', 'complex128', 'float32', 'complex64', 'bool', 'int8', 'uint8', 'int16',
             'uint16', 'uint32', 'uint64', 'longlong', 'ulonglong', 'float16', 'longdouble', 'clongdouble',
             '>f8', '>i4', '>i8', '>c16']
NP_LAYOUTS2 = ['C', 'F', 'T', 'rows2', 'cols2', 'rev0', 'rev1', 'rev01', 'off', 'offF', 'bc0', 'bc1', 'ro', 'roF']
NP_LAYOUTS1 = ['C', 'step2', 'rev', 'ro', 'bc', 'off']

H_ALPHABET = ([('mv',), ('np',), ('rel', 0), ('rel', 1), ('wmat', 0, 0), ('wmat', 3, 1),
               ('wview', 0, 2, 2), ('wview', 1, 1, 0)] +
              [('iop', op) for op in R.INPLACE_OPS] +
              [('size', s) for s in R.HIST_SIZES] + [('del',), ('gc',)])


# ===================================================================== enumeration
def _sparse_shapes(tier, flavour):
    sh = [(0, 0), (0, 2), (2, 0), (1, 1), (1, 2), (2, 1), (2, 2), (1, 3), (3, 1)]
    if not (tier == 'quick' and flavour == 'asan'):
        sh.append((2, 3))
    if tier == 'thorough':
        sh.append((3, 2))
        if flavour != 'asan':
            sh.append((3, 3))
    return sh


SKIP_DETERMINISM_GATE = True     # the gate of mc/main.py runs the first case inside the un-isolated parent process, where
                                 # a crashing mutant is a harness error; the 'gate' case below does the same comparison
                                 # inside a crash-tolerant worker


def cases(tier, seed, flavour):
    quick = tier != 'thorough'
    seeds = [seed] if quick else [seed, seed + 1]
    yield {'part': 'gate', 'seed': seed}
    for s in seeds:
        for tc in 'idz':
            for m in range(4):
                for n in range(4):
                    yield {'part': 'dense', 'tc': tc, 'm': m, 'n': n, 'seed': s}
    for tc1 in 'idz':
        for tc2 in 'idz':
            yield {'part': 'file', 'tc1': tc1, 'tc2': tc2, 'seed': seed}
    for s in (seeds if flavour != 'asan' else seeds[:1]):
        for tc in 'dz':
            for (m, n) in _sparse_shapes(tier, flavour):
                tot = 3 ** (m * n)
                chunk = 729 if flavour != 'asan' else 81       # asan: ~5 ms per evaluation, keep cases short
                for lo in range(0, tot, chunk):
                    yield {'part': 'sparse', 'tc': tc, 'm': m, 'n': n, 'lo': lo, 'hi': min(tot, lo + chunk), 'seed': s}
    if flavour != 'asan':
        for tc in 'idz':
            yield {'part': 'file-large', 'tc': tc}
    for tc in 'dz':
        yield {'part': 'sparse-inplace', 'tc': tc}
        yield {'part': 'sparse-huge', 'tc': tc}
    yield {'part': 'imp-sparse'}
    for code in ARRAY_CODES:
        yield {'part': 'imp-array', 'code': code}
    for fmt in MV_FORMATS:
        yield {'part': 'imp-mv', 'fmt': fmt}
    for dt in NP_DTYPES:
        for s in seeds:
            yield {'part': 'imp-np', 'dtype': dt, 'seed': s}
    depth = 3 if quick else 4
    for tc in 'diz':
        first = R.HModel(tc).enabled(H_ALPHABET)
        yield {'part': 'hist', 'tc': tc, 'first': None, 'depth': 0}       # the initial state itself
        for k in range(len(first)):
            yield {'part': 'hist', 'tc': tc, 'first': k, 'depth': depth}


def crash_key(case):
    p = case.get('part')
    if p == 'gate':
        return 'gate'
    if p == 'dense':
        return 'dense:%s' % case['tc']
    if p == 'sparse':
        return 'sparse:%s' % case['tc']
    if p == 'imp-array':
        return 'imp-array:%s' % case['code']
    if p == 'imp-mv':
        return 'imp-mv:%s' % case['fmt']
    if p == 'imp-np':
        return 'imp-np:%s' % case['dtype']
    if p == 'hist':
        f = case.get('first')
        a = None
        if f is not None:
            a = R.HModel(case['tc']).enabled(H_ALPHABET)[f]
        return 'hist:%s:%s' % (case['tc'], _aname(a) if a else 'root')
    return str(p)


# ===================================================================== bookkeeping
class Ctx(object):
    def __init__(self):
        self.viol = []
        self.n = 0
        self.nontrivial = 0
        self.outcomes = {}
        self.keys = set()
        self.nbad = 0

    def bad(self, key, msg, sub=None):
        """one violation entry per key and case (the first, i.e. simplest, witness)."""
        self.nbad += 1
        if key in self.keys:
            return
        self.keys.add(key)
        self.viol.append({'key': key, 'msg': msg, 'sub': sub})

    def out(self, label, k=1):
        self.outcomes[label] = self.outcomes.get(label, 0) + k

    def ev(self, nontrivial=True):
        self.n += 1
        if nontrivial:
            self.nontrivial += 1

    def asan(self, site, sub=None):
        """turn sanitizer reports written since the last call into violations keyed by the call site."""
        from mc import asan
        if not asan.active():
            return 0
        k = 0
        for e in asan.errors():
            k += 1
            self.bad('C20:%s:asan:%s:%s:%s' % (site, e['kind'], e['access'], e['where']),
                     'AddressSanitizer: %s (%s) in %s line %s' % (e['kind'], e['access'], e['where'], e['line']), sub)
        return k

    def result(self, **kw):
        r = {'n': self.n, 'nontrivial': self.nontrivial, 'viol': self.viol, 'outcomes': self.outcomes}
        r.update(kw)
        return r


def _hx(b):
    return b.hex() if len(b) <= 96 else b[:96].hex() + '...'


def dimg(M):
    """bit-exact image of a dense matrix: physical (column-major) bytes through the buffer protocol."""
    mv = memoryview(M)
    try:
        b = mv.tobytes(order='F')
    finally:
        mv.release()
    return ('M', M.typecode, tuple(M.size), b)


def simg(S):
    from mc.cvx import raw
    c = S.CCS
    return ('S', S.typecode, tuple(S.size), _phys(c[0]), _phys(c[1]), _phys(c[2]), tuple(S.I), tuple(S.J))


def _phys(M):
    return dimg(M)[3]


def addr(M):
    import numpy
    a = numpy.asarray(M)
    p = a.__array_interface__['data'][0]
    del a
    return p


def mk(vals, size, tc):
    """dense matrix holding exactly `vals` (column-major).  'z' matrices are filled by writing the raw bytes through
    the exported buffer, because matrix(list of complex) itself is lossy for some values (see findings)."""
    from cvxopt import matrix
    vals = list(vals)
    if tc != 'z' or not vals:
        return matrix(vals, tuple(size), tc)
    import numpy
    M = matrix(0.0, tuple(size), 'z')
    a = numpy.asarray(M)
    flat = a.T.reshape(-1)
    assert flat.base is not None and flat.flags.c_contiguous and numpy.shares_memory(flat, a)
    flat.view(numpy.uint8)[:] = numpy.frombuffer(R.pack('z', vals), dtype=numpy.uint8)
    del flat, a
    return M


def _special_only(tc, got, exp, modnan=False):
    """True if got/exp (byte strings of equal length) differ only in complex elements that the conversion from a
    Python complex number is known to damage (see R.z_lossy)."""
    if tc != 'z' or len(got) != len(exp):
        return False
    ev = R.unpack('z', exp)
    for k, v in enumerate(ev):
        g, e = got[16 * k:16 * k + 16], exp[16 * k:16 * k + 16]
        if g == e or (modnan and R.same_mod_nan('z', g, e)):
            continue
        if not R.z_lossy(v):
            return False
    return True


def cmp_dense(c, site, M, exp, modnan=False, sub=None):
    """compare a cvxopt dense matrix with a model image; returns True if equal."""
    from cvxopt import matrix
    if not isinstance(M, matrix):
        c.bad('C20:%s:wrong-type' % site, 'result is %s, not a dense matrix' % type(M).__name__, sub)
        return False
    got = dimg(M)
    if got[2] != exp[2]:
        c.bad('C20:%s:size-differs' % site, 'size %r, expected %r' % (got[2], exp[2]), sub)
        return False
    if got[1] != exp[1]:
        c.bad('C20:%s:typecode-differs' % site, 'typecode %r, expected %r' % (got[1], exp[1]), sub)
        return False
    ok = R.same_mod_nan(exp[1], got[3], exp[3]) if modnan else got[3] == exp[3]
    if not ok:
        sfx = ':complex-special' if _special_only(exp[1], got[3], exp[3], modnan) else ''
        c.bad('C20:%s:values-differ%s' % (site, sfx), 'bytes %s, expected %s' % (_hx(got[3]), _hx(exp[3])), sub)
        return False
    return True


def cmp_sparse(c, site, S, exp, sub=None):
    from cvxopt import spmatrix
    if not isinstance(S, spmatrix):
        c.bad('C20:%s:wrong-type' % site, 'result is %s, not a sparse matrix' % type(S).__name__, sub)
        return False
    got = simg(S)
    names = ['', 'typecode', 'size', 'colptr', 'rowind', 'values', 'I', 'J']
    for k in (2, 1, 3, 4, 5, 6, 7):
        if got[k] != exp[k]:
            g, e = got[k], exp[k]
            sfx = ''
            if isinstance(g, bytes):
                if k == 5 and _special_only(exp[1], g, e):
                    sfx = ':complex-special'
                g, e = _hx(g), _hx(e)
            c.bad('C20:%s:%s-differs%s' % (site, names[k], sfx), '%s is %r, expected %r' % (names[k], g, e), sub)
            return False
    vb = _phys(S.V)
    if vb != exp[5]:
        c.bad('C20:%s:V-differs' % site, 'V is %s, expected %s' % (_hx(vb), _hx(exp[5])), sub)
        return False
    return True


# ===================================================================== run
def run(case):
    from mc import cvx  # asserts the staged build
    c = Ctx()
    part = case['part']
    if part == 'gate':
        _sweep()
        return _run_gate(case)
    try:
        if part == 'dense':
            _run_dense(case, c)
        elif part == 'file':
            _run_file(case, c)
        elif part == 'sparse':
            _run_sparse(case, c)
        elif part == 'sparse-inplace':
            _run_sparse_inplace(case, c)
        elif part == 'file-large':
            _run_file_large(case, c)
        elif part == 'sparse-huge':
            _run_sparse_huge(case, c)
        elif part == 'imp-sparse':
            _run_imp_sparse(case, c)
        elif part == 'imp-array':
            _run_imp_array(case, c)
        elif part == 'imp-mv':
            _run_imp_mv(case, c)
        elif part == 'imp-np':
            _run_imp_np(case, c)
        elif part == 'hist':
            return _run_hist(case, c)
        else:
            raise AssertionError(part)
    except Exception as e:
        import traceback
        c.bad('C20:%s:unexpected-exception:%s' % (part, type(e).__name__), traceback.format_exc()[-1500:])
    c.asan(part)
    return c.result()


def _run_imp_sparse(case, c):
    """spmatrix(V, I, J, size) with V, I, J given as buffer exporters (array.array, memoryview of an array, of a cvxopt
    matrix and of the index / value matrices of another spmatrix) reproduces the matrix built from the same lists."""
    import array
    from cvxopt import spmatrix, matrix
    pats = [([0, 2, 1], [1, 0, 1], (3, 2)), ([1, 0, 0, 2], [0, 2, 1, 2], (3, 3)), ([0], [1], (1, 2)), ([], [], (2, 2)),
            ([2, 0], [0, 0], (3, 1))]
    for tc in 'dz':
        for (I, J, size) in pats:
            V = [(k + 1) * (1.5 if tc == 'd' else complex(1.5, -k)) if k != 1 else (0.0 if tc == 'd' else 0j) for k in range(len(I))]
            ref = spmatrix(V, I, J, size, tc)
            want = (list(ref.V), list(ref.I), list(ref.J), ref.size, ref.typecode)
            forms = {}
            for code in ('i', 'l'):
                forms['array-' + code] = lambda L, code=code: array.array(code, L)
                forms['memoryview(array-%s)' % code] = lambda L, code=code: memoryview(array.array(code, L))
            forms['memoryview(matrix-i)'] = lambda L: memoryview(matrix(L, (len(L), 1), 'i'))
            forms['memoryview(spmatrix.I/.J)'] = None
            for fI, mkI in sorted(forms.items()):
                for fJ, mkJ in sorted(forms.items()):
                    if (fI.startswith('memoryview(sp')) != (fJ.startswith('memoryview(sp')):
                        continue
                    if not I and 'array' in fI + fJ and False:
                        continue
                    sub = {'tc': tc, 'I': I, 'J': J, 'size': list(size), 'I-form': fI, 'J-form': fJ}
                    c.ev(len(I) > 0)
                    try:
                        if mkI is None:
                            Ib, Jb = memoryview(ref.I), memoryview(ref.J)
                            Vb = memoryview(ref.V)
                        else:
                            Ib, Jb = mkI(I), mkJ(J)
                            Vb = array.array('d', V) if tc == 'd' and fI == fJ else V
                        got = spmatrix(Vb, Ib, Jb, size, tc)
                    except Exception as e:
                        if len(I) == 0 and isinstance(e, (TypeError, ValueError)):
                            c.out('import sparse empty refused')       # empty buffers: nothing documented
                            continue
                        c.bad('C20:import:sparse-triplets:exception:%s' % type(e).__name__,
                              'spmatrix(V, I, J) with I as %s and J as %s raised %s: %s' % (fI, fJ, type(e).__name__, e), sub)
                        continue
                    g = (list(got.V), list(got.I), list(got.J), got.size, got.typecode)
                    if g != want:
                        c.bad('C20:import:sparse-triplets:differs-from-lists', 'spmatrix(V, I, J) with I as %s and J as %s gives '
                              '(V, I, J, size, tc) = %r, from lists %r' % (fI, fJ, g, want), sub)
                    else:
                        c.out('import sparse ok')
            c.asan('import:sparse-triplets', {'tc': tc, 'size': list(size)})


def _run_sparse_inplace(case, c):
    """in-place operators on a sparse matrix act on the object every alias refers to (all shapes <= 2x2 with every
    non-empty pattern of the left operand, sparse and scalar right operands)."""
    from cvxopt import spmatrix, matrix
    tc = case['tc']
    unit = complex(1.0, -2.0) if tc == 'z' else 1.0
    for (m, n) in ((1, 1), (2, 1), (1, 2), (2, 2)):
        N = m * n
        for mask in range(1, 2 ** N):
            cells = [p for p in range(N) if mask >> p & 1]
            va = [unit * (p + 1) for p in cells]
            other = [(p + 1) % N for p in cells]
            vb = [unit * 0.5 * (p + 2) for p in other]

            def dense(X):
                return list(matrix(X))
            for op in ('+=S', '-=S', '*=2', '/=2', '-=S(other pattern)', '+=S(other pattern)'):
                A = spmatrix(va, [p % m for p in cells], [p // m for p in cells], (m, n), tc)
                pat = other if 'other' in op else cells
                S = spmatrix(vb, [p % m for p in pat], [p // m for p in pat], (m, n), tc)
                B = A
                a0, s0 = dense(A), dense(S)
                if op[:3] == '+=S':
                    want = [x + y for x, y in zip(a0, s0)]; A += S
                elif op[:3] == '-=S':
                    want = [x - y for x, y in zip(a0, s0)]; A -= S
                elif op == '*=2':
                    want = [x * 2 for x in a0]; A *= 2
                else:
                    want = [x / 2 for x in a0]; A /= 2
                c.ev()
                sub = {'tc': tc, 'size': [m, n], 'cells': cells, 'op': op}
                key = 'C20:sparse-inplace:%s' % op.split('(')[0]
                if A is not B:
                    c.bad(key + ':new-object', 'A %s rebinds A to a new object; the alias still holds %r' % (op, dense(B)), sub)
                elif dense(B) != want:
                    c.bad(key + ':value', 'after A %s the matrix holds %r, expected %r' % (op, dense(B), want), sub)
                else:
                    c.out('sparse inplace ok')


def _run_gate(case):
    """determinism gate: representative cases, run twice, must give identical observations."""
    from mc import engine
    seed = case['seed']
    subs = [{'part': 'dense', 'tc': 'z', 'm': 2, 'n': 3, 'seed': seed},
            {'part': 'sparse', 'tc': 'd', 'm': 2, 'n': 2, 'lo': 0, 'hi': 81, 'seed': seed},
            {'part': 'file', 'tc1': 'i', 'tc2': 'z', 'seed': seed},
            {'part': 'imp-np', 'dtype': 'float64', 'seed': seed},
            {'part': 'imp-mv', 'fmt': 'i'},
            {'part': 'hist', 'tc': 'z', 'first': 0, 'depth': 2}]
    c = Ctx()
    for sub in subs:
        r1 = engine.jdump(run(sub))
        r2 = engine.jdump(run(sub))
        c.ev()
        if r1 != r2:
            c.bad('C20:harness:nondeterministic:' + sub['part'], 'same case, two runs, different observations', sub)
    return c.result()


# --------------------------------------------------------------------- dense round trips
def _tmpname(tag):
    _tmpname.k += 1
    return os.path.join(TMPDIR, 'c20-%d-%d-%s.bin' % (os.getpid(), _tmpname.k, tag))


_tmpname.k = 0


def _sweep():
    """remove temporary files left behind by workers that crashed (their pid no longer exists)."""
    import glob
    for f in glob.glob(os.path.join(TMPDIR, 'c20-*-*.bin')):
        try:
            pid = int(os.path.basename(f).split('-')[1])
            if not os.path.exists('/proc/%d' % pid):
                os.unlink(f)
        except (ValueError, OSError):
            pass


def _newvals(tc):
    return {'i': [424242, -99], 'd': [424242.5, -99.25], 'z': [complex(424242.5, -1.0), complex(-99.25, 7.0)]}[tc]


def _run_dense(case, c):
    import pickle, copy, io
    import numpy
    from cvxopt import matrix
    tc, m, n, seed = case['tc'], case['m'], case['n'], case['seed']
    N = m * n
    vals = R.dense_values(tc, N, seed)
    exp = R.dense_image(tc, (m, n), vals)
    nt = N > 0
    sub = {'tc': tc, 'size': [m, n]}
    T = 'dense-' + tc

    def fresh():
        return mk(vals, (m, n), tc)

    A = fresh()
    c.ev(nt)
    if not cmp_dense(c, 'construct:' + T, A, exp, sub=sub):
        return
    a0 = addr(A) if nt else None

    # ---- pickle, copy, deepcopy : exact round trip, new storage
    ops = [('pickle%d' % p, (lambda p: lambda X: pickle.loads(pickle.dumps(X, p)))(p)) for p in range(6)]
    ops += [('copy', copy.copy), ('deepcopy', copy.deepcopy)]
    ops += [('reduce', lambda X: X.__reduce__()[0](*X.__reduce__()[1]))]
    for name, fn in ops:
        B = fn(A)
        c.ev(nt)
        site = '%s:%s' % (name if not name.startswith('pickle') else 'pickle', T)
        modnan = name == 'pickle0'
        if not cmp_dense(c, site, B, exp, modnan=modnan, sub=dict(sub, op=name)):
            continue
        if dimg(A) != exp:
            c.bad('C20:%s:source-modified' % site, '%s changed its argument' % name, sub)
            A = fresh()
        if B is A or (nt and addr(B) == addr(A)):
            c.bad('C20:%s:shares-storage' % site, '%s returned an object sharing the buffer of the source' % name, sub)
        c.asan(site, sub)

    # ---- matrix(x), +x, slices: independent copies
    cps = [('matrix(x)', lambda X: matrix(X), (m, n)), ('+x', lambda X: +X, (m, n)),
           ('x[:,:]', lambda X: X[:, :], (m, n)), ('x[:]', lambda X: X[:], (N, 1)),
           ('x[0:m,0:n]', lambda X: X[0:m, 0:n], (m, n)), ('x[::1,::1]', lambda X: X[::1, ::1], (m, n)),
           ('copy', copy.copy, (m, n)), ('deepcopy', copy.deepcopy, (m, n)),
           ('pickle2', lambda X: pickle.loads(pickle.dumps(X, 2)), (m, n)),
           ('matrix(memoryview(x))', lambda X: matrix(memoryview(X)), (m, n)),
           ('matrix(numpy.asarray(x))', lambda X: matrix(numpy.asarray(X)), (m, n))]
    for name, fn, size in cps:
        A = fresh()
        B = fn(A)
        c.ev(nt)
        site = 'independent:%s:%s' % (name, T)
        e2 = R.dense_image(tc, size, vals)
        if not cmp_dense(c, site, B, e2, sub=dict(sub, op=name)):
            continue
        if not nt:
            continue
        if B is A or addr(B) == addr(A):
            c.bad('C20:%s:shares-storage' % site, '%s gives the same buffer address as its argument' % name, sub)
            continue
        w1, w2 = _newvals(tc)
        A[0] = w1
        if dimg(B) != e2:
            c.bad('C20:%s:follows-source' % site, 'after A[0] = %r the result of %s changed' % (w1, name), sub)
        B[N - 1] = w2
        va = list(vals); va[0] = w1
        if dimg(A) != R.dense_image(tc, (m, n), va):
            c.bad('C20:%s:source-follows-copy' % site, 'writing the result of %s changed the source' % name, sub)
        c.asan(site, sub)

    # ---- plain assignment / in-place operators alias (with and without a live export)
    if nt:
        base = [(k + 1) for k in range(N)] if tc != 'z' else [complex(k + 1, N - k) for k in range(N)]
        base = [R.convert(v, 'i', tc) for v in base]
        for op in R.INPLACE_OPS:
            for exported in (False, True):
                A = mk(base, (m, n), tc)
                B = A
                ad = addr(A)
                mv = memoryview(A) if exported else None
                st, want = R.inplace_apply(tc, base, op)
                got = _do_iop(A, op)
                c.ev()
                site = 'inplace:%s:%s' % (op, T)
                s2 = dict(sub, exported=exported)
                c.out('inplace %s' % got.split(':')[0])
                bad = False
                if got == 'new':
                    c.bad('C20:%s:new-object' % site, 'A %s rebinds A to a new object' % op, s2)
                    bad = True
                elif st == 'raise' and got == 'ok':
                    c.bad('C20:%s:not-refused' % site,
                          'A %s on a %r matrix is documented as not allowed (%s) but was executed: typecode now %r'
                          % (op, tc, want, B.typecode), s2)
                    bad = True
                elif st == 'raise':
                    if dimg(B) != R.dense_image(tc, (m, n), base):
                        c.bad('C20:%s:raised-but-modified' % site,
                              'A %s raised %s and the matrix bytes changed: %s' % (op, got, _hx(dimg(B)[3])), s2)
                        bad = True
                elif got != 'ok':
                    c.bad('C20:%s:refused' % site, 'A %s raised %s' % (op, got), s2)
                    bad = True
                elif B.typecode != tc or not _num_eq(list(B), want) or tuple(B.size) != (m, n):
                    c.bad('C20:%s:alias-does-not-follow' % site,
                          'B = A; A %s: B is %r, expected %r' % (op, list(B), want), s2)
                if addr(B) != ad:
                    if exported:
                        c.bad('C20:%s:buffer-moved-while-exported' % site,
                              'A %s moved the buffer of the matrix while a memoryview of it is live' % op, s2)
                    elif not bad:
                        c.bad('C20:%s:buffer-moved' % site, 'A %s changed the buffer address of the matrix' % op, s2)
                    bad = True
                if exported and not bad:
                    if mv.tobytes(order='F') != dimg(B)[3]:
                        c.bad('C20:%s:view-does-not-follow' % site, 'after A %s a live memoryview shows other bytes '
                              'than the matrix' % op, s2)
                if c.asan(site, s2):
                    bad = True
                if bad:
                    _GRAVE.append((A, B, mv))
                elif mv is not None:
                    mv.release()

    # ---- export through memoryview and numpy
    _export_checks(c, tc, m, n, vals, T, sub)

    # ---- tofile / fromfile
    _file_checks(c, tc, m, n, vals, exp, T, sub)


_GRAVE = []     # objects of executions that violated memory safety are leaked on purpose (no double free at dealloc)


def _do_iop(A, op):
    """executes the in-place statement on A; returns 'ok', 'new' (name rebound) or 'raise:<Type>'."""
    from cvxopt import matrix
    B = A
    try:
        if op == '+=1':
            A += 1
        elif op == '*=2':
            A *= 2
        elif op == '%=2':
            A %= 2
        elif op == '%=2.0':
            A %= 2.0
        elif op == '/=2':
            A /= 2
        elif op == '+=1.0':
            A += 1.0
        elif op == '%=0':
            A %= 0
        elif op == '+=B':
            A += matrix(1, A.size, A.typecode)
        else:
            raise AssertionError(op)
    except AssertionError:
        raise
    except Exception as e:
        return 'raise:' + type(e).__name__
    return 'ok' if A is B else 'new'


def _rowmajor_bytes(tc, m, n, vals):
    return b''.join(R.pack1(tc, vals[j * m + i]) for i in range(m) for j in range(n))


def _export_checks(c, tc, m, n, vals, T, sub):
    import numpy
    N = m * n
    nt = N > 0
    isz = R.ISIZE[tc]
    A = mk(vals, (m, n), tc)
    # memoryview
    mv = memoryview(A)
    c.ev(nt)
    site = 'export:memoryview:' + T
    want = {'format': R.FMT[tc], 'itemsize': isz, 'ndim': 2, 'shape': (m, n), 'nbytes': N * isz, 'readonly': False}
    for k, w in want.items():
        g = getattr(mv, k)
        if g != w:
            c.bad('C20:%s:%s-wrong' % (site, k), 'memoryview(A).%s is %r, expected %r for a %dx%d %r matrix'
                  % (k, g, w, m, n, tc), sub)
    if mv.shape == (m, n) and mv.itemsize == isz:
        fs = R.f_strides(tc, (m, n))
        for d in (0, 1):
            if (m, n)[d] > 1 and mv.strides[d] != fs[d]:
                c.bad('C20:%s:strides-wrong' % site, 'memoryview(A).strides is %r, expected %r' % (mv.strides, fs), sub)
        if all((m, n)[d] <= 1 or mv.strides[d] == fs[d] for d in (0, 1)):
            if mv.tobytes(order='C') != _rowmajor_bytes(tc, m, n, vals):
                c.bad('C20:%s:contents-wrong' % site, 'elements read through shape/strides differ from A[i,j]', sub)
            if mv.tobytes(order='F') != R.pack(tc, vals):
                c.bad('C20:%s:contents-wrong' % site, 'column-major bytes differ from the matrix values', sub)
    c.asan(site, sub)
    # numpy
    a = numpy.asarray(A)
    c.ev(nt)
    site = 'export:numpy:' + T
    if a.dtype.str != R.NPDT[tc] or a.shape != (m, n) or not a.flags.writeable:
        c.bad('C20:%s:attributes-wrong' % site, 'numpy.asarray(A): dtype %s shape %r writeable %r'
              % (a.dtype.str, a.shape, a.flags.writeable), sub)
    else:
        fs = R.f_strides(tc, (m, n))
        if any((m, n)[d] > 1 and a.strides[d] != fs[d] for d in (0, 1)):
            c.bad('C20:%s:strides-wrong' % site, 'numpy.asarray(A).strides is %r, expected %r' % (a.strides, fs), sub)
        elif a.tobytes(order='C') != _rowmajor_bytes(tc, m, n, vals):
            c.bad('C20:%s:contents-wrong' % site, 'numpy.asarray(A)[i,j] differs from A[i,j]', sub)
    if nt:
        ad = a.__array_interface__['data'][0]
        a2 = numpy.asarray(mv)
        if a2.__array_interface__['data'][0] != ad:
            c.bad('C20:export:%s:views-do-not-share' % T, 'two exports of one matrix have different addresses', sub)
        del a2
        # write through the numpy view, the memoryview and the matrix; all must follow
        w1, w2 = _newvals(tc)
        cur = list(vals)
        i, j = m - 1, n - 1
        a[i, j] = w1; cur[j * m + i] = w1
        c.ev()
        if dimg(A)[3] != R.pack(tc, cur) or mv.tobytes(order='F') != R.pack(tc, cur):
            c.bad('C20:export:numpy:%s:write-not-shared' % T, 'a[i,j] = v did not change A[i,j] / the memoryview', sub)
        A[0, 0] = w2; cur[0] = w2
        c.ev()
        if a.tobytes(order='F') != R.pack(tc, cur) or mv.tobytes(order='F') != R.pack(tc, cur):
            c.bad('C20:export:%s:view-does-not-follow-matrix' % T, 'A[0,0] = v is not visible through the views', sub)
        w3 = _newvals(tc)[0]
        if tc == 'z':
            t = numpy.asarray(mv); t[0, n - 1] = w3; del t
        else:
            mv[0, n - 1] = w3
        cur[(n - 1) * m] = w3
        c.ev()
        if dimg(A)[3] != R.pack(tc, cur) or a.tobytes(order='F') != R.pack(tc, cur):
            c.bad('C20:export:memoryview:%s:write-not-shared' % T, 'mv[0,n-1] = v did not change the matrix', sub)
        # the views keep the matrix alive
        del A
        gc.collect()
        c.ev()
        if a.tobytes(order='F') != R.pack(tc, cur) or mv.tobytes(order='F') != R.pack(tc, cur):
            c.bad('C20:export:%s:view-invalid-after-del' % T, 'after del A the views no longer show the values', sub)
        c.asan('export:after-del:' + T, sub)
    del a
    mv.release()
    c.asan('export:release:' + T, sub)


def _file_checks(c, tc, m, n, vals, exp, T, sub):
    import io
    from cvxopt import matrix
    N = m * n
    nt = N > 0
    zero = R.convert(0, 'i', tc)
    A = mk(vals, (m, n), tc)
    path = _tmpname('a')
    try:
        with open(path, 'wb') as f:
            A.tofile(f)
        flen = os.path.getsize(path)
        for shape, tag in (((m, n), 'same-shape'), ((n, m), 'reshaped')):
            B = matrix(zero, shape, tc)
            with open(path, 'rb') as f:
                B.fromfile(f)
                rest = f.read()
            c.ev(nt)
            cmp_dense(c, 'file:%s:%s' % (tag, T), B, R.dense_image(tc, shape, vals), sub=sub)
            if rest:
                c.bad('C20:file:%s:%s:file-longer-than-matrix' % (tag, T), 'tofile wrote %d bytes more than fromfile reads'
                      % len(rest), sub)
        # BytesIO
        bio = io.BytesIO()
        A.tofile(bio)
        bio.seek(0)
        B = matrix(zero, (m, n), tc)
        B.fromfile(bio)
        c.ev(nt)
        cmp_dense(c, 'file:bytesio:' + T, B, exp, sub=sub)
        # too short: one byte, one element missing, empty
        if nt:
            data = open(path, 'rb').read()
            for cut, tag in ((1, 'one-byte-short'), (flen // N, 'one-element-short'), (flen, 'empty-file')):
                with open(path, 'wb') as f:
                    f.write(data[:flen - cut])
                B = matrix(zero, (m, n), tc)
                try:
                    with open(path, 'rb') as f:
                        B.fromfile(f)
                    c.out('short file accepted')
                    c.ev()
                    if dimg(B) != exp:
                        c.bad('C20:file:short:%s:no-exception' % T, 'fromfile from a file %s returned normally with '
                              'a partly filled matrix' % tag, sub)
                except Exception as e:
                    c.ev()
                    c.out('short file ' + type(e).__name__)
        c.asan('file:' + T, sub)
    finally:
        if os.path.exists(path):
            os.unlink(path)


def _run_file(case, c):
    """several matrices written one after the other into one file and read back in order (doc example)."""
    from cvxopt import matrix
    tc1, tc2, seed = case['tc1'], case['tc2'], case['seed']
    path = _tmpname('s')
    try:
        for (s1, s2) in itertools.product([(2, 3), (0, 2), (1, 1), (3, 1)], [(3, 2), (1, 0), (2, 2), (1, 3)]):
            v1 = R.dense_values(tc1, s1[0] * s1[1], seed)
            v2 = R.dense_values(tc2, s2[0] * s2[1], seed, shift=5)
            A1, A2 = mk(v1, s1, tc1), mk(v2, s2, tc2)
            with open(path, 'wb') as f:
                A1.tofile(f); A2.tofile(f); A1.tofile(f)
            B1, B2, B3 = matrix(R.convert(0, 'i', tc1), s1, tc1), matrix(R.convert(0, 'i', tc2), s2, tc2), \
                matrix(R.convert(0, 'i', tc1), (s1[1], s1[0]), tc1)
            with open(path, 'rb') as f:
                B1.fromfile(f); B2.fromfile(f); B3.fromfile(f)
                rest = f.read()
            sub = {'tc': [tc1, tc2], 'sizes': [s1, s2]}
            c.ev()
            cmp_dense(c, 'file:sequence:first-%s' % tc1, B1, R.dense_image(tc1, s1, v1), sub=sub)
            cmp_dense(c, 'file:sequence:second-%s-after-%s' % (tc2, tc1), B2, R.dense_image(tc2, s2, v2), sub=sub)
            cmp_dense(c, 'file:sequence:third-%s' % tc1, B3, R.dense_image(tc1, (s1[1], s1[0]), v1), sub=sub)
            if rest:
                c.bad('C20:file:sequence:unread-bytes', '%d bytes left after reading back all matrices' % len(rest), sub)
    finally:
        if os.path.exists(path):
            os.unlink(path)


def _run_file_large(case, c):
    """tofile / fromfile of matrices beyond the usual I/O block sizes (2^16 and 2^20 elements +- a few): every element,
    compared through the raw bytes of the buffer"""
    import io
    from cvxopt import matrix
    tc = case['tc']
    esz = {'i': 8, 'd': 8, 'z': 16}[tc]
    for N in (2 ** 16 - 1, 2 ** 16, 2 ** 16 + 3, 70000, 2 ** 17 + 1, 2 ** 20 + 5):
        if tc == 'i':
            A = matrix(list(range(7, 7 + N)), (N, 1), 'i')
        elif tc == 'd':
            A = matrix([0.25 * k - 3.0 for k in range(N)], (N, 1), 'd')
        else:
            A = matrix([complex(0.5 * k, -k) for k in range(N)], (N, 1), 'z')
        want = bytes(memoryview(A).cast('B'))
        for how in ('file', 'bytesio'):
            c.ev(True)
            B = matrix(0, (N, 1), tc)
            if how == 'file':
                path = _tmpname('L')
                try:
                    with open(path, 'wb') as f:
                        A.tofile(f)
                    size = os.path.getsize(path)
                    with open(path, 'rb') as f:
                        B.fromfile(f)
                finally:
                    if os.path.exists(path):
                        os.unlink(path)
            else:
                bio = io.BytesIO()
                A.tofile(bio)
                size = len(bio.getvalue())
                bio.seek(0)
                B.fromfile(bio)
            got = bytes(memoryview(B).cast('B'))
            sub = {'tc': tc, 'elements': N, 'via': how}
            if size != N * esz:
                c.bad('C20:file:large:%s:file-length' % tc, 'tofile wrote %d bytes for %d elements of %d bytes' % (size, N, esz), sub)
            elif got != want:
                k = next(i for i in range(N) if got[i * esz:(i + 1) * esz] != want[i * esz:(i + 1) * esz])
                c.bad('C20:file:large:dense-%s:values-differ' % tc, 'tofile + fromfile of %d elements: first difference at element %d '
                      '(wrote %r, read back %r)' % (N, k, A[k], B[k]), sub)
            if bytes(memoryview(A).cast('B')) != want:
                c.bad('C20:file:large:%s:source-modified' % tc, 'tofile changed the matrix', sub)


# --------------------------------------------------------------------- sparse round trips
def _pattern(idx, cells):
    p = []
    for _ in range(cells):
        p.append(idx % 3)
        idx //= 3
    return tuple(reversed(p))


def _run_sparse(case, c):
    import pickle, copy
    from cvxopt import matrix, spmatrix
    tc, m, n, seed = case['tc'], case['m'], case['n'], case['seed']
    T = 'sparse-' + tc
    for idx in range(case['lo'], case['hi']):
        pat = _pattern(idx, m * n)
        mod = R.sparse_model(tc, m, n, pat, seed)
        exp = R.sparse_image(mod)
        nnz = len(mod['I'])
        sub = {'tc': tc, 'size': [m, n], 'pattern': list(pat)}
        nt = nnz > 0

        def fresh():
            V = mk(mod['V'], (nnz, 1), tc) if nnz else []
            return spmatrix(V, mod['I'], mod['J'], (m, n), tc)

        S = fresh()
        c.ev(nt)
        if not cmp_sparse(c, 'construct:' + T, S, exp, sub):
            continue
        for p in range(6):
            U = pickle.loads(pickle.dumps(S, p))
            c.ev(nt)
            cmp_sparse(c, 'pickle:' + T, U, exp, dict(sub, protocol=p))
        for name, fn in (('copy', copy.copy), ('deepcopy', copy.deepcopy)):
            U = fn(S)
            c.ev(nt)
            cmp_sparse(c, '%s:%s' % (name, T), U, exp, sub)
        if simg(S) != exp:
            c.bad('C20:pickle:%s:source-modified' % T, 'pickling / copying changed the source', sub)
            S = fresh()
        # independence of copies (copy, deepcopy, pickle, +S, S[:,:])
        dense_vals = R.sparse_dense_values(mod)
        cps = [('copy', copy.copy(S), True), ('deepcopy', copy.deepcopy(S), True),
               ('pickle', pickle.loads(pickle.dumps(S, 4)), True), ('+x', +S, False), ('x[:,:]', S[:, :], False)]
        for name, U, _ in cps:
            if U is S:
                c.bad('C20:independent:%s:%s:same-object' % (name, T), '%s returned its argument' % name, sub)
        for name, U, exact in cps:
            if not exact:
                c.ev(nt)
                if tuple(U.size) != (m, n) or U.typecode != tc or not _num_eq(list(matrix(U)), dense_vals):
                    c.bad('C20:independent:%s:%s:value-differs' % (name, T), '%s differs numerically from S' % name, sub)
        cps = [t for t in cps if tuple(t[1].size) == (m, n)]      # a wrong size has been reported above
        if m * n:
            imgs = [simg(U) for _, U, _ in cps]
            w = _newvals(tc)[0]
            # overwrite a stored entry (in place) and a missing one (re-allocates the CCS arrays)
            tgt = [k for k in range(m * n) if pat[k] != 0][:1] + [k for k in range(m * n) if pat[k] == 0][:1]
            for k in tgt:
                S[k % m, k // m] = w
            c.ev(nt)
            for (name, U, _), im in zip(cps, imgs):
                if simg(U) != im:
                    c.bad('C20:independent:%s:%s:follows-source' % (name, T), 'writing S changed the result of ' + name, sub)
            s_img = simg(S)
            for name, U, _ in cps:
                for k in tgt:
                    U[k % m, k // m] = _newvals(tc)[1]
                if simg(S) != s_img:
                    c.bad('C20:independent:%s:%s:source-follows-copy' % (name, T),
                          'writing the result of %s changed S' % name, sub)
                    s_img = simg(S)
    c.asan(T)


HUGE_ROWS = [0, 3, 7, 2 ** 31 - 1, 2 ** 31, 2 ** 31 + 8, 2 ** 32 + 5, 2 ** 33 - 1]


def _run_sparse_huge(case, c):
    """sparse matrices with more than 2^31 rows and three stored entries per column (every 3-subset of HUGE_ROWS, given in
    every order): the compressed-column form keeps the row indices sorted, and pickle / copy / deepcopy / the triplet
    constructor reproduce I, J, V and the size exactly.  (Storage is proportional to the number of entries.)"""
    import pickle, copy, itertools
    from cvxopt import spmatrix
    tc = case['tc']
    m = 2 ** 33
    T = 'sparse-huge-' + tc
    val = (lambda k: float(k + 1)) if tc == 'd' else (lambda k: complex(k + 1, -k))
    for rows in itertools.combinations(HUGE_ROWS, 3):
        for perm in itertools.permutations(range(3)):
            for ncol in (1, 2):
                I = [rows[k] for k in perm] * ncol
                J = [j for j in range(ncol) for _ in range(3)]
                V = [val(rows.index(r) + 3 * j) for r, j in zip(I, J)]
                sub = {'tc': tc, 'size': [m, ncol], 'I': I, 'J': J}
                want = sorted(zip(J, I, V))
                c.ev(True)
                try:
                    S = spmatrix(V, I, J, (m, ncol), tc)
                except Exception as e:
                    c.bad('C20:construct:%s:exception:%s' % (T, type(e).__name__), 'spmatrix(V, I, J, (2^33, %d)) raised %r' % (ncol, e), sub)
                    continue

                def img(U):
                    return sorted(zip(list(U.J), list(U.I), list(U.V)))

                def ordered(U):
                    return [(j, i) for j, i in zip(list(U.J), list(U.I))] == sorted((j, i) for j, i in zip(list(U.J), list(U.I)))
                if tuple(S.size) != (m, ncol) or img(S) != want or not ordered(S):
                    c.bad('C20:construct:%s:triplets-differ' % T, 'spmatrix from triplets: I=%r J=%r V=%r, expected column-wise ascending %r'
                          % (list(S.I), list(S.J), list(S.V), want), sub)
                    continue
                for k in range(3):
                    if S[I[k], 0] != V[k]:
                        c.bad('C20:construct:%s:lookup' % T, 'S[%d, 0] = %r, stored %r' % (I[k], S[I[k], 0], V[k]), sub)
                copies = [('pickle%d' % p, pickle.loads(pickle.dumps(S, p))) for p in (0, 2, 5)] + \
                         [('copy', copy.copy(S)), ('deepcopy', copy.deepcopy(S)), ('+x', +S)]
                for name, U in copies:
                    c.ev(True)
                    if tuple(U.size) != (m, ncol) or U.typecode != tc or img(U) != want or not ordered(U) \
                            or [list(U.I), list(U.J), list(U.V)] != [list(S.I), list(S.J), list(S.V)]:
                        c.bad('C20:%s:%s:triplets-differ' % (name.rstrip('0123456789'), T),
                              '%s: I=%r J=%r V=%r, source I=%r J=%r V=%r' % (name, list(U.I), list(U.J), list(U.V), list(S.I), list(S.J), list(S.V)), sub)
    c.asan(T)


def _num_eq(a, b):
    if len(a) != len(b):
        return False
    for x, y in zip(a, b):
        if x != y and not (x != x and y != y):
            return False
    return True


# --------------------------------------------------------------------- buffer import
def _src_class(fmt):
    f = fmt.lstrip('@=<>')
    if f in ('f', 'd', 'e', 'g'):
        return 'd'
    if f in ('Zf', 'Zd', 'Zg'):
        return 'z'
    return 'i'


def _check_import(c, site, make, rows_or_list, ndim, fmt, sub, tcs=(None, 'i', 'd', 'z'), sizes=(None,), must=None):
    """make() -> fresh exporter.  rows_or_list: logical content (list for 1-D, list of rows for 2-D).
    Returns the outcome label of the tc=None import."""
    from cvxopt import matrix
    src = _src_class(fmt)
    if ndim == 1:
        n0 = len(rows_or_list)
        shape = (n0, 1)
        colvals = list(rows_or_list)
    else:
        r = len(rows_or_list[0]) if rows_or_list else 0
        shape = (len(rows_or_list), sub.get('ncols', r))
        colvals = R.colmajor(rows_or_list, shape[0], shape[1])
    must = (fmt in MUST_FORMATS) if must is None else must
    first = None
    for tcarg in tcs:
        for size in sizes:
            x = make()
            kw = {}
            if tcarg:
                kw['tc'] = tcarg
            if size:
                kw['size'] = size
            c.ev(len(colvals) > 0)
            s2 = dict(sub, tc_arg=tcarg, size_arg=size, format=fmt)
            try:
                M = matrix(x, **kw)
            except TypeError as e:
                lab = 'TypeError'
                up = tcarg is None or R.TCRANK[tcarg] >= R.TCRANK[src]
                if must and up and (size is None or size[0] * size[1] == len(colvals)):
                    c.bad('C20:%s:rejected' % site, 'matrix(x) refused a buffer of format %r: %s' % (fmt, e), s2)
            except Exception as e:
                lab = type(e).__name__
                c.bad('C20:%s:wrong-exception' % site, 'matrix(x) raised %s: %s' % (type(e).__name__, e), s2)
            else:
                lab = 'accepted'
                tc = tcarg or src
                try:
                    want = [R.convert(v, src, tc) for v in colvals]
                    exact = all(w == v or (v != v) for w, v in zip(want, colvals))
                except (TypeError, ValueError, OverflowError):
                    want, exact = None, False
                if R.TCRANK[tc] < R.TCRANK[src] and not exact:
                    c.bad('C20:%s:lossy-down-conversion' % site, 'matrix(x, tc=%r) accepted %r data' % (tc, src), s2)
                elif want is None or (tc == 'i' and any(not -2 ** 63 <= w < 2 ** 63 for w in want)):
                    c.bad('C20:%s:accepted-unrepresentable' % site, 'format %r accepted but values do not fit' % fmt, s2)
                else:
                    cmp_dense(c, site, M, R.dense_image(tc, size or shape, want), sub=s2)
            if first is None:
                first = lab
            c.out('import %s %s' % (fmt if len(fmt) < 4 else fmt[:4], lab))
            del x
    return first


def _array_data(code):
    import array
    if code == 'u':
        return ['a', 'b', 'c', 'd']
    if code in 'fd':
        return [-0.0, 1.5, -2.25, 1024.0]
    bits = 8 * array.array(code).itemsize
    if code.islower():
        return [-2 ** (bits - 1), 2 ** (bits - 1) - 1, 0, -3]
    return [2 ** bits - 1, 2 ** (bits - 1), 0, 3]


def _run_imp_array(case, c):
    import array
    from cvxopt import matrix
    code = case['code']
    data = _array_data(code)
    fmt = 'w' if code == 'u' else code
    site = 'import:array-' + code
    for n in range(5):
        d = data[:n]
        sub = {'array': code, 'len': n}
        sizes = [None, (n, 1), (1, n)] + ([(2, 2)] if n == 4 else [])
        if code == 'u':
            x = array.array('u', ''.join(d))
            try:
                M = matrix(x)
                c.bad('C20:%s:accepted-unrepresentable' % site, 'array("u") accepted', sub)
            except Exception:
                c.out('import u refused')
            c.ev()
            continue
        _check_import(c, site, lambda: array.array(code, d), d, 1, fmt, sub, sizes=sizes)
        # the exporter is released and unchanged; the matrix is independent of it
        x = array.array(code, d)
        try:
            M = matrix(x)
        except TypeError:
            M = None
        c.ev(n > 0)
        try:
            x.append(d[0] if d else data[0])
        except BufferError as e:
            c.bad('C20:%s:export-not-released' % site, 'array cannot be resized after matrix(x): %s' % e, sub)
        else:
            if list(x)[:n] != d:
                c.bad('C20:%s:source-modified' % site, 'matrix(x) changed x', sub)
            if M is not None and n:
                im = dimg(M)
                x[0] = data[2]
                if dimg(M) != im:
                    c.bad('C20:%s:follows-source' % site, 'matrix(x) changes when x is written', sub)
        c.asan(site, sub)


def _mv_data(fmt):
    f = fmt.lstrip('@')
    if f == 'c':
        return [b'a', b'b', b'c', b'd', b'e', b'f', b'g', b'h', b'i']
    if f == '?':
        return [True, False, True, True, False, True, False, False, True]
    if f in 'fd':
        return [-0.0, 1.5, -2.25, 1024.0, 0.5, -8.0, 3.0, 0.25, -1.0]
    bits = 8 * struct.calcsize(f)
    if f in 'bhilqn':
        return [-2 ** (bits - 1), 2 ** (bits - 1) - 1, 0, -3, 5, -7, 11, 13, -17]
    return [2 ** bits - 1, 2 ** (bits - 1), 0, 3, 5, 7, 11, 13, 17]


def _run_imp_mv(case, c):
    fmt = case['fmt']
    f = fmt.lstrip('@')
    data = _mv_data(fmt)
    site = 'import:memoryview-' + fmt
    isz = struct.calcsize(f)

    def logical(vs):
        if f == 'c':
            return None
        return [int(v) if f == '?' else v for v in vs]

    def rawof(vs):
        return struct.pack('%d%s' % (len(vs), f), *vs)

    def released(mv, sub, tag):
        try:
            mv.release()
        except BufferError as e:
            c.bad('C20:import:export-not-released:%s' % tag, 'after matrix(x) the memoryview cannot be released: %s'
                  % e, dict(sub, format=fmt))

    for holder in (bytes, bytearray):
        hn = holder.__name__
        # 1-D
        for n in range(5):
            vs = data[:n]
            lg = logical(vs)
            if n == 0 and holder is bytes:
                continue
            keep = []

            def make():
                mv = memoryview(holder(rawof(vs))).cast(fmt) if n else memoryview(holder(b'')).cast(fmt)
                keep.append(mv)
                return mv
            sub = {'holder': hn, 'ndim': 1, 'len': n}
            if lg is None:
                _must_refuse(c, site, make, sub)
            else:
                _check_import(c, site, make, lg, 1, fmt, sub, sizes=(None, (1, n)))
            for mv in keep:
                released(mv, sub, 'ndim-1')
        # 1-D strided
        for tag, sl in (('step2', slice(None, None, 2)), ('rev', slice(None, None, -1)), ('off', slice(1, None))):
            vs = data[:5]
            lg = logical(vs)
            keep = []

            def make():
                mv = memoryview(holder(rawof(vs))).cast(fmt)[sl]
                keep.append(mv)
                return mv
            sub = {'holder': hn, 'ndim': 1, 'layout': tag}
            if lg is None:
                _must_refuse(c, site, make, sub)
            else:
                _check_import(c, site, make, lg[sl], 1, fmt, sub, tcs=(None, 'z'))
            for mv in keep:
                released(mv, sub, 'ndim-1')
        # 2-D (C-contiguous casts)
        for r in (1, 2, 3):
            for cc in (1, 2, 3):
                vs = data[:r * cc]
                lg = logical(vs)
                keep = []

                def make():
                    mv = memoryview(holder(rawof(vs))).cast('B').cast(fmt, shape=[r, cc])
                    keep.append(mv)
                    return mv
                sub = {'holder': hn, 'ndim': 2, 'shape': [r, cc]}
                if lg is None:
                    _must_refuse(c, site, make, sub)
                else:
                    _check_import(c, site, make, R.nested(lg, r, cc), 2, fmt, sub)
                for mv in keep:
                    released(mv, sub, 'ndim-2')
        # 3-D: not a matrix
        vs = data[:4]
        mv = memoryview(holder(rawof(vs))).cast('B').cast(fmt, shape=[1, 2, 2])
        sub = {'holder': hn, 'ndim': 3}
        _must_refuse(c, site, lambda: mv, sub)
        released(mv, sub, 'ndim-3')
    # the raw holders themselves (format 'B')
    if fmt == 'B':
        for holder in (bytes, bytearray):
            for n in range(4):
                vs = data[:n]
                sub = {'holder': holder.__name__, 'raw': True, 'len': n}
                _check_import(c, 'import:' + holder.__name__, lambda: holder(rawof(vs)), list(vs), 1, 'B', sub)
                if holder is bytearray:
                    x = bytearray(rawof(vs))
                    from cvxopt import matrix
                    try:
                        matrix(x)
                    except TypeError:
                        pass
                    try:
                        x.append(1)
                    except BufferError as e:
                        c.bad('C20:import:bytearray:export-not-released', 'bytearray cannot be resized after matrix(x)', sub)
    c.asan(site)


def _must_refuse(c, site, make, sub):
    from cvxopt import matrix
    x = make()
    c.ev()
    try:
        M = matrix(x)
    except Exception as e:
        c.out('refused ' + type(e).__name__)
        return
    c.bad('C20:%s:accepted-not-a-matrix' % site, 'matrix(x) accepted a buffer that is not a 1-D/2-D numeric array: '
          'got %r matrix of size %r' % (M.typecode, M.size), sub)


def _np_values(dt, count, seed):
    """python values exactly representable in dtype dt, bitwise distinct where the type allows."""
    import numpy
    kind = numpy.dtype(dt).kind
    bits = 8 * numpy.dtype(dt).itemsize
    if kind == 'b':
        pal = [True, False, True, True, False, False, True, False, True, True, False, True]
    elif kind == 'i':
        pal = [-2 ** (bits - 1), 2 ** (bits - 1) - 1, 0, -3, 5, -7, 11, 13, -17, 19, 23, -29]
    elif kind == 'u':
        pal = [2 ** bits - 1, 2 ** (bits - 1), 0, 3, 5, 7, 11, 13, 17, 19, 23, 29]
    elif kind == 'f':
        if dt in ('float64', '>f8'):
            pal = R.DBL_PAL[:12]
        else:
            pal = [-0.0, 1.5, -2.25, 0.5, float('inf'), 3.0, -7.0, 0.25, 100.0, -0.125, 8.0, float('-inf')]
    else:
        if dt in ('complex128', '>c16'):
            pal = R.CPX_PAL[:12]
        else:
            pal = [complex(1.5, -2.25), complex(-0.0, -0.0), complex(0.0, 1.0), complex(-3.5, 0.5), complex(2.0, 0.0),
                   complex(float('inf'), -1.0), complex(-0.0, 3.0), complex(7.0, 7.0), complex(0.25, -8.0),
                   complex(100.0, 0.5), complex(-1.0, -1.0), complex(6.0, 0.125)]
    off = (3 * seed) % len(pal)
    return [pal[(off + k) % len(pal)] for k in range(count)]


def _np_fmt(dt):
    import numpy
    return memoryview(numpy.zeros(1, dtype=dt)).format


def _np_build(dt, layout, r, cc, seed):
    """returns (numpy array with logical shape (r, cc), expected rows as python lists, base array to mutate)."""
    import numpy

    def base(R_, C_, shift=0):
        vs = _np_values(dt, 12, seed)
        flat = [vs[(k + shift) % 12] for k in range(R_ * C_)]
        a = numpy.array(flat, dtype=dt).reshape(R_, C_) if R_ * C_ else numpy.zeros((R_, C_), dtype=dt)
        if dt.startswith('>') and a.dtype.str[0] != '>':
            a = a.astype(dt)
        return a, R.nested(flat, R_, C_)

    if layout in ('C', 'ro'):
        a, rows = base(r, cc)
        b = a
        if layout == 'ro':
            a = a.view(); a.flags.writeable = False
        return a, rows, b
    if layout in ('F', 'roF'):
        b, rows = base(r, cc)
        a = numpy.asfortranarray(b)
        if r * cc and r > 1 and cc > 1:
            assert a.strides[0] == a.itemsize
        b = a
        if layout == 'roF':
            a = a.view(); a.flags.writeable = False
        return a, rows, b
    if layout == 'T':
        b, rows = base(cc, r)
        return b.T, R.t_transpose(rows) if cc else [[] for _ in range(r)], b
    if layout == 'rows2':
        b, rows = base(2 * r, cc)
        return b[::2], rows[::2], b
    if layout == 'cols2':
        b, rows = base(r, 2 * cc)
        return b[:, ::2], [row[::2] for row in rows], b
    if layout == 'rev0':
        b, rows = base(r, cc)
        return b[::-1], rows[::-1], b
    if layout == 'rev1':
        b, rows = base(r, cc)
        return b[:, ::-1], [row[::-1] for row in rows], b
    if layout == 'rev01':
        b, rows = base(r, cc)
        return b[::-1, ::-1], [row[::-1] for row in rows[::-1]], b
    if layout == 'off':
        b, rows = base(r + 1, cc + 1)
        return b[1:, 1:], [row[1:] for row in rows[1:]], b
    if layout == 'offF':
        b, rows = base(r + 1, cc + 1)
        b = numpy.asfortranarray(b)
        return b[1:, :-1], [row[:-1] for row in rows[1:]], b
    if layout == 'bc0':
        b, rows = base(1, cc)
        return numpy.broadcast_to(b, (r, cc)), [list(rows[0]) for _ in range(r)], b
    if layout == 'bc1':
        b, rows = base(r, 1)
        return numpy.broadcast_to(b, (r, cc)), [[row[0]] * cc for row in rows], b
    raise AssertionError(layout)


def _run_imp_np(case, c):
    import numpy
    from cvxopt import matrix
    dt, seed = case['dtype'], case['seed']
    try:
        numpy.dtype(dt)
    except TypeError:
        c.out('dtype unavailable')
        return
    fmt = _np_fmt(dt)
    site = 'import:numpy-' + dt
    # 2-D
    for r in range(4):
        for cc in range(4):
            for layout in NP_LAYOUTS2:
                a, rows, b = _np_build(dt, layout, r, cc, seed)
                assert a.shape == (r, cc), (layout, a.shape, r, cc)
                sub = {'dtype': dt, 'layout': layout, 'shape': [r, cc], 'strides': list(a.strides), 'ncols': cc}
                before = a.tobytes()
                rc0 = sys.getrefcount(a)
                lab = _check_import(c, site + ':2d-' + _lclass(layout), lambda: a, rows, 2, fmt, sub)
                if sys.getrefcount(a) != rc0:
                    c.bad('C20:import:export-not-released:ndim-2', 'matrix(x) leaks a reference to the array', sub)
                if a.tobytes() != before:
                    c.bad('C20:%s:source-modified' % site, 'matrix(x) changed the array', sub)
                if lab == 'accepted' and r * cc and layout in ('C', 'F', 'T', 'off'):
                    M = matrix(a)
                    im = dimg(M)
                    with numpy.errstate(all='ignore'):
                        b[...] = (b[::-1, ::-1] + b.dtype.type(1)) if b.dtype.kind != 'b' else ~b
                    c.ev()
                    if dimg(M) != im:
                        c.bad('C20:%s:follows-source' % site, 'matrix(x) changes when the array is written', sub)
        c.asan(site, {'dtype': dt, 'rows': r})
    # 1-D
    for n in range(5):
        for layout in NP_LAYOUTS1:
            vs = _np_values(dt, 12, seed)
            if layout in ('C', 'ro'):
                a = numpy.array(vs[:n], dtype=dt); lg = vs[:n]
                if layout == 'ro':
                    a.flags.writeable = False
            elif layout == 'step2':
                a = numpy.array(vs[:2 * n], dtype=dt)[::2]; lg = vs[:2 * n][::2]
            elif layout == 'rev':
                a = numpy.array(vs[:n], dtype=dt)[::-1]; lg = vs[:n][::-1]
            elif layout == 'bc':
                a = numpy.broadcast_to(numpy.array(vs[1], dtype=dt), (n,)); lg = [vs[1]] * n
            else:
                a = numpy.array(vs[:n + 2], dtype=dt)[2:]; lg = vs[2:n + 2]
            sub = {'dtype': dt, 'layout': layout, 'len': n, 'strides': list(a.strides)}
            rc0 = sys.getrefcount(a)
            _check_import(c, site + ':1d', lambda: a, lg, 1, fmt, sub, sizes=(None, (1, n)))
            if sys.getrefcount(a) != rc0:
                c.bad('C20:import:export-not-released:ndim-1', 'matrix(x) leaks a reference to the array', sub)
    # 0-d and 3-D
    vs = _np_values(dt, 12, seed)
    a = numpy.array(vs[1], dtype=dt)
    sub = {'dtype': dt, 'ndim': 0}
    rc0 = sys.getrefcount(a)
    c.ev()
    try:
        M = matrix(a)
    except TypeError:
        c.out('0-d refused')
    except Exception as e:
        c.bad('C20:%s:wrong-exception' % site, '0-d array: %s' % type(e).__name__, sub)
    else:
        src = _src_class(fmt)
        cmp_dense(c, site + ':0d', M, R.dense_image(src, (1, 1), [R.convert(vs[1], src, src)]), sub=sub)
    if sys.getrefcount(a) != rc0:
        c.bad('C20:import:export-not-released:ndim-0', 'matrix(x) on a 0-d array leaks the buffer export '
              '(reference count %d -> %d)' % (rc0, sys.getrefcount(a)), sub)
    a = numpy.array(vs[:4], dtype=dt).reshape(1, 2, 2)
    rc0 = sys.getrefcount(a)
    _must_refuse(c, site, lambda: a, {'dtype': dt, 'ndim': 3})
    if sys.getrefcount(a) != rc0:
        c.bad('C20:import:export-not-released:ndim-3', 'matrix(x) on a 3-D array leaks the buffer export '
              '(reference count %d -> %d)' % (rc0, sys.getrefcount(a)), {'dtype': dt, 'ndim': 3})
    c.asan(site)


def _lclass(layout):
    return {'C': 'c-order', 'ro': 'c-order', 'F': 'f-order', 'roF': 'f-order', 'T': 'transposed'}.get(layout, 'strided')


# ===================================================================== hist part
def _aname(a):
    if a is None:
        return 'root'
    k = a[0]
    if k == 'iop':
        return 'A' + a[1]
    if k == 'size':
        return 'size=%dx%d' % tuple(a[1])
    if k in ('rel',):
        return 'release%d' % a[1]
    if k == 'wmat':
        return 'A[%d]=v' % a[1]
    if k == 'wview':
        return 'view%d[%d]=v' % (a[1], a[2])
    return {'mv': 'memoryview', 'np': 'numpy-view', 'del': 'del', 'gc': 'gc'}[k]


class _Impl(object):
    """the real objects of one replay."""
    __slots__ = ('A', 'views', 'base', 'tc')


def _h_start(tc):
    im = _Impl()
    im.tc = tc
    im.A = mk(R.HIST_INIT[tc], (2, 2), tc)
    im.views = [None, None]
    im.base = addr(im.A)
    return im


def _free(views):
    for k, v in enumerate(views):
        if v is None:
            return k
    raise AssertionError('no free view slot')


def _h_step(im, a):
    """execute action a on the real objects; returns 'ok' | 'raise:<Type>' | 'new'."""
    import numpy
    k = a[0]
    if k == 'mv':
        im.views[_free(im.views)] = memoryview(im.A)
        return 'ok'
    if k == 'np':
        im.views[_free(im.views)] = numpy.asarray(im.A)
        return 'ok'
    if k == 'rel':
        v = im.views[a[1]]
        im.views[a[1]] = None
        if isinstance(v, memoryview):
            v.release()
        del v
        return 'ok'
    if k == 'wmat':
        im.A[a[1]] = R.HIST_WVAL[im.tc][a[2]]
        return 'ok'
    if k == 'wview':
        v = im.views[a[1]]
        w = R.HIST_WVAL[im.tc][a[3]]
        if isinstance(v, memoryview):
            idx = R.view_index(v.shape, a[2])
            if im.tc == 'z':
                t = numpy.asarray(v); t[idx] = w; del t
            else:
                v[idx] = w
        else:
            v[R.view_index(v.shape, a[2])] = w
        return 'ok'
    if k == 'iop':
        A = im.A
        r = _do_iop(A, a[1])
        return r
    if k == 'size':
        im.A.size = tuple(a[1])
        return 'ok'
    if k == 'del':
        im.A = None
        return 'ok'
    if k == 'gc':
        gc.collect()
        return 'ok'
    raise AssertionError(a)


def _h_observe(im):
    """complete observable state of the implementation, addresses normalised to 'same as at creation'."""
    import numpy
    if im.A is not None:
        A = im.A
        ad = addr(A)
        ma = ('A', A.typecode, tuple(A.size), dimg(A)[3], ad == im.base)
    else:
        ma = None
    vs = []
    for v in im.views:
        if v is None:
            vs.append(None)
        elif isinstance(v, memoryview):
            t = numpy.asarray(v)
            p = t.__array_interface__['data'][0]
            del t
            vs.append(('mv', tuple(v.shape), tuple(v.strides), v.format, v.itemsize, v.readonly, v.ndim,
                       v.tobytes(order='F'), p == im.base))
        else:
            vs.append(('np', tuple(v.shape), tuple(v.strides), v.dtype.str, v.itemsize, not v.flags.writeable, v.ndim,
                       v.tobytes(order='F'), v.__array_interface__['data'][0] == im.base))
    return (ma, tuple(vs))


def _h_check(c, mod, obs, last, trace, tc):
    """invariants of one state; returns False if any is violated."""
    ok = True
    tr = [_aname(x) for x in trace]
    sub = {'tc': tc, 'trace': tr}
    site = 'hist:%s:%s' % (tc, _aname(last))
    want_bytes = R.pack(mod.tc, mod.vals)
    want_vals = mod.vals
    ma, vs = obs
    live = any(v is not None for v in mod.views)
    if mod.alive:
        if ma is None:
            raise AssertionError('harness: matrix missing')
        if ma[1] != mod.tc:
            c.bad('C20:%s:typecode-changed' % site, 'matrix typecode is %r, model says %r after %s' % (ma[1], mod.tc, tr), sub)
            ok = False
        elif ma[2] != mod.size:
            c.bad('C20:%s:size-wrong' % site, 'matrix size %r, model %r' % (ma[2], mod.size), sub)
            ok = False
        elif not _num_eq(R.unpack(mod.tc, ma[3]), want_vals):
            c.bad('C20:%s:matrix-values-wrong' % site, 'matrix holds %r, model %r after %s'
                  % (R.unpack(mod.tc, ma[3]), want_vals, tr), sub)
            ok = False
        if live and not ma[4]:
            c.bad('C20:%s:buffer-moved-while-exported' % site,
                  'the buffer address of the matrix changed while a view is live (%s)' % tr, sub)
            ok = False
    for k, (mv_, ov) in enumerate(zip(mod.views, vs)):
        if (mv_ is None) != (ov is None):
            raise AssertionError('harness: view bookkeeping')
        if mv_ is None:
            continue
        fmt = mv_['format'] if ov[0] == 'mv' else R.NPDT[mod.tc]
        if ov[1] != mv_['shape'] or ov[3] != fmt or ov[4] != mv_['itemsize'] or ov[5] or ov[6] != 2:
            c.bad('C20:%s:view-attributes-changed' % site,
                  'view %d has shape %r format %r itemsize %r readonly %r, created with %r %r'
                  % (k, ov[1], ov[3], ov[4], ov[5], mv_['shape'], fmt), sub)
            ok = False
        elif any(mv_['shape'][d] > 1 and ov[2][d] != mv_['strides'][d] for d in (0, 1)):
            c.bad('C20:%s:view-strides-changed' % site, 'view %d strides %r, created with %r' % (k, ov[2], mv_['strides']), sub)
            ok = False
        else:
            got = R.unpack(mod.tc, ov[7]) if len(ov[7]) == len(want_bytes) else None
            if got is None or not _num_eq(got, want_vals):
                c.bad('C20:%s:view-shows-stale-contents%s' % (site, '' if mod.alive else '-after-del'),
                      'view %d shows %r, the matrix holds %r (%s)' % (k, got, want_vals, tr), sub)
                ok = False
            elif mod.alive and ma is not None and ov[7] != ma[3]:
                c.bad('C20:%s:view-bytes-differ-from-matrix' % site, 'view %d bytes differ from the matrix bytes' % k, sub)
                ok = False
        if not ov[8]:
            c.bad('C20:%s:view-address-changed' % site, 'view %d does not point at the matrix buffer' % k, sub)
            ok = False
    # differential: the state reached through the history equals a matrix built from scratch
    if ok and mod.alive:
        F = mk(mod.vals, mod.size, mod.tc)
        if not _num_eq(R.unpack(mod.tc, dimg(F)[3]), R.unpack(mod.tc, ma[3])) or F.typecode != ma[1] or tuple(F.size) != ma[2]:
            c.bad('C20:%s:differs-from-scratch' % site, 'history state differs from a freshly built matrix', sub)
            ok = False
    return ok


def _h_replay(c, tc, trace, counters):
    """replay `trace` on fresh objects, lock-step with the model.  Checks the outcome of every step and the
    invariants of the final state.  returns (model, canonical key, ok)."""
    mod = R.HModel(tc)
    im = _h_start(tc)
    ok = True
    last = None
    for i, a in enumerate(trace):
        last = a
        before = _h_observe(im) if (a[0] == 'iop' and i == len(trace) - 1) else None
        want = mod.apply(a)
        got = _h_step(im, a)
        counters['steps'] += 1
        if i == len(trace) - 1:
            site = 'hist:%s:%s' % (tc, _aname(a))
            sub = {'tc': tc, 'trace': [_aname(x) for x in trace]}
            if got == 'new':
                c.bad('C20:%s:new-object' % site, 'in-place operator rebound the name', sub)
                ok = False
            elif want == 'raise' and got == 'ok':
                c.bad('C20:%s:not-refused' % site,
                      '%s on a %r matrix is documented as not allowed (it would change the type) but was executed; '
                      'typecode now %r' % (_aname(a), tc, im.A.typecode), sub)
                ok = False
            elif want == 'ok' and got != 'ok':
                c.bad('C20:%s:refused' % site, '%s raised %s' % (_aname(a), got), sub)
                ok = False
            elif want == 'raise' and before is not None:
                after = _h_observe(im)
                if after != before:
                    c.bad('C20:%s:raised-but-modified' % site,
                          '%s raised %s but the matrix / view bytes changed (buffer freed?)' % (_aname(a), got), sub)
                    ok = False
            c.out('%s -> %s' % (_aname(a), got))
    obs = _h_observe(im)
    if ok:
        ok = _h_check(c, mod, obs, last, trace, tc)
    elif obs[0] is not None and not obs[0][4] and any(v is not None for v in mod.views):
        c.bad('C20:hist:%s:%s:buffer-moved-while-exported' % (tc, _aname(last)),
              'the buffer address of the matrix changed while a view is live (%s): the view points at freed memory'
              % [_aname(x) for x in trace], {'tc': tc, 'trace': [_aname(x) for x in trace]})
    if c.asan('hist:%s:%s' % (tc, _aname(last)), {'tc': tc, 'trace': [_aname(x) for x in trace]}):
        ok = False
    if not ok:
        _GRAVE.append(im)
    else:
        # orderly teardown: release views first or last alternately is part of the alphabet; here just drop
        for k in range(len(im.views)):
            v = im.views[k]
            im.views[k] = None
            if isinstance(v, memoryview):
                v.release()
            del v
        im.A = None
    return mod, (mod.key(), obs), ok


_frozen = [False]


def _run_hist(case, c):
    tc, first, depth = case['tc'], case['first'], case['depth']
    if not _frozen[0]:
        gc.collect()
        gc.freeze()          # gc.collect() in the alphabet then only scans objects created by the histories
        _frozen[0] = True
    counters = {'steps': 0}
    root = R.HModel(tc)
    if first is None:
        start = ()
    else:
        start = (root.enabled(H_ALPHABET)[first],)
    seen = {}
    states = transitions = traces = 0
    mod, key, ok = _h_replay(c, tc, list(start), counters)
    traces += 1
    transitions += len(start)
    c.ev(False)
    seen[key] = start
    states = 1
    frontier = [start] if ok else []
    d = len(start)
    while frontier and d < depth:
        nxt = []
        for tr in frontier:
            m0 = R.HModel(tc)
            for a in tr:
                m0.apply(a)
            for a in m0.enabled(H_ALPHABET):
                t2 = tr + (a,)
                mod, key, ok = _h_replay(c, tc, list(t2), counters)
                transitions += 1
                traces += 1
                c.ev(any(v is not None for v in mod.views))
                if key not in seen:
                    seen[key] = t2
                    states += 1
                    if ok:
                        nxt.append(t2)
        frontier = nxt
        d += 1
    c.asan('hist:%s' % tc)
    return c.result(states=states, transitions=transitions, traces=traces,
                    extra={'hist_steps_executed': counters['steps']})
