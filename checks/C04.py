"""C04 - 'optimal' from cpl/cp/gp satisfies the nonlinear KKT conditions in-domain."""
from mc import dom, solve, nlsolve, qpsolve
from mc.ref import cone as R

PROPERTY = 'C04'
LEVEL = 'exploration'
ENGINE = 'bex'
FLAVOURS = ('plain',)
RULE = ('a library of smooth convex problems with enumerated integer/dyadic data (quadratic objective, analytic '
        'centering with start points at distances 1, 1/4, 2^-6, 2^-20 from the domain boundary, entropy on the simplex, '
        'log-sum-exp through gp and through cp, ball and exp-cone constraints through cpl, a log constraint with '
        'restricted domain), each without and with planted linear cone constraints of every block kind and with/without '
        'an equality constraint, under every configuration (kktsolver names of the entry point x dense/sparse Df,H x '
        'dense/sparse G,A x refinement 0/1/2 x tolerance sets x None-vs-(None,None) domain answers x junk in unreferenced '
        'triangles); on optimal the KKT conditions are re-evaluated independently at the returned x; cp on a quadratic is '
        'compared with coneqp, gp with cp, the ball problem with its closed-form optimum; non-trivial = solves ending optimal')
ASSUME = ['the smooth functions are problem data shared by the solver callback and the oracle',
          'for cp/gp the accuracy fields are those of the internal epigraph problem, so they are only required to bound '
          'the values recomputed from the returned pieces from above',
          "normaliser 'G*x0 + 1 - h' of the documentation is read with 1 = the identity element e of the cone"]
BOUNDS = {'quick': '44 base problems x (no cone + 4 cone structures x 1 variant) x p in {0,1}; ~30 configurations each',
          'thorough': '44 base problems x 3 seeds of data x (no cone + 9 cone structures x 2 variants) x p in {0,1}; ~60 configurations each'}
TECHNIQUE = 'bounded exhaustive enumeration of problem library x configurations; KKT conditions recomputed independently at the returned point'

LOOSE = {'feastol': 1e-3, 'abstol': 1e-2, 'reltol': 1e-2}
CONES_Q = [{'l': 2, 'q': [], 's': []}, {'l': 0, 'q': [3], 's': []}, {'l': 0, 'q': [], 's': [2]}, {'l': 1, 'q': [2], 's': [2]},
           {'l': 0, 'q': [], 's': [2, 2]}]
CONES_T = CONES_Q + [{'l': 1, 'q': [1], 's': [0]}, {'l': 0, 'q': [2, 2], 's': []}, {'l': 0, 'q': [], 's': [1, 2]},
                     {'l': 3, 'q': [], 's': []}, {'l': 0, 'q': [], 's': [3]}]


def configs(prob, tier):
    d = prob['dims']
    only_l = not d['q'] and not d['s']
    entry = prob['entry']
    if entry == 'cpl':
        kk = [None, 'ldl', 'ldl2', 'chol'] + (['chol2'] if only_l else [])
    else:
        kk = [None, 'ldl', 'chol'] + (['chol2'] if only_l else [])
    out = []
    for k in kk:
        for sp in (False, True):
            out.append({'kkt': k, 'sparse_df': sp, 'storage': 'sparse' if sp else 'dense'})
        out.append({'kkt': k, 'sparse_df': False, 'storage': 'sparse', 'opts': LOOSE})
        out.append({'kkt': k, 'sparse_df': True, 'storage': 'dense', 'opts': {'refinement': 0}})
    out.append({'kkt': None, 'opts': {'refinement': 2}})
    out.append({'kkt': 'ldl', 'opts': {'refinement': 0, 'feastol': 1e-5, 'abstol': 1e-4, 'reltol': 1e-4}, 'none_style': 1})
    out.append({'kkt': None, 'opts': {'abstol': -1.0, 'reltol': 1e-3, 'feastol': 1e-4}})
    out.append({'kkt': 'chol', 'opts': {'abstol': 1e-3, 'reltol': -1.0, 'feastol': 1e-4}, 'none_style': 1})
    out.append({'kkt': None, 'opts': {'maxiters': 3}})
    # tighter than the global defaults: an entry point that drops its per-call options falls short of these
    out.append({'kkt': None, 'opts': {'feastol': 1e-9, 'abstol': 1e-9, 'reltol': 1e-9}})
    # option sets that arrive through solvers.options (no options= keyword), one right behind a loose per-call call
    out.append({'kkt': None, 'via': 'global', 'opts': {'feastol': 1e-9, 'abstol': 1e-9, 'reltol': 1e-9}})
    out.append({'kkt': None, 'via': 'global', 'prelude': LOOSE, 'storage': 'sparse'})
    out.append({'kkt': None, 'poison': dict(LOOSE, maxiters=3)})
    out.append({'kkt': None, 'opts': {'abstol': 0.0, 'reltol': 1e-6}})
    # G and A given as Python functions together with a user KKT solver (cp wraps them once more for its epigraph form)
    if entry != 'gp':
        out.append({'kkt': None, 'operators': True})
        out.append({'kkt': None, 'operators': True, 'opts': {'refinement': 0}})
        out.append({'kkt': None, 'operators': True, 'opts': dict(LOOSE, refinement=2)})
    if d['s']:
        out.append({'kkt': None, 'junk': 55.0})
        out.append({'kkt': 'ldl', 'junk': -7.0, 'storage': 'sparse'})
    if tier == 'thorough':
        for k in kk:
            for rf in (0, 1, 2):
                out.append({'kkt': k, 'sparse_df': True, 'storage': 'sparse', 'opts': dict(LOOSE, refinement=rf), 'none_style': 1})
    if entry == 'gp':
        out = [c for c in out if not c.get('sparse_df') and c.get('junk') is None and not c.get('none_style')]
    return out


def cases(tier, seed, flavour):
    seeds = [seed] if tier == 'quick' else [seed, seed + 1, seed + 2]
    for sd in seeds:
        for i, pb in enumerate(nlsolve.base_problems(sd)):
            yield {'seed': sd, 'idx': i, 'tag': pb['tag'], 'cone': None, 'tier': tier}
            if pb['entry'] == 'gp':
                cones = [{'l': 2, 'q': [], 's': []}] + ([{'l': 3, 'q': [], 's': []}] if tier == 'thorough' else [])
            else:
                cones = CONES_Q if tier == 'quick' else CONES_T
            for d in cones:
                for v in range(1 if tier == 'quick' else 2):
                    for p in (0, 1):
                        if p and (pb.get('simplex') or len(pb['x0']) < 2):
                            continue
                        yield {'seed': sd, 'idx': i, 'tag': pb['tag'], 'cone': d, 'variant': v + sd, 'p': p, 'tier': tier}


def problem_of(case):
    pb = nlsolve.base_problems(case['seed'])[case['idx']]
    if case['cone'] is not None:
        A0, b0 = pb['A'], pb['b']
        pb = nlsolve.with_cone(pb, case['cone'], case['variant'], case.get('p', 0))
        if A0:
            pb['A'], pb['b'] = A0, b0
    return pb


def run(case):
    O = solve.Oracle(PROPERTY)
    pb = problem_of(case)
    outcomes = {}
    n_ev = nontriv = 0
    best = None
    for cfg in configs(pb, case.get('tier', 'quick')):
        res, rec = nlsolve.call(pb, cfg)
        n_ev += 1
        nv = len(O.viol)
        if isinstance(res, Exception):
            lab = 'exc:' + type(res).__name__
            if not isinstance(res, (ValueError,)):
                pass        # undocumented exceptions are judged by C05 / C10
        else:
            lab = str(res.get('status'))
            if lab == 'optimal':
                nontriv += 1
                o = nlsolve.check_optimal(O, pb, res, cfg, rec)
                nlsolve.check_calls(O, pb, rec)
                if o is not None and not (cfg.get('opts') or {}):
                    best = o
        for v in O.viol[nv:]:
            v['sub'] = {'problem': pb['tag'], 'cone': case['cone'], 'cfg': cfg, 'detail': v.get('sub')}
            v['key'] = v['key'] + '@' + pb['entry']
        outcomes[lab] = outcomes.get(lab, 0) + 1
    # cross-path agreements on the default configuration
    if best is not None:
        ref = _closed_form(pb)
        if ref is not None and abs(best['pcost'] - ref) > 1e-6 * max(1.0, abs(ref)):
            O.bad('agreement:%s-vs-reference@%s' % (pb['fam'], pb['entry']),
                  '%s optimal value %.10g but the reference optimum is %.10g' % (pb['tag'], best['pcost'], ref))
    return {'n': n_ev, 'nontrivial': nontriv, 'outcomes': outcomes, 'viol': O.viol, 'maxerr': O.maxerr}


def _closed_form(pb):
    """independent optimum where one is available: ball without extra constraints (closed form), quad (coneqp),
    gp data (the cp formulation of the same data)."""
    import math
    d = pb['dims']
    if pb['fam'] == 'ball' and R.cdim(d) == 0 and not pb['A']:
        return R.dot(pb['c'], pb['xc']) - pb['r'] * R.nrm2(pb['c'])
    if pb['fam'] == 'quad':
        inst = {'P': pb['P'], 'q': pb['q'], 'G': pb['G'], 'h': pb['h'], 'dims': d, 'A': pb['A'], 'b': pb['b']}
        res, _ = qpsolve.call(inst, {'entry': 'coneqp', 'storage': 'dense', 'kkt': None})
        if not isinstance(res, Exception) and res['status'] == 'optimal':
            return res['primal objective']
        return None
    if pb['fam'] == 'lse' and pb['entry'] == 'gp':
        pb2 = dict(pb); pb2['entry'] = 'cp'
        res, _ = nlsolve.call(pb2, {'kkt': None})
        if not isinstance(res, Exception) and res['status'] == 'optimal':
            v = nlsolve.feval(pb2, list(res['x']))
            return v[0][0] if v else None
    return None


def crash_key(case):
    return case['tag']
