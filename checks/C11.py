"""C11 - modeling expressions evaluate to what their formula says.

Bounded-exhaustive enumeration of expression trees over x (length 1), y (2), z (3) and a palette of constants;
every tree is built with the real cvxopt.modeling objects and compared with the plain-Python reference
mc/ref/model.py (length, value at every point of a grid, variables, acceptance / refusal, curvature honesty,
non-aliasing, None propagation).
"""
import os, itertools, operator
from fractions import Fraction as Fr
from mc.ref import model as R

PROPERTY = 'C11'
LEVEL = 'exploration'
ENGINE = 'bex'
FLAVOURS = ('plain',)
TECHNIQUE = 'bounded-exhaustive expression-tree enumeration against an exact reference evaluator'
RULE = ('trees over leaves x(1) y(2) z(3), 23 constants (int 2/-1/0, 2 floats, dense and sparse 1x1, columns, rows, '
        'm x n for m,n in {2,3}) and ops + - unary+- c*f f*c f/c [int] [slice] [list] [int matrix] sum dot max min '
        'abs max(one arg) and the in-place forms; depth(leaf)=1.  Families (one case = one family): d2 = every '
        'depth-2 tree; d3(g) = every depth-3 tree whose first depth-2 child is g (g ranges over all accepted '
        'depth-2 trees, the other operand over all leaves, constants and accepted depth-2 trees); inplace(g) = g '
        'followed by one in-place op with every operand kind; addterm(v,k1) = the _lin._addterm merge table: '
        'variable v with coefficient kind k1 (scalar/row/matrix, dense/sparse, + indexing forms) merged with '
        'every coefficient kind k2 under + - += -= with and without another variable fixing the length; '
        'd4 (thorough) = root ops over the depth-3 trees of the quick palette under a per-case node budget.  '
        'Each accepted tree: len, value at every point of {-1,0,2}^n (n<=6; n+4 basis points '
        'when reference and implementation agree the function is affine), variables(), claimed curvature '
        '(f<=0 / f>=0 accepted) must pass midpoint convexity/concavity/affinity on the implementation\'s own '
        'values, value None propagation, and the non-aliasing protocol (mutate result with += -= *= /= and '
        're-evaluate operands, and vice versa).  Each refused tree must raise.  non-trivial = tree accepted by '
        'the reference with at least one operation node, values compared')
ASSUME = ['where modeling.rst is silent or ambiguous nothing is demanded about acceptance (reference status "unspec"): '
          'sparse arguments of max/min/dot, sparse 1x1 factors of vectors, f/matrix, abs/dot of piecewise-linear '
          'functions, f*row (outer product), matrix*length-1 function, max(u) of a length-1 concave u, out-of-range '
          'and empty index sets, in-place operations on variables, affine f += piecewise-linear u; such trees are '
          'still built and, if accepted, their claimed curvature is checked on their own values',
          'variables(): only required to contain every variable the value provably depends on and nothing that does '
          'not occur in the formula (x - x, 0*x are left open)',
          'identity of the object returned by in-place operators is not checked',
          'any of TypeError / ValueError / NotImplementedError / IndexError counts as a refusal',
          'exact comparison for integer/dyadic data; 1e-12 relative when a divisor is not a power of two',
          'sparse-constant minus function is evaluated only in a forked child (spmatrix_sub can kill the '
          'interpreter); if the child dies those trees are skipped in-process and reported once',
          'a tree whose depth-2 (depth-3 in the d4 family) child already fails its own check is not examined further: '
          'the failure is reported once at the child (outcome skipped:child-already-fails)',
          'at most 2 reports per violation key and worker process are kept (the engine stops a worker after 200 '
          'violations); the outcome violating-trees counts all of them']
BOUNDS = {'quick': 'depth<=2 over the full constant palette (all trees); depth 3: first non-leaf child = every accepted '
                   'depth-2 tree over the reduced palette (int 2/-1/0, float, dense 1x1, dense col2/col3, sparse col3, '
                   'dense row2, sparse row3, dense 3x2, sparse 2x3, dense 2x2), every root op, other operand = every leaf, '
                   'every reduced-palette constant and the 27 representative depth-2 trees of quick_partners(); in-place '
                   'trailing op on every accepted depth-2 tree with every operand kind; addterm table complete; points '
                   '{-1,0,2}^n for n<=3 scalar components, for n in 4..6 the grid points with at most two non-zero '
                   'components; midpoint test on all pairs for <=9 points, else on the pairs of the n+4 basis points and '
                   'the axis lines through four of them',
          'thorough': 'depth<=3 over the full palette (all trees, all accepted depth-2 trees as partners), points '
                      '{-1,0,2}^n for n<=6, midpoint test on all pairs for <=27 points; depth 4 = 14 root ops and the '
                      'in-place trailing ops (one operand per kind) over every accepted quick-tier depth-3 tree, at most '
                      '4000 depth-4 roots per depth-2 family (budget and truncation reported in summary.depth4_*), '
                      'evaluated on the quick-tier grids'}

VARLEN = R.VARLEN
NAMES = ('x', 'y', 'z')
PAL = (-1, 0, 2)
D4_BUDGET = 4000
REFUSAL = (TypeError, ValueError, NotImplementedError, IndexError)
TOL = 1e-12


# ====================================================================== palettes
def _stream(seed, k, n, half=False):
    base = [2, -1, 3, 1, -2, 4, -3, 5, -4, 6, -5, 7]
    out = []
    for i in range(n):
        v = base[(seed * 5 + k * 3 + i) % len(base)]
        out.append(v / 2.0 if half else float(v))
    return out


def _dense(seed, k, r, c):
    return ['const', 'dense', [r, c], _stream(seed, k, r * c, half=(seed % 4) >= 2 and k % 2 == 1)]


def _sparse(seed, k, r, c):
    d = _stream(seed, k + 1, r * c, half=(seed % 4) >= 2 and k % 2 == 0)
    if r * c > 2:
        for j in range(c):
            for i in range(r):
                if (i + 2 * j + seed + k) % 3 == 0:
                    d[j * r + i] = 0.0
        if not any(d):
            d[0] = 1.0
    return ['const', 'sparse', [r, c], d]


_CONSTS = {}


def consts(seed):
    """name -> constant node; fixed shapes, values selected by seed from fixed palettes."""
    s = seed % 4
    if s in _CONSTS:
        return _CONSTS[s]
    K = {}
    K['i2'] = ['const', 'int', [1, 1], [2]]
    K['im1'] = ['const', 'int', [1, 1], [-1]]
    K['i0'] = ['const', 'int', [1, 1], [0]]
    K['fp'] = ['const', 'float', [1, 1], [(0.5, 1.5, 0.25, 4.0)[s]]]
    K['fn'] = ['const', 'float', [1, 1], [(-2.0, -0.5, -3.0, -1.5)[s]]]
    K['d11'] = ['const', 'dense', [1, 1], [(3.0, -4.0, 1.5, -0.25)[s]]]
    K['s11'] = ['const', 'sparse', [1, 1], [(-2.0, 2.0, -0.5, 4.0)[s]]]
    K['dcol2'] = _dense(s, 1, 2, 1)
    K['dcol3'] = _dense(s, 2, 3, 1)
    K['scol2'] = _sparse(s, 3, 2, 1)
    K['scol3'] = _sparse(s, 4, 3, 1)
    K['drow2'] = _dense(s, 5, 1, 2)
    K['drow3'] = _dense(s, 6, 1, 3)
    K['srow2'] = _sparse(s, 7, 1, 2)
    K['srow3'] = _sparse(s, 8, 1, 3)
    k = 9
    for m in (2, 3):
        for n in (2, 3):
            K['dm%d%d' % (m, n)] = _dense(s, k, m, n)
            K['sm%d%d' % (m, n)] = _sparse(s, k + 1, m, n)
            k += 2
    _CONSTS[s] = K
    return K


QUICK_K = ('i2', 'im1', 'i0', 'fp', 'd11', 'dcol2', 'dcol3', 'scol3', 'drow2', 'srow3', 'dm32', 'sm23', 'dm22')


def klist(seed, pal):
    K = consts(seed)
    names = list(K) if pal == 'full' else list(QUICK_K)
    return [K[n] for n in names]


LEAVES = [['var', 'x'], ['var', 'y'], ['var', 'z']]


def idx_palette(L):
    if L == 1:
        return [['int', 0], ['int', -1], ['list', [0, 0]], ['slice', None, None, None], ['imat', [0]], ['list', [-1, 0, -1]]]
    if L == 2:
        return [['int', 0], ['int', -1], ['int', 1], ['int', -2], ['slice', None, None, -1], ['slice', 1, None, None],
                ['list', [1, 0, 1]], ['imat', [-1, 0]], ['list', [-1]], ['list', [-2, -1, 0]], ['imat', [-1, -2, -1]]]
    return [['int', 1], ['int', -1], ['int', -L], ['slice', None, None, 2], ['slice', None, None, -1],
            ['slice', 1, None, None], ['list', [L - 1, 0]], ['list', [0, -1, -1]], ['imat', [1]], ['list', [-1]],
            ['list', [-L, 1]], ['imat', [-1, -2]]]


def _maxconsts(seed, pal):
    K = consts(seed)
    names = ['i2', 'i0', 'fn', 'd11', 'dcol2', 'dcol3'] if pal == 'full' else ['i0', 'fp', 'dcol2', 'dcol3']
    return [K[n] for n in names]


def _dotconsts(seed):
    K = consts(seed)
    return [K['d11'], K['dcol2'], K['dcol3']]


# ====================================================================== tree enumeration
def parents(g, ginfo, seed, pal, partners, left_only):
    """every tree whose root has g as its first non-leaf child.  `partners`: trees allowed as the other operand
    when g is the left operand (leaves, constants, accepted depth-2 trees); when g is the right operand the left
    one ranges over `left_only` (leaves and constants - a non-leaf left operand belongs to that operand's family)."""
    K = klist(seed, pal)
    for op in ('pos', 'neg', 'sum', 'abs', 'max1', 'min1'):
        yield [op, g]
    if ginfo is not None and ginfo.n:
        for i in idx_palette(ginfo.n):
            yield ['index', g, i]
    for c in K:
        yield ['mul', c, g]
        yield ['rmul', g, c]
        if not (len(c[3]) == 1 and c[3][0] == 0):
            yield ['div', g, c]
    for c in _dotconsts(seed):
        yield ['dot', c, g]
        yield ['dotr', g, c]
    mk = _maxconsts(seed, pal)
    for op in ('add', 'sub'):
        for b in partners:
            yield [op, g, b]
        for a in left_only:
            yield [op, a, g]
    for op in ('max', 'min'):
        for b in partners:
            if b[0] == 'const' and not any(b is m for m in mk):
                continue
            yield [op, g, b]
        for a in left_only:
            if a[0] == 'const' and not any(a is m for m in mk):
                continue
            yield [op, a, g]
        Kc = consts(seed)
        yield [op, g, LEAVES[0], Kc['i0']]
        yield [op, LEAVES[0], g, Kc['i2']]
        yield [op, Kc['fp'], LEAVES[1], g]


_T2 = {}


def depth2(seed, pal):
    """(all depth-2 trees, accepted ones with their Info) for a palette."""
    key = (seed % 4, pal)
    if key in _T2:
        return _T2[key]
    K = klist(seed, pal)
    trees = []
    memo = {}
    for li, g in enumerate(LEAVES):
        info = R.analyze(g, memo)
        # (leaf a, leaf g) pairs are produced in a's family as (g = a, partner)
        for t in parents(g, info, seed, pal, LEAVES + K, K):
            trees.append(t)
    seen = set()
    uniq = []
    for t in trees:
        k = repr(t)
        if k not in seen:
            seen.add(k)
            uniq.append(t)
    ok = [(t, R.analyze(t, memo)) for t in uniq]
    ok = [(t, i) for t, i in ok if i.status == 'ok']
    _T2[key] = (uniq, ok, memo)
    return _T2[key]


def quick_partners(seed):
    """the 27 representative depth-2 trees used as the other operand of binary roots in the quick tier."""
    K = consts(seed)
    x, y, z = LEAVES
    out = []
    for v in LEAVES:
        out += [['neg', v], ['sum', v], ['index', v, ['int', -1]], ['index', v, ['slice', None, None, -1]],
                ['abs', v], ['max1', v]]
    out += [['mul', K['drow2'], y], ['mul', K['sm23'], z], ['mul', K['dm32'], y], ['rmul', x, K['dcol3']]]
    out += [['add', x, y], ['sub', z, x], ['max', x, K['i0']], ['min', y, x], ['add', y, K['dcol2']]]
    return out


def family_d3(i, seed, pal):
    uniq, ok, memo = depth2(seed, pal)
    g, ginfo = ok[i]
    K = klist(seed, pal)
    if pal == 'full':
        partners = LEAVES + K + [t for t, _ in ok]
    else:
        partners = LEAVES + K + _QP(seed)
    return parents(g, ginfo, seed, pal, partners, LEAVES + K)


def d4_roots(h, hinfo, seed):
    K = consts(seed)
    x = LEAVES[0]
    yield ['neg', h]
    yield ['sum', h]
    yield ['max1', h]
    yield ['min1', h]
    yield ['abs', h]
    yield ['index', h, ['int', -1]]
    yield ['index', h, ['slice', None, None, -1]]
    yield ['mul', K['im1'], h]
    yield ['mul', {1: K['scol3'], 2: K['sm32'], 3: K['sm23']}[hinfo.n], h]
    yield ['add', h, x]
    yield ['sub', x, h]
    yield ['add', {1: K['dcol2'], 2: K['dcol2'], 3: K['dcol3']}[hinfo.n], h]
    yield ['max', h, K['i0']]
    yield ['min', x, h]


def inplace_operands(seed, pal):
    K = consts(seed)
    x, y, z = LEAVES
    fu = [['mul', K['i2'], x], ['neg', y], ['mul', K['dm32'], y], ['max', x, K['i0']], ['min', x, K['i0']],
          ['abs', y], ['min', z, K['i2']], ['sum', ['abs', z]]]
    if pal == 'full':
        return klist(seed, 'full') + LEAVES + fu
    return [K['i2'], K['dcol2'], K['dcol3'], K['scol3'], x, y, z, fu[0], fu[1], fu[3], fu[4]]


def inplace_family(g, seed, pal):
    ops = inplace_operands(seed, pal)
    for u in ops:
        yield ['iadd', g, u]
        yield ['isub', g, u]
    sc = klist(seed, 'full') if pal == 'full' else [consts(seed)[n] for n in ('i2', 'im1', 'i0', 'd11', 'dcol2')]
    for c in sc:
        yield ['imul', g, c]
        if not (R.ccode(c) in ('int', 'float', 'd11', 's11') and c[3][0] == 0):
            yield ['idiv', g, c]


# ---- the _addterm merge table
def coef_forms(v, seed):
    """(kind name, tree) : ways to make variable v appear with a given coefficient storage."""
    n = VARLEN[v]
    s = seed % 4
    V = ['var', v]

    def dn(k, r, c):
        return ['const', 'dense', [r, c], _stream(s + 1, k + 20, r * c)]

    def sp(k, r, c):
        t = _sparse(s + 1, k + 30, r, c)
        return t

    out = [('one', V), ('pos', ['pos', V]), ('neg', ['neg', V]),
           ('int', ['mul', ['const', 'int', [1, 1], [3]], V]),
           ('float', ['rmul', V, ['const', 'float', [1, 1], [-1.5]]]),
           ('d11', ['mul', ['const', 'dense', [1, 1], [2.5]], V])]
    if n == 1:
        out += [('s11', ['mul', ['const', 'sparse', [1, 1], [-3.0]], V])]
        for m in (2, 3):
            out += [('dcol%d' % m, ['mul', dn(m, m, 1), V]), ('scol%d' % m, ['mul', sp(m, m, 1), V]),
                    ('rcol%d' % m, ['rmul', V, dn(m + 2, m, 1)])]
    else:
        out += [('drow', ['mul', dn(1, 1, n), V]), ('srow', ['mul', sp(1, 1, n), V]),
                ('dot', ['dot', dn(2, n, 1), V]), ('sum', ['sum', V]),
                ('idx', ['index', V, ['int', -1]]), ('slice', ['index', V, ['slice', None, None, -1]]),
                ('sidx', ['index', ['mul', ['const', 'int', [1, 1], [2]], V], ['list', [n - 1, 0]]])]
        for m in (2, 3):
            out += [('dm%d' % m, ['mul', dn(m + 3, m, n), V]), ('sm%d' % m, ['mul', sp(m + 3, m, n), V])]
    return out


def addterm_family(v, k1, seed):
    forms = dict(coef_forms(v, seed))
    f1 = forms[k1]
    others = [['var', w] for w in NAMES if w != v]
    col = {2: ['const', 'dense', [2, 1], [1.0, -2.0]], 3: ['const', 'dense', [3, 1], [1.0, -2.0, 4.0]]}
    ctxs = [None] + others + [col[2], col[3]]
    for k2, f2 in coef_forms(v, seed):
        for ctx in ctxs:
            a = f1 if ctx is None else ['add', f1, ctx]
            yield ['add', a, f2]
            yield ['sub', a, f2]
            if a[0] != 'var':
                yield ['iadd', a, f2]
                yield ['isub', a, f2]
            if ctx is not None:
                yield ['add', ['add', ctx, f1], f2]
                yield ['sub', f2, ['add', f1, ctx]]


# ====================================================================== cases
def extra_bases(seed):
    """curated deeper bases (also in the quick tier): vector functions that contain a length-1 piecewise-linear term
    broadcast over their components, the shapes on which sum / indexing / scaling have to expand the scalar term."""
    K = consts(seed)
    x, y, z = LEAVES
    scal_cvx = [['max1', y], ['abs', x], ['max', x, K['i0']], ['max1', z], ['mul', K['i2'], ['abs', x]]]
    scal_ccv = [['min1', y], ['min', x, K['i2']], ['neg', ['abs', x]]]
    out = []
    for v in (y, z):
        for sc in scal_cvx:
            out += [['add', v, sc], ['add', sc, v], ['sub', ['mul', K['i2'], v], ['neg', sc]]]
        for sc in scal_ccv:
            out += [['add', v, sc], ['sub', v, ['neg', sc]]]
        out += [['add', ['abs', v], ['max1', v]], ['sub', ['min', v, x], ['abs', x]]]
    # sums of componentwise max / min (kept by the library as one 'sum of max' term that indexing, slicing and
    # scaling have to expand or re-label), alone, negated, scaled, and broadcast over a vector
    for v in (y, z):
        smin, smax = ['sum', ['min', v, x]], ['sum', ['max', v, K['i0']]]
        out += [smin, smax, ['neg', smax], ['neg', smin], ['mul', K['i2'], smin], ['mul', K['im1'], smax],
                ['add', smin, x], ['sub', x, smax], ['add', v, smin], ['add', ['abs', v], smax],
                ['add', smin, ['min1', v]], ['sub', smin, smax]]
    # constant columns whose FIRST entry is zero (and later entries are not): shortcuts that test "is the constant zero"
    # must look at the whole column
    s = seed % 4
    Z2 = ['const', 'dense', [2, 1], [0.0, (3.0, -2.0, 1.5, -0.5)[s]]]
    Z3 = ['const', 'dense', [3, 1], [0.0, (2.0, -1.0, 0.5, 4.0)[s], (-1.0, 3.0, -2.0, 0.25)[s]]]
    out += [['rmul', x, Z3], ['rmul', x, Z2], ['rmul', ['sum', y], Z2], ['rmul', ['sub', ['sum', z], x], Z3], ['rmul', ['abs', x], Z2],
            ['add', y, Z2], ['sub', Z3, z], ['mul', K['i2'], ['add', y, Z2]], ['mul', K['dm22'], ['sub', y, Z2]],
            ['mul', K['fn'], ['abs', ['sub', z, Z3]]], ['max', y, Z2], ['min', Z3, z]]
    return out


def cases(tier, seed, flavour):
    seed = int(seed) % 4
    yield {'fam': 'probe', 'seed': seed, 'tier': tier}
    uniq, ok, _ = depth2(seed, 'full')
    for lo in range(0, len(uniq), 60):
        yield {'fam': 'd2', 'seed': seed, 'tier': tier, 'lo': lo, 'hi': min(lo + 60, len(uniq))}
    for v in NAMES:
        for k1, _ in coef_forms(v, seed):
            yield {'fam': 'addterm', 'seed': seed, 'tier': tier, 'v': v, 'k1': k1}
    for lo in range(0, len(ok), 4):
        yield {'fam': 'inplace', 'seed': seed, 'tier': tier, 'pal': 'full', 'lo': lo, 'hi': min(lo + 4, len(ok))}
    for i in range(len(extra_bases(seed))):
        yield {'fam': 'extra', 'seed': seed, 'tier': tier, 'i': i}
    pal = 'full' if tier == 'thorough' else 'quick'
    _, ok3, _ = depth2(seed, pal)
    for i in range(len(ok3)):
        yield {'fam': 'd3', 'seed': seed, 'tier': tier, 'pal': pal, 'i': i}
    if tier == 'thorough':
        _, okq, _ = depth2(seed, 'quick')
        for i in range(len(okq)):
            yield {'fam': 'd4', 'seed': seed, 'tier': tier, 'i': i, 'budget': D4_BUDGET}


def crash_key(case):
    return 'C11:%s' % case.get('fam')


# ====================================================================== points
def _dedupe(seq):
    seen, out = set(), []
    for p in seq:
        if p not in seen:
            seen.add(p)
            out.append(p)
    return out


_PTS = {}


def basis_points(n):
    k = ('b', n)
    if k not in _PTS:
        pts = [tuple([0] * n)] + [tuple(2 if j == i else 0 for j in range(n)) for i in range(n)]
        pts.append(tuple([-1] * n))
        pts.append(tuple((2, -1)[j % 2] for j in range(n)))
        pts.append(tuple((-1, 2, 0)[j % 3] for j in range(n)))
        _PTS[k] = _dedupe(pts)
    return _PTS[k]


FULLGRID = 6


def full_points(n):
    """{-1,0,2}^n when n <= FULLGRID (6 thorough, 3 quick); beyond that the points of the grid that differ from 0
    in at most two components (plus the basis points)."""
    k = ('f', n, FULLGRID)
    if k not in _PTS:
        if n <= FULLGRID:
            _PTS[k] = _dedupe(basis_points(n) + list(itertools.product(PAL, repeat=n)))
        else:
            _PTS[k] = _dedupe(basis_points(n) + [p for p in itertools.product(PAL, repeat=n)
                                                 if builtins_sum(1 for a in p if a) <= 2])
    return _PTS[k]


ALLPAIRS = 27


def pair_set(n, pts):
    """pairs for the midpoint test: all pairs when <= ALLPAIRS points (27 thorough, 9 quick); otherwise all pairs of
    basis points plus, at the origin and the three dense basis points, the three pairs along each coordinate axis."""
    k = ('p', n, len(pts), ALLPAIRS)
    if k not in _PTS:
        if len(pts) <= ALLPAIRS:
            pr = list(itertools.combinations(pts, 2))
        else:
            B = basis_points(n)
            pr = list(itertools.combinations(B, 2))
            for b in [B[0]] + B[-3:]:
                for i in range(n):
                    line = [b[:i] + (v,) + b[i + 1:] for v in PAL]
                    pr += list(itertools.combinations(line, 2))
            seen, out = set(), []
            for p, q in pr:
                kk = (p, q) if p <= q else (q, p)
                if p != q and kk not in seen:
                    seen.add(kk)
                    out.append((p, q))
            pr = out
        _PTS[k] = pr
    return _PTS[k]


# ====================================================================== the harness
_REPORTED = {}


class Ctx(object):
    fresh = False           # True: ignore the per-process report limiter (probe case, replays of a single case)
    badkids = None          # ids of depth-2 trees that fail by themselves

    def __init__(self, seed):
        from mc import cvx          # asserts the staged build is the one imported
        import cvxopt.modeling as M
        from cvxopt import matrix, spmatrix
        self.M, self.matrix, self.spmatrix = M, matrix, spmatrix
        self.env = {v: M.variable(VARLEN[v], v) for v in NAMES}
        self.seed = seed
        self.amemo, self.vmemo = {}, {}
        self.n = self.nontrivial = self.programs = 0
        self.viol, self.keys = [], {}
        self.out = {}
        self.maxerr = 0.0
        self.extra = {}
        self.sub_safe = sparse_minus_safe()

    # ---------------------------------------------------------------- bookkeeping
    def count(self, label, k=1):
        self.out[label] = self.out.get(label, 0) + k

    def report(self, key, msg, t):
        """one report per key and case; at most 2 cases per key and worker process (the engine stops a worker after
        200 violations, and the known defects are hit by thousands of trees)."""
        c = self.keys.get(key, 0)
        self.keys[key] = c + 1
        self.count('violating-trees')
        if c == 0 and (self.fresh or _REPORTED.get(key, 0) < 2):
            if not self.fresh:
                _REPORTED[key] = _REPORTED.get(key, 0) + 1
            self.viol.append({'key': key, 'msg': '%s  [tree: %s]' % (msg, R.show(t)), 'sub': {'tree': t}})

    def result(self):
        ex = dict(self.extra)
        ex['programs'] = self.programs
        return {'n': self.n, 'nontrivial': self.nontrivial, 'outcomes': self.out, 'viol': self.viol,
                'maxerr': {'value': self.maxerr}, 'extra': ex}

    # ---------------------------------------------------------------- building the real objects
    def mkconst(self, t):
        kind = t[1]
        if kind == 'int':
            return int(t[3][0])
        if kind == 'float':
            return float(t[3][0])
        r, c = t[2]
        if kind == 'dense':
            return self.matrix([float(v) for v in t[3]], (r, c), 'd')
        I, J, V = [], [], []
        for j in range(c):
            for i in range(r):
                if t[3][j * r + i] != 0:
                    I.append(i); J.append(j); V.append(float(t[3][j * r + i]))
        return self.spmatrix(V, I, J, (r, c), 'd')

    def mkindex(self, i):
        if i[0] == 'int':
            return i[1]
        if i[0] == 'list':
            return list(i[1])
        if i[0] == 'imat':
            return self.matrix(list(i[1]), (len(i[1]), 1), 'i')
        return slice(i[1], i[2], i[3])

    def build(self, t):
        op = t[0]
        if op == 'var':
            return self.env[t[1]]
        if op == 'const':
            return self.mkconst(t)
        return self.apply(t, self.children(t))

    def children(self, t):
        return [self.build(c) for c in t[1:] if isinstance(c, list) and c and c[0] in R.OPS]

    def apply(self, t, o):
        op, M = t[0], self.M
        if op == 'pos':
            return +o[0]
        if op == 'neg':
            return -o[0]
        if op == 'sum':
            return M.sum(o[0])
        if op == 'abs':
            return abs(o[0])
        if op == 'max1':
            return M.max(o[0])
        if op == 'min1':
            return M.min(o[0])
        if op == 'index':
            return o[0][self.mkindex(t[2])]
        if op in ('mul', 'rmul'):
            return o[0] * o[1]
        if op == 'div':
            return o[0] / o[1]
        if op == 'dot' or op == 'dotr':
            return M.dot(o[0], o[1])
        if op == 'add':
            return o[0] + o[1]
        if op == 'sub':
            return o[0] - o[1]
        if op == 'max':
            return M.max(*o)
        if op == 'min':
            return M.min(*o)
        if op == 'iadd':
            return operator.iadd(o[0], o[1])
        if op == 'isub':
            return operator.isub(o[0], o[1])
        if op == 'imul':
            return operator.imul(o[0], o[1])
        if op == 'idiv':
            return operator.itruediv(o[0], o[1])
        raise AssertionError(op)

    def isfunc(self, f):
        return type(f) is self.M._function or type(f) is self.M.variable

    # ---------------------------------------------------------------- evaluation
    def setpt(self, names, pt):
        off = 0
        for v in names:
            L = VARLEN[v]
            self.env[v].value = self.matrix([float(a) for a in pt[off:off + L]], (L, 1), 'd')
            off += L

    def ev(self, f, names, pt):
        self.setpt(names, pt)
        self.n += 1
        if type(f) is self.M.variable:
            r = f.value
        else:
            r = f.value()
        return None if r is None else list(r)

    def refval(self, t, names, pt):
        assign = {}
        off = 0
        for v in names:
            L = VARLEN[v]
            assign[v] = pt[off:off + L]
            off += L
        return R.value(t, assign, self.vmemo)

    def unsafe(self, t):
        """sparse constant minus anything that is not a matrix goes through spmatrix_sub, which can crash."""
        if self.sub_safe:
            return False
        if t[0] in ('var', 'const'):
            return False
        if t[0] == 'sub' and t[1][0] == 'const' and t[1][1] == 'sparse' and t[2][0] != 'const':
            return True
        return any(self.unsafe(c) for c in t[1:] if isinstance(c, list) and c and c[0] in R.OPS)

    # ---------------------------------------------------------------- keys
    def sig(self, t):
        if t[0] == 'const':
            c = R.ccode(t)
            if c in ('int', 'float', 'd11', 's11'):
                v = t[3][0]
                return c + ('+' if v > 0 else '-' if v < 0 else '0')
            return c
        if t[0] == 'var':
            return 'v1' if VARLEN[t[1]] == 1 else 'vn'
        i = R.analyze(t, self.amemo)
        if i.n is None:
            return 'f?'
        return 'f%s%s%s' % ('1' if i.n == 1 else 'n', ''.join(sorted(i.cls)) if i.cls else '',
                            '0' if self.iszero(t, i) else '')

    def iszero(self, t, i):
        """an affine function that is identically zero (0*x, sum(0*x), x*0 - 0*y, ...)."""
        if i.cls is None or not i.cls <= R.A:
            return False
        try:
            names = sorted(R.tree_vars(t))
            n = builtins_sum(VARLEN[w] for w in names)
            return not any(any(self.refval(t, names, p)) for p in basis_points(n)[:n + 1])
        except Exception:
            return False

    def pattern(self, t):
        op = t[0]
        parts = []
        for c in t[1:]:
            if isinstance(c, list) and c and c[0] in R.OPS:
                parts.append(self.sig(c))
        if op == 'index':
            i = t[2]
            parts.append(i[0] + (('-' if i[1] < 0 else '+') if i[0] == 'int' else
                                 ('-' if builtins_min(i[1]) < 0 else '') if i[0] in ('list', 'imat') else
                                 ('rev' if (i[3] or 1) < 0 else '')))
        s = '%s(%s)' % (op, ','.join(parts))
        if op in ('add', 'sub', 'iadd', 'isub') and t[1][0] != 'const' and t[2][0] != 'const':
            ia, ib = R.analyze(t[1], self.amemo), R.analyze(t[2], self.amemo)
            shared = [v for v in sorted(ia.vars & ib.vars) if VARLEN[v] > 1]
            if shared:
                # two functions sharing a vector variable: what matters is how each depends on it
                s = '%s:coef(%s,%s)' % (op, self.coefkind(t[1], shared[0]), self.coefkind(t[2], shared[0]))
        return s

    def strip(self, t):
        """the affine part of a function tree: every max / min / abs term replaced by zero (modeling.rst: a
        piecewise-linear function is b + A1 x1 + ... + sum of max terms)."""
        op = t[0]
        if op in ('var', 'const'):
            return t
        if op in ('max1', 'min1') and R.analyze(t[1], self.amemo).n == 1:
            return self.strip(t[1])
        if op in ('max', 'min', 'abs', 'max1', 'min1'):
            n = R.analyze(t, self.amemo).n
            return ['const', 'dense', [n, 1], [0.0] * n]
        return [op] + [self.strip(c) if isinstance(c, list) and c and c[0] in R.OPS else c for c in t[1:]]

    def sptag(self, t):
        return ':sparse-column-operand' if any(isinstance(c, list) and c and c[0] == 'const' and R.ccode(c) == 'scol'
                                               for c in t[1:]) else ''

    def coefkind(self, t, v):
        """how the (reference) function t depends on the vector variable v near 0: 'I' a multiple of the identity,
        'row' a length-1 function with unequal slopes, 'urow' with equal slopes, 'brow'/'ubrow' the same row in
        every component of a longer function, 'M' a general matrix, '0' a zero coefficient, '-' v absent from the
        affine part."""
        try:
            t = self.strip(t)
            names = sorted(R.tree_vars(t))
            if v not in names:
                return '-'          # v only occurs inside max / min / abs terms
            n = builtins_sum(VARLEN[w] for w in names)
            zero = tuple([0] * n)
            f0 = self.refval(t, names, zero)
            off = 0
            for w in names:
                if w == v:
                    break
                off += VARLEN[w]
            L = VARLEN[v]
            G = []          # G[k] = column k of the slope matrix
            for k in range(L):
                p = list(zero); p[off + k] = 2
                fk = self.refval(t, names, tuple(p))
                G.append([(a - b) / 2 for a, b in zip(fk, f0)])
            rows = [tuple(G[k][i] for k in range(L)) for i in range(len(f0))]
            if not any(any(r) for r in rows):
                return '0'
            if len(rows) == 1:
                return 'urow' if len(set(rows[0])) == 1 else 'row'
            if len(set(rows)) == 1:
                return 'ubrow' if len(set(rows[0])) == 1 else 'brow'
            if len(rows) == L and all(rows[i][k] == (rows[0][0] if i == k else 0) for i in range(L) for k in range(L)):
                return 'I'
            return 'M'
        except Exception:
            return '?'

    # ---------------------------------------------------------------- one tree
    def check(self, t, level=2, localize=True):
        """level 0: accept/len/value only (used for localisation); 1: + class honesty, variables, None;
        2: + non-aliasing protocol."""
        if self.unsafe(t):
            self.count('skipped:sparse-minus-function-unsafe-in-process')
            return True
        if level and self.badkids is not None:
            for c in t[1:]:
                if isinstance(c, list) and c and id(c) in self.badkids:
                    # the child already fails on its own (reported in its own family): nothing new to learn
                    self.count('skipped:child-already-fails')
                    return True
        info = R.analyze(t, self.amemo)
        if level:
            self.programs += 1
            self.count('ref:' + info.status)
        try:
            if t[0] == 'var':
                objs, f = None, self.env[t[1]]
            else:
                objs = self.children(t)
                f = self.apply(t, objs)
            exc = None
        except REFUSAL as e:
            f, exc, objs = None, e, None
        except Exception as e:          # AttributeError, NameError, ... : not a deliberate refusal
            self.fail(t, 'internal', type(e).__name__, 'building the tree raised %s: %s' % (type(e).__name__, e),
                      localize, level)
            return False
        if info.status == 'refused':
            if exc is not None:
                if level:
                    self.count('refused-by-both')
                return True
            self.fail(t, 'refuse', info.reason, 'modeling.rst does not allow this (%s) but it was accepted as %r'
                      % (info.reason, f), localize, level, reason=True)
            if level and self.isfunc(f):
                self.honesty(t, f, None, info)
            return False
        if info.status == 'unspec':
            if level:
                self.count('unspec:' + ('raised' if exc is not None else 'accepted'))
                if exc is None and type(f) is self.M._function:
                    self.honesty(t, f, None, info)
            return True
        # ---- reference accepts
        if exc is not None:
            self.fail(t, 'accept', '%s:%s' % (type(exc).__name__, slug(exc)), 'documented as allowed but raised %s: %s'
                      % (type(exc).__name__, exc), localize, level)
            return False
        if not self.isfunc(f):
            self.fail(t, 'accept', 'not-a-function', 'result is %r, not a function' % (type(f).__name__,), localize, level)
            return False
        names = sorted(info.vars)
        nv = builtins_sum(VARLEN[v] for v in names)
        try:
            lg = len(f)
        except Exception as e:
            self.fail(t, 'len', type(e).__name__, 'len(f) raised %s' % e, localize, level)
            return False
        if lg != info.n:
            self.fail(t, 'len', 'wrong', 'len(f) = %d, formula has length %d' % (lg, info.n), localize, level)
            return False
        claims = None
        if level:
            claims = self.claims(f)
            if ('V' in info.cls or 'A' in info.cls) and info.cls <= frozenset('AV') and not claims[0]:
                self.fail(t, 'class', 'convex-not-accepted-by-<=', 'f <= 0 refused although f is %s per modeling.rst'
                          % '/'.join(sorted(info.cls)), localize, level)
            if info.cls <= frozenset('AC') and not claims[1]:
                self.fail(t, 'class', 'concave-not-accepted-by->=', 'f >= 0 refused although f is %s per modeling.rst'
                          % '/'.join(sorted(info.cls)), localize, level)
        affine = info.cls == R.A and (claims is None or (claims[0] and claims[1]))
        pts = basis_points(nv) if affine else full_points(nv)
        exact = R.dyadic(t)
        vals = {}
        good = True
        for p in pts:
            try:
                got = self.ev(f, names, p)
            except Exception as e:
                self.fail(t, 'value', 'raises-' + type(e).__name__, 'f.value() raised %s: %s at %r'
                          % (type(e).__name__, e, p), localize, level)
                return False
            want = self.refval(t, names, p)
            if got is None or len(got) != len(want):
                self.fail(t, 'value', 'shape', 'f.value() = %r, formula gives %r at %s=%r'
                          % (got, [float(w) for w in want], names, p), localize, level)
                return False
            vals[p] = got
            for g, w in zip(got, want):
                wf = float(w)
                if exact:
                    bad = g != wf
                else:
                    err = abs(g - wf) / max(1.0, abs(wf))
                    bad = not err <= TOL
                    if err > self.maxerr and not bad:
                        self.maxerr = err
                if bad:
                    self.fail(t, 'value', 'wrong', 'f.value() = %r, formula gives %r at %s=%r'
                              % (got, [float(a) for a in want], names, p), localize, level)
                    good = False
                    break
            if not good:
                return False
        if not level:
            return True
        if t[0] not in ('var', 'const'):
            self.nontrivial += 1
        if pts:
            r = f.value() if type(f) is not self.M.variable else f.value
            if not (type(r) is self.matrix and r.typecode == 'd' and r.size == (lg, 1)):
                self.fail(t, 'value', 'type', 'f.value() is not a dense d matrix of size (len(f),1): %r' % (r,),
                          localize, level)
        self.honesty(t, f, vals, info, names=names, claims=claims, exact=exact)
        self.variables(t, f, info, names, vals)
        if level >= 2 and objs is not None:
            self.aliasing(t, f, objs, info, names)
        return True

    def fail(self, t, kind, what, msg, localize, level, reason=False):
        """report a failure at the innermost subtree that fails on its own."""
        if not level:
            return
        m = t
        if localize:
            m = self.minimal(t)
        if reason:
            key = 'C11:%s:%s%s' % (kind, what, self.sptag(m)) if m is t else None
        else:
            key = 'C11:%s:%s:%s' % (kind, self.pattern(m), what) if m is t else None
        if key is None:
            # attribute to the inner subtree: re-run it so that the key describes its own failure
            sub = Ctx.__new__(Ctx)
            sub.__dict__.update(self.__dict__)
            sub.viol, sub.keys, sub.out = [], {}, {}
            sub.fresh = True
            sub.programs = sub.nontrivial = 0
            sub.check(m, level=1, localize=False)
            for v in sub.viol[:1]:
                self.report(v['key'], v['msg'] + '  (inside %s)' % R.show(t), m)
            if not sub.viol:
                self.report('C11:%s:%s:%s' % (kind, self.pattern(t), what), msg, t)
            return
        self.report(key, msg, t)

    def minimal(self, t):
        """innermost subtree that fails the basic check by itself."""
        for c in t[1:]:
            if isinstance(c, list) and c and c[0] in R.OPS and c[0] not in ('var', 'const'):
                if not self.check(c, level=0, localize=False):
                    return self.minimal(c)
        return t

    # ---------------------------------------------------------------- curvature honesty
    def claims(self, f):
        try:
            f <= 0
            cvx = True
        except TypeError:
            cvx = False
        try:
            f >= 0
            ccv = True
        except TypeError:
            ccv = False
        return cvx, ccv

    def honesty(self, t, f, vals, info, names=None, claims=None, exact=None):
        """a function accepted as convex / concave / affine must be so on its own values."""
        if names is None:
            names = sorted(R.tree_vars(t))
        if claims is None:
            claims = self.claims(f)
        if exact is None:
            exact = R.dyadic(t)
        cvx, ccv = claims
        if not cvx and not ccv:
            self.report('C11:class:neither-convex-nor-concave:%s' % t[0],
                        'the result is accepted by neither f <= 0 nor f >= 0', t)
            return
        nv = builtins_sum(VARLEN[v] for v in names)
        if nv == 0:
            return
        try:
            vals = dict(vals or {})
            for p in (basis_points(nv) if (cvx and ccv) else full_points(nv)):
                if p not in vals:
                    vals[p] = self.ev(f, names, p)
            tag = info.reason if info.status != 'ok' else self.pattern(t)
            eps = 0.0 if exact else 1e-9
            if cvx and ccv:
                zero = tuple([0] * nv)
                f0 = vals[zero]
                slopes = []
                for i in range(nv):
                    e = tuple(2 if j == i else 0 for j in range(nv))
                    slopes.append([(a - b) / 2.0 for a, b in zip(vals[e], f0)])
                for p, got in vals.items():
                    for k in range(len(got)):
                        lin = f0[k] + builtins_sum(slopes[i][k] * p[i] for i in range(nv))
                        if abs(got[k] - lin) > eps * max(1.0, abs(lin)):
                            self.report('C11:honesty:claimed-affine-is-not:%s' % tag,
                                        'accepted by both f<=0 and f>=0 (affine) but f(%r)[%d] = %r while the affine '
                                        'interpolation through 0 and 2e_i gives %r' % (p, k, got[k], lin), t)
                            return
                return
            sgn = 1.0 if cvx else -1.0
            for p, q in pair_set(nv, list(vals)):
                m = tuple((a + b) / 2.0 for a, b in zip(p, q))
                fm = vals.get(m)
                if fm is None:
                    fm = vals[m] = self.ev(f, names, m)
                fp, fq = vals.get(p), vals.get(q)
                if fp is None:
                    fp = vals[p] = self.ev(f, names, p)
                if fq is None:
                    fq = vals[q] = self.ev(f, names, q)
                for k in range(len(fm)):
                    mid = (fp[k] + fq[k]) / 2.0
                    if sgn * (fm[k] - mid) > eps * max(1.0, abs(mid)):
                        self.report('C11:honesty:claimed-%s-is-not:%s' % ('convex' if cvx else 'concave', tag),
                                    'accepted as %s (f %s 0 builds a constraint) but f(%r)[%d] = %r, f(%r)[%d] = %r and '
                                    'f(midpoint)[%d] = %r' % ('convex' if cvx else 'concave', '<=' if cvx else '>=',
                                                               p, k, fp[k], q, k, fq[k], k, fm[k]), t)
                        return
        except Exception as e:
            self.report('C11:honesty:evaluation-raised:%s%s:%s' % (info.reason if info.status != 'ok' else self.pattern(t),
                                                                     self.sptag(t), type(e).__name__),
                        'value() raised %s' % e, t)

    # ---------------------------------------------------------------- variables() and None
    def variables(self, t, f, info, names, vals):
        if type(f) is self.M.variable:
            return
        vl = f.variables()
        ids = [id(v) for v in vl]
        by_id = {id(self.env[v]): v for v in NAMES}
        pat = self.pattern(t)
        if len(set(ids)) != len(ids):
            self.report('C11:variables:%s:duplicate' % pat, 'variables() lists a variable twice', t)
        got = set()
        for i in ids:
            if i not in by_id:
                self.report('C11:variables:%s:foreign-object' % pat, 'variables() contains an object that is not one '
                            'of the variables of the formula', t)
                return
            got.add(by_id[i])
        if not got <= info.vars:
            self.report('C11:variables:%s:extra' % pat, 'variables() = %s, formula only mentions %s'
                        % (sorted(got), sorted(info.vars)), t)
        nv = builtins_sum(VARLEN[v] for v in names)
        zero = tuple([0] * nv)
        off = 0
        for v in names:
            L = VARLEN[v]
            need = False
            for i in range(L):
                e = tuple(2 if j == off + i else 0 for j in range(nv))
                if e in vals and zero in vals and vals[e] != vals[zero]:
                    need = True
            off += L
            if need and v not in got:
                self.report('C11:variables:%s:missing' % pat, 'the value depends on %s but variables() = %s'
                            % (v, sorted(got)), t)
        vl.append(None)
        del vl[:]
        if [id(v) for v in f.variables()] != ids:
            self.report('C11:variables:%s:not-a-copy' % pat, 'mutating the list returned by variables() changed the '
                        'function', t)
        # value() is None as soon as one of variables() has value None
        if names:
            p = basis_points(nv)[-1]
            for v in sorted(got):
                self.setpt(names, p)
                self.env[v].value = None
                self.n += 1
                try:
                    r = f.value()
                except Exception as e:
                    self.report('C11:none:raises-%s:%s' % (type(e).__name__, slug(e)),
                                'value() with %s.value = None raised %s' % (v, e), t)
                    continue
                if r is not None:
                    self.report('C11:none:%s:not-None' % pat, 'value() = %r although variable %s of f.variables() has '
                                'value None' % (list(r), v), t)
            self.setpt(names, p)

    # ---------------------------------------------------------------- non-aliasing
    def steps(self, obj_vars, lg):
        """in-place mutations: (label, function applying it, value transform)."""
        x = self.env['x']
        one = ['const', 'int', [1, 1], [1]]
        st = [('imul', lambda o: operator.imul(o, 2), lambda v, pt: [2 * a for a in v], ['const', 'int', [1, 1], [2]]),
              ('iadd', lambda o: operator.iadd(o, 1), lambda v, pt: [a + 1 for a in v], one),
              ('isub', lambda o: operator.isub(o, x), lambda v, pt: [a - pt['x'][0] for a in v], LEAVES[0])]
        for w in obj_vars:
            if w != 'x' and VARLEN[w] == lg:
                wv = self.env[w]
                st.append(('isub', (lambda o, wv=wv: operator.isub(o, wv)),
                           (lambda v, pt, w=w: [a - b for a, b in zip(v, pt[w])]), ['var', w]))
                break
        st.append(('imul', lambda o: operator.imul(o, -2), lambda v, pt: [-2 * a for a in v],
                   ['const', 'int', [1, 1], [-2]]))
        st.append(('idiv', lambda o: operator.itruediv(o, 4), lambda v, pt: [a / 4.0 for a in v],
                   ['const', 'int', [1, 1], [4]]))
        return st

    def aliasing(self, t, f, objs, info, names):
        op = t[0]
        M = self.M
        kids = [c for c in t[1:] if isinstance(c, list) and c and c[0] in R.OPS]
        inplace = op in ('iadd', 'isub', 'imul', 'idiv')
        if type(f) is not M._function:
            return
        pat = self.pattern(t)
        opnd = [(j, o) for j, o in enumerate(objs) if type(o) is M._function and not (inplace and j == 0)]
        for j, o in enumerate(objs):
            if o is f and not (inplace and j == 0):
                self.report('C11:alias:%s:result-is-operand' % pat, 'the operator returned its operand object %d' % j, t)
                return
        allnames = list(NAMES)
        p = (2, -1, 2, -1, 2, -1)
        ptd = {'x': p[0:1], 'y': p[1:3], 'z': p[3:6]}
        exact = R.dyadic(t)

        def same(a, b):
            if exact:
                return a == b
            return len(a) == len(b) and all(abs(u - v) <= 1e-9 * max(1.0, abs(v)) for u, v in zip(a, b))
        try:
            before = [self.ev(o, allnames, p) for _, o in opnd]
            cur = self.ev(f, allnames, p)
            # A: mutate the result, operands must keep their values
            g = f
            for lab, do, tr, arg in self.steps(sorted(info.vars), len(f)):
                try:
                    g = do(g)
                except REFUSAL as e:
                    self.report('C11:accept:%s:%s:%s' % (self.pattern([lab, t, arg]), type(e).__name__, slug(e)),
                                'in-place %s on the result raised %s: %s' % (lab, type(e).__name__, e), t)
                    break
                want = tr(cur, ptd)
                cur = self.ev(g, allnames, p)
                if not same(cur, want):
                    self.report('C11:value:%s:after-inplace' % self.pattern([lab, t, arg]),
                                'after %s on the result value() = %r, expected %r' % (lab, cur, want), t)
                    break
                for (j, o), b in zip(opnd, before):
                    if not same(self.ev(o, allnames, p), b):
                        self.report('C11:alias:%s:result-%s-changes-operand' % (pat, lab),
                                    'mutating the result with %s changed operand %d from %r to %r'
                                    % (lab, j, b, self.ev(o, allnames, p)), t)
                        return
            if not opnd:
                return
            # B: mutate the operands, the result must keep its value
            objs2 = self.children(t)
            f2 = self.apply(t, objs2)
            r0 = self.ev(f2, allnames, p)
            for j, _ in opnd:
                o = objs2[j]
                oi = R.analyze(kids[j], self.amemo)
                for lab, do, tr, arg in self.steps(sorted(oi.vars), len(o)):
                    try:
                        o = do(o)
                    except REFUSAL:
                        break
                    r1 = self.ev(f2, allnames, p)
                    if not same(r1, r0):
                        self.report('C11:alias:%s:operand-%s-changes-result' % (pat, lab),
                                    'mutating operand %d with %s changed the result from %r to %r' % (j, lab, r0, r1), t)
                        return
        except Exception as e:
            self.report('C11:alias:%s:raised-%s' % (pat, type(e).__name__), 'aliasing protocol raised %s' % e, t)


import builtins as _b
builtins_sum, builtins_min = _b.sum, _b.min


def slug(e):
    s = ''.join(ch if ch.isalnum() else '-' for ch in str(e).lower())
    while '--' in s:
        s = s.replace('--', '-')
    return s.strip('-')[:40]


# ====================================================================== sparse-minus-function isolation
_SAFE = None


def _probe_child():
    from cvxopt import spmatrix
    import cvxopt.modeling as M
    vs = [M.variable(k, 'v') for k in (1, 2, 3)]
    S = [spmatrix([1.0] * r, range(r), [0] * r, (r, 1)) for r in (1, 2, 3)] + [spmatrix([1.0, 2.0], [0, 1], [0, 1], (2, 2))]
    bad = 0
    for rep in range(12):
        for s in S:
            for v in vs:
                for o in (v, +v, 2 * v + 1):
                    try:
                        f = s - o
                    except TypeError:
                        if s.size[1] == 1 and (s.size[0] in (1, len(v)) or len(v) == 1):
                            bad = 1
                    except ValueError:
                        pass
    return bad


def sparse_minus_safe():
    """True when `sparse matrix - variable/function` can be evaluated in this process.  Decided once per process in
    a forked child: spmatrix_sub (sparse.c) dereferences NotImplemented as a matrix, which can kill the interpreter."""
    global _SAFE
    if _SAFE is None:
        import sys
        sys.stdout.flush(); sys.stderr.flush()
        pid = os.fork()
        if pid == 0:
            rc = 9
            try:
                devnull = os.open(os.devnull, os.O_WRONLY)
                os.dup2(devnull, 2)
                rc = _probe_child()
            finally:
                os._exit(rc)
        _, st = os.waitpid(pid, 0)
        _SAFE = (os.WIFEXITED(st) and os.WEXITSTATUS(st) in (0, 1), st)
    return _SAFE[0]


_BAD = {}


def failing_depth2(c, seed):
    """ids of the accepted depth-2 trees (both palettes share the node objects) and quick partners whose basic check
    (accept, len, value) fails on the implementation; decided once per process."""
    k = seed % 4
    if k not in _BAD:
        bad = {}
        trees = [t for t, _ in depth2(seed, 'full')[1]] + [t for t, _ in depth2(seed, 'quick')[1]] + _QP(seed)
        for t in trees:
            if id(t) not in bad and not c.unsafe(t) and not c.check(t, level=0, localize=False):
                bad[id(t)] = t
        _BAD[k] = bad
    return _BAD[k]


_QPC = {}


def _QP(seed):
    k = seed % 4
    if k not in _QPC:
        _QPC[k] = quick_partners(seed)
    return _QPC[k]


# ====================================================================== run
def run(case):
    global ALLPAIRS, FULLGRID
    big = case.get('tier') == 'thorough' and case['fam'] != 'd4'
    ALLPAIRS = 27 if big else 9
    FULLGRID = 6 if big else 3
    c = Ctx(case['seed'])
    fam, seed = case['fam'], case['seed']
    if fam == 'probe':
        c.fresh = True
        c.n += 1
        st = _SAFE[1]
        if not c.sub_safe:
            c.report('C11:sub(sparse,function):interpreter-crash',
                     'spmatrix - variable/function (e.g. spmatrix([1.,2.],[0,1],[0,0]) - variable(2)) kills the '
                     'interpreter or raises TypeError depending on memory contents; documented as allowed for '
                     'one-column sparse constants', ['sub', consts(seed)['scol2'], LEAVES[1]])
            c.count('probe:unsafe')
        else:
            c.count('probe:safe')
        return c.result()
    if fam == 'd2':
        uniq, ok, _ = depth2(seed, 'full')
        for g in LEAVES:
            if case['lo'] == 0:
                c.check(g, level=1)
        for t in uniq[case['lo']:case['hi']]:
            c.check(t)
    elif fam == 'd3':
        c.badkids = failing_depth2(c, seed)
        for t in family_d3(case['i'], seed, case['pal']):
            c.check(t)
    elif fam == 'addterm':
        for t in addterm_family(case['v'], case['k1'], seed):
            c.check(t)
    elif fam == 'extra':
        h = extra_bases(seed)[case['i']]
        hi = R.analyze(h, c.amemo)
        if c.check(h) and hi.status == 'ok':
            for t in d4_roots(h, hi, seed):
                c.check(t, level=1)
            for t in inplace_family(h, seed, 'quick'):
                c.check(t, level=1)
    elif fam == 'inplace':
        uniq, ok, _ = depth2(seed, case['pal'])
        c.badkids = failing_depth2(c, seed)
        for g, gi in ok[case['lo']:case['hi']]:
            if g[0] == 'var':
                continue
            for t in inplace_family(g, seed, case['pal']):
                c.check(t)
    elif fam == 'd4':
        budget = case['budget']
        c.badkids = failing_depth2(c, seed)
        k = 0
        trunc = 0
        for h in family_d3(case['i'], seed, 'quick'):
            hi = R.analyze(h, c.amemo)
            if hi.status != 'ok' or c.unsafe(h) or any(isinstance(k_, list) and id(k_) in c.badkids for k_ in h[1:]):
                continue
            if not c.check(h, level=0, localize=False):
                continue            # h already fails by itself (reported in its depth-3 family)
            if k >= budget:
                trunc = 1
                break
            # in-place trailing operation on depth-3 bases, one operand per kind
            for t in inplace_family(h, seed, 'quick'):
                c.check(t, level=1)
            for t in d4_roots(h, hi, seed):
                c.check(t, level=1)
                k += 1
        c.extra['depth4_programs'] = k
        c.extra['depth4_truncated_families'] = trunc
        c.extra['depth4_families'] = 1
    else:
        raise AssertionError(fam)
    return c.result()


def summary(agg):
    ex = agg.get('extra', {})
    return {'programs': ex.get('programs', 0), 'evaluations': agg.get('n'),
            'depth4_node_budget_per_family': D4_BUDGET, 'depth4_families': ex.get('depth4_families', 0),
            'depth4_programs': ex.get('depth4_programs', 0),
            'depth4_families_truncated_by_budget': ex.get('depth4_truncated_families', 0)}
