"""Enumeration shared by C01 (optimal certificates) and C02 (infeasibility certificates).

Case kinds
  {'fam': 'lp', n, m, c, g0, cfgset}     all members of L(n,m) with the given c and first G column
  {'fam': 'planted', dims, n, p, kind, variant, cfgset}
"""
import itertools
from mc import dom, solve
from mc.ref import cone as R

PALETTES = [[-1, 0, 1], [-2, 0, 1], [-1, 0, 2], [1, 0, -3]]

KKTS = [None, 'ldl', 'ldl2', 'qr', 'chol', 'chol2']
LOOSE = {'feastol': 1e-3, 'abstol': 1e-2, 'reltol': 1e-2}
OPTSETS = {
    'default': {},
    'loose': LOOSE,
    'reltol-only': {'abstol': -1.0, 'reltol': 1e-3, 'feastol': 1e-4},
    'abstol-only': {'abstol': 1e-3, 'reltol': -1.0, 'feastol': 1e-4},
    'refine0': {'refinement': 0},
    'refine2': {'refinement': 2, 'feastol': 1e-5, 'abstol': 1e-4, 'reltol': 1e-4},
    'maxit1': {'maxiters': 1},
    'maxit3': {'maxiters': 3, 'feastol': 1e-2, 'abstol': 1e-1, 'reltol': 1e-1},
    # tighter than the global defaults: a wrapper that drops its per-call options falls short of these
    'tight': {'feastol': 1e-9, 'abstol': 1e-9, 'reltol': 1e-9},
    'maxit2': {'maxiters': 2},
}


def cfgs_for(d, p, cfgset, tier):
    """list of configurations for an instance with cone structure d and p equalities."""
    only_l = not d['q'] and not d['s']
    out = []
    kk = [k for k in KKTS if k != 'chol2' or only_l]
    if cfgset == 'base':
        out.append({'entry': 'conelp', 'storage': 'dense', 'kkt': None})
        if only_l:
            out.append({'entry': 'lp', 'storage': 'sparse', 'kkt': None})
            # no options= keyword at all (defaults from solvers.options), immediately after a call of the same entry point
            # with loose per-call tolerances: the claim is judged at the default tolerances
            out.append({'entry': 'lp', 'storage': 'dense', 'kkt': None, 'via': 'global', 'prelude': LOOSE})
        return out
    if cfgset == 'loose':
        out.append({'entry': 'conelp', 'storage': 'dense', 'kkt': None, 'opts': LOOSE})
        out.append({'entry': 'conelp', 'storage': 'sparse', 'kkt': 'ldl', 'opts': OPTSETS['maxit3']})
        return out
    if cfgset == 'kkt':
        for k in kk:
            for st in ('dense', 'sparse'):
                out.append({'entry': 'conelp', 'storage': st, 'kkt': k})
        out.append({'entry': 'conelp', 'storage': 'dense', 'kkt': 'ref'})
        # one-sided valid start points: the missing one is computed by the solver and shifted into the cone
        out.append({'entry': 'conelp', 'storage': 'dense', 'kkt': None, 'start': 'primal'})
        out.append({'entry': 'conelp', 'storage': 'dense', 'kkt': None, 'start': 'dual'})
        if only_l:
            out.append({'entry': 'lp', 'storage': 'dense', 'kkt': 'ldl'})
            out.append({'entry': 'lp', 'storage': 'dense', 'kkt': None, 'solver': 'glpk'})
        return out
    if cfgset == 'full':
        optnames = ['default', 'loose', 'reltol-only', 'abstol-only', 'maxit3'] if tier == 'quick' else list(OPTSETS)
        for k in kk:
            for st in ('dense', 'sparse'):
                for on in optnames:
                    out.append({'entry': 'conelp', 'storage': st, 'kkt': k, 'opts': OPTSETS[on], 'optname': on})
        out.append({'entry': 'conelp', 'storage': 'dense', 'kkt': 'ref'})
        out.append({'entry': 'conelp', 'storage': 'sparse', 'kkt': 'ref', 'opts': LOOSE})
        if p:
            for k in (None, 'ldl2'):
                out.append({'entry': 'conelp', 'storageG': 'sparse', 'storageA': 'dense', 'kkt': k})
                out.append({'entry': 'conelp', 'storageG': 'dense', 'storageA': 'sparse', 'kkt': k, 'opts': LOOSE})
        for stt in ('both', 'primal', 'dual', 'warm'):
            out.append({'entry': 'conelp', 'storage': 'dense', 'kkt': None, 'start': stt})
            out.append({'entry': 'conelp', 'storage': 'sparse', 'kkt': 'ldl', 'start': stt, 'opts': LOOSE})
        if d['l'] + sum(d['q']) + sum(d['s']) > 0:
            for bad in (('s', 'neg'), ('z', 'neg'), ('s', 'zero'), ('z', 'zero')):
                out.append({'entry': 'conelp', 'storage': 'dense', 'kkt': None, 'start': 'both', 'badstart': bad})
                # ... and with only the start point that carries the invalid vector
                out.append({'entry': 'conelp', 'storage': 'dense', 'kkt': None, 'start': 'primal' if bad[0] == 's' else 'dual',
                            'badstart': bad})
            ent = 'lp' if only_l else ('socp' if not d['s'] else ('sdp' if not d['q'] else None))
            if ent:
                out.append({'entry': ent, 'storage': 'dense', 'kkt': None, 'start': 'both', 'badstart': ('z', 'neg')})
                out.append({'entry': ent, 'storage': 'sparse', 'kkt': 'ldl', 'start': 'primal', 'badstart': ('s', 'neg')})
        if d['s']:
            out.append({'entry': 'conelp', 'storage': 'dense', 'kkt': None, 'junk': 77.0})
            out.append({'entry': 'conelp', 'storage': 'sparse', 'kkt': 'ldl2', 'junk': 77.0, 'opts': LOOSE})
            out.append({'entry': 'conelp', 'storage': 'dense', 'kkt': 'chol', 'junk': -5.0, 'start': 'both'})
        for ent in (['lp'] if only_l else []) + (['socp'] if not d['s'] else []) + (['sdp'] if not d['q'] else []):
            for on in ('tight', 'maxit2', 'loose'):
                out.append({'entry': ent, 'storage': 'dense', 'kkt': None, 'opts': OPTSETS[on], 'optname': on})
        out.append({'entry': 'conelp', 'storage': 'dense', 'kkt': None, 'opts': OPTSETS['tight'], 'optname': 'tight'})
        # option sets that arrive through solvers.options (no options= keyword), the second one right behind a call with
        # loose per-call options through the same entry point
        for ent in ['conelp'] + (['lp'] if only_l else []) + (['socp'] if not d['s'] else []) + (['sdp'] if not d['q'] else []):
            out.append({'entry': ent, 'storage': 'dense', 'kkt': None, 'via': 'global', 'opts': OPTSETS['tight'], 'optname': 'tight'})
            out.append({'entry': ent, 'storage': 'sparse', 'kkt': None, 'via': 'global', 'prelude': LOOSE})
            # a per-call dictionary without tolerances while the globals hold loose ones: the defaults apply
            out.append({'entry': ent, 'storage': 'dense', 'kkt': None, 'poison': dict(LOOSE, maxiters=3)})
            # abstol = 0 is a legal value (relative criterion only)
            out.append({'entry': ent, 'storage': 'dense', 'kkt': None, 'opts': {'abstol': 0.0, 'reltol': 1e-6}, 'optname': 'abstol0'})
        if only_l:
            for st in ('dense', 'sparse'):
                out.append({'entry': 'lp', 'storage': st, 'kkt': None})
                out.append({'entry': 'lp', 'storage': st, 'kkt': 'ldl', 'start': 'both', 'opts': LOOSE})
            out.append({'entry': 'lp', 'storage': 'dense', 'kkt': None, 'solver': 'glpk'})
        if not d['s']:
            for st in ('dense', 'sparse'):
                out.append({'entry': 'socp', 'storage': st, 'kkt': None})
                out.append({'entry': 'socp', 'storage': st, 'kkt': 'ldl', 'start': 'both'})
                out.append({'entry': 'socp', 'storage': st, 'kkt': 'chol', 'start': 'dual'})
        if not d['q']:
            out.append({'entry': 'sdp', 'storage': 'dense', 'kkt': None, 'start': 'warm'})
            for st in ('dense', 'sparse'):
                out.append({'entry': 'sdp', 'storage': st, 'kkt': None})
                out.append({'entry': 'sdp', 'storage': st, 'kkt': 'ldl2', 'start': 'both'})
                out.append({'entry': 'sdp', 'storage': st, 'kkt': 'qr', 'start': 'primal', 'junk': 9.0})
            if p == 0 and d['s'] and max(d['s']) > 0:
                out.append({'entry': 'sdp', 'storage': 'dense', 'kkt': None, 'solver': 'dsdp'})
        return out
    raise AssertionError(cfgset)


def cases(tier, seed, flavour, kinds=('strict', 'pinf', 'dinf')):
    pal = PALETTES[seed % len(PALETTES)]
    fams = [(1, 2), (1, 3), (2, 2)] + ([(2, 3)] if tier == 'thorough' else [])
    for (n, m) in fams:
        for cc in itertools.product(pal, repeat=n):
            for g0 in itertools.product(pal, repeat=m):
                if not any(cc):
                    # c = 0 (pure feasibility problems): the least-squares start has z = 0 and zero gap, so conelp leaves
                    # through its iteration-0 return whenever s is in the cone - with every KKT solver, rank-deficient G included
                    yield {'fam': 'lp', 'n': n, 'm': m, 'c': list(cc), 'g0': list(g0), 'pal': pal, 'cfgset': 'kkt'}
                    continue
                sets = ['base']
                if (n, m) in ((1, 2), (1, 3)):
                    sets.append('kkt')
                if (n, m) == (2, 2) or tier == 'thorough':
                    sets.append('loose')
                if (n, m) == (2, 2):
                    sets.append('kkt')      # rank-deficient [G; A] with every KKT solver: inaccurate start-up solves
                for cs in sets:
                    yield {'fam': 'lp', 'n': n, 'm': m, 'c': list(cc), 'g0': list(g0), 'pal': pal, 'cfgset': cs}
    if tier == 'quick':
        # L(2,3) restricted to c = 0 (thorough runs all of L(2,3)): three inequalities in two variables contain the rank-1
        # matrices G for which the QR / LDL start-up solve is inaccurate without failing
        for g0 in itertools.product(pal, repeat=3):
            yield {'fam': 'lp', 'n': 2, 'm': 3, 'c': [0, 0], 'g0': list(g0), 'pal': pal, 'cfgset': 'kkt'}
    # rank-one G = u v' (3 x 2) whose columns are proper multiples of each other (v not in {0, 1, -1}^2): Householder QR /
    # LDL of such a matrix leaves a rounding-level pivot instead of an exact zero, so the start-up solve is inaccurate
    # without raising - c = 0 and c = +-v (in the range of G'), every KKT solver
    for u in itertools.product(pal, repeat=3):
        if any(u):
            yield {'fam': 'rank1', 'u': list(u), 'pal': pal, 'cfgset': 'kkt'}
    structs = dom.structures(tier)
    nvar = 2 if tier == 'quick' else 3
    for d in structs:
        for n in ((1, 2) if tier == 'quick' else (1, 2, 3)):
            for p in (0, 1):
                if p >= n:
                    continue
                for kind in kinds:
                    for v in range(nvar):
                        yield {'fam': 'planted', 'dims': d, 'n': n, 'p': p, 'kind': kind,
                               'variant': v + nvar * seed, 'cfgset': 'full'}
    if tier == 'quick':
        # square systems (as many variables as the cone has independent coordinates): the least-squares initial point is
        # then feasible with s = 0, which is what the iteration-0 shortcut of conelp returns - with 's' blocks of order 2
        for d in structs:
            if d['l'] + sum(d['q']) + sum(m * (m + 1) // 2 for m in d['s']) == 3 and 'strict' in kinds:
                for v in range(4):
                    yield {'fam': 'planted', 'dims': d, 'n': 3, 'p': 0, 'kind': 'strict', 'variant': v + 4 * seed, 'cfgset': 'full'}


def instances(case):
    """yield (instance, cfg) pairs of a case."""
    if case['fam'] == 'lp':
        n, m, pal = case['n'], case['m'], case['pal']
        d = {'l': m, 'q': [], 's': []}
        for rest in itertools.product(pal, repeat=(n - 1) * m):
            for hh in itertools.product(pal, repeat=m):
                G = [[float(t) for t in case['g0']]] + [[float(rest[(j - 1) * m + i]) for i in range(m)] for j in range(1, n)]
                inst = {'c': [float(t) for t in case['c']], 'G': G, 'h': [float(t) for t in hh], 'dims': d, 'A': [], 'b': []}
                yield inst
    elif case['fam'] == 'rank1':
        pal, u = case['pal'], case['u']
        d = {'l': 3, 'q': [], 's': []}
        for v in ((1, 2), (2, 1), (1, -2), (4, 2), (3, 1)):
            for hh in itertools.product(pal, repeat=3):
                for t in (0, 1, -1):
                    G = [[float(ui * v[0]) for ui in u], [float(ui * v[1]) for ui in u]]
                    yield {'c': [float(t * v[0]), float(t * v[1])], 'G': G, 'h': [float(x) for x in hh], 'dims': d, 'A': [], 'b': []}
    else:
        inst = solve.planted(case['dims'], case['n'], case['p'], case['variant'], case['kind'])
        if inst is not None:
            yield inst


def run(case, prop, which, tier='quick'):
    """which: set of statuses whose oracle belongs to this property."""
    O = solve.Oracle(prop)
    outcomes = {}
    n = nontrivial = 0
    for inst in instances(case):
        d = inst['dims']
        rd = None
        for cfg in cfgs_for(d, len(inst['A']), case['cfgset'], tier):
            res, args = solve.call(inst, cfg)
            n += 1
            nv = len(O.viol)
            if cfg.get('badstart') and solve.bad_start_outcome(O, res, cfg['badstart'][0]):
                lab = 'invalid-start:' + type(res).__name__
            elif isinstance(res, Exception):
                lab = 'exc:' + type(res).__name__
            else:
                lab = str(res.get('status'))
                ext = bool(cfg.get('solver'))
                if lab == 'optimal' and 'optimal' in which:
                    solve.check_optimal(O, inst, res, cfg.get('entry', 'conelp'), cfg, external=ext)
                    nontrivial += 1
                    if cfg.get('entry') in ('socp', 'sdp') and not ext:
                        _wrapper_pieces(O, inst, cfg, res)
                elif lab == 'primal infeasible' and 'primal infeasible' in which and not ext:
                    solve.check_pinf(O, inst, res, cfg.get('entry', 'conelp'), cfg)
                    nontrivial += 1
                elif lab == 'dual infeasible' and 'dual infeasible' in which and not ext:
                    solve.check_dinf(O, inst, res, cfg.get('entry', 'conelp'), cfg)
                    nontrivial += 1
                if lab in which and inst.get('truth') and not ext and \
                        (cfg.get('opts') or {}).get('feastol', 1e-7) <= 1e-6:
                    # a planted truth contradicts the claimed status (decidable: the planted certificate is exact).
                    # Only at tight tolerances: with feastol 1e-2 a scaled-down feasible point of a bounded problem IS an
                    # approximate infeasibility certificate in the documented sense, so the claim is legitimate there.
                    t = inst['truth']
                    if lab == 'optimal' and t != 'optimal' or lab != 'optimal' and t == 'optimal':
                        O.bad('status-contradicts-planted-truth:%s-vs-%s' % (lab.replace(' ', '_'), t.replace(' ', '_')),
                              'solver claims %r on an instance planted as %r' % (lab, t))
            for v in O.viol[nv:]:
                v['sub'] = {'instance': {k: inst[k] for k in ('c', 'G', 'h', 'dims', 'A', 'b')}, 'cfg': cfg,
                            'detail': v.get('sub')}
                # instances whose [G; A] is rank deficient violate the documented assumptions of the solvers: what goes wrong
                # on them is keyed apart, so that a recorded finding about them cannot hide a violation on well-posed data
                if rd is None:
                    rd = '' if solve.rank_ok(inst) else ':rank-deficient-data'
                v['key'] = v['key'] + rd + '@' + cfg_tag(cfg)
            outcomes[lab] = outcomes.get(lab, 0) + 1
            if len(O.viol) > 40:
                break
        if len(O.viol) > 40:
            break
    return {'n': n, 'nontrivial': nontrivial, 'outcomes': outcomes, 'viol': O.viol, 'maxerr': O.maxerr}


def cfg_tag(cfg):
    """coarse call-site tag of a configuration (entry point + back-end), part of violation keys."""
    t = cfg.get('entry', 'conelp')
    if cfg.get('solver'):
        t += '/' + cfg['solver']
    return t


def _wrapper_pieces(O, inst, cfg, res):
    """sl/sq/ss, zl/zq/zs must be exactly the blocks of s and z of conelp on the stacked problem."""
    cfg2 = dict(cfg)
    cfg2['entry'] = 'conelp'
    res2, _ = solve.call(inst, cfg2)
    if isinstance(res2, Exception) or res2.get('status') != res.get('status'):
        O.bad('wrapper:status-differs-from-conelp', '%s gives %r but conelp on the stacked problem gives %r'
              % (cfg['entry'], res.get('status'), res2 if isinstance(res2, Exception) else res2.get('status')))
        return
    d = inst['dims']
    a = solve.stacked(res, d, cfg['entry'])
    b = solve.stacked(res2, d, 'conelp')
    for name, u, v in zip('xsyz', a, b):
        if u != v:
            O.bad('wrapper:%s-pieces-differ' % name, "%s: '%s' pieces are not exactly the blocks of conelp's %s"
                  % (cfg['entry'], name, name))
            return
    for k in ('primal objective', 'dual objective', 'gap', 'relative gap', 'primal infeasibility',
              'dual infeasibility', 'primal slack', 'dual slack', 'iterations'):
        if res.get(k) != res2.get(k):
            O.bad('wrapper:field-differs:%s' % k, '%s: field %r = %r but conelp gives %r' % (cfg['entry'], k, res.get(k), res2.get(k)))
            return
    # shapes of the pieces
    from cvxopt import matrix
    if cfg['entry'] == 'sdp':
        for pre in ('ss', 'zs'):
            for k, m in enumerate(d['s']):
                if res[pre][k].size != (m, m):
                    O.bad('wrapper:piece-shape', "%s[%d] has size %r, expected (%d,%d)" % (pre, k, res[pre][k].size, m, m))
                    return
    if cfg['entry'] == 'socp':
        for pre in ('sq', 'zq'):
            for k, m in enumerate(d['q']):
                if res[pre][k].size != (m, 1):
                    O.bad('wrapper:piece-shape', "%s[%d] has size %r, expected (%d,1)" % (pre, k, res[pre][k].size, m))
                    return
