"""C15 - dense matrices behave like the column-major arrays the manual (matrices.rst) describes.

Two parts, both emitted by `cases`:
  (a) bex : bounded-exhaustive enumeration of construction forms, index expressions (get and set), operators,
            in-place operators, attributes / built-ins and the elementwise functions, compared with the
            plain-Python reference model mc/ref/dense.py;
  (b) hist: explicit-state breadth-first search over histories of in-place operators, indexed assignments and
            size changes applied through two aliases (A, B = A) and one copy (C = +A).
"""
import operator, array, ctypes

from mc.ref import dense as R

PROPERTY = 'C15'
LEVEL = 'model_checking'
ENGINE = 'hist'
FLAVOURS = ('plain', 'asan')
TECHNIQUE = 'bounded-exhaustive differential testing against a reference model + explicit-state BFS over aliased update histories'
RULE = ('bex part: every (construction form | one- and two-argument index expression for get and set | operator and '
        'operand pairing | in-place operator | attribute/built-in | cvxopt.mul/div/max/min/sqrt/exp/log/cos/sin call) '
        'in the bounded domain, for shapes {0..3}x{0..3} and typecodes i,d,z (all pairs for binary operations); '
        'non-trivial = the reference model has an answer and the implementation returned a result that was compared '
        'element by element (refusals and unspecified cases are counted separately in outcomes).  '
        'hist part: one case = one initial configuration (typecode, shape, palette, alphabet); inner BFS over '
        'histories of in-place operators / indexed assignments / size changes through aliases A, B=A and copy C=+A; '
        'every transition replays its history prefix on fresh cvxopt objects; states are merged on the canonical key '
        'of (model state, complete implementation state incl. alias/buffer-identity pattern); large configurations are '
        'split into several cases by the residue class of the first action (complete, states merged within a case)')
ASSUME = ['matrices.rst is the specification; where it is silent the model returns UNSPEC and nothing is compared: '
          'c/A, c%A, e**D and D**(1x1 matrix); % with complex operands; sign of % for operands of opposite sign; '
          '** outside the real domain and 0j**e; max/min of complex or empty matrices; mul/div of numbers only; '
          'div with more than two arguments; elementwise functions of Python numbers; bool arguments; buffers with '
          'element formats other than C long/int, double, complex double; assignment of a one-element sequence to '
          'several entries; assignment with repeated indices and different values; empty right-hand sides whose '
          'shape differs from an empty left-hand side; A *= B with empty A; matrix() without arguments',
          'a specific exception class is demanded only for out-of-range integer indices (IndexError); everywhere '
          'else the model has no answer the check demands some exception, no crash and unchanged operands',
          'integer data, shapes, typecodes, aliasing are compared exactly; / ** and elementwise functions with '
          '1e-12 relative to max(1,|reference|)',
          'the buffer address of a matrix is read from the CPython object layout (pointer at offset 16 of the '
          'matrix object, validated against nrows/ncols/id at offsets 24/28/32 at the start of every case)',
          'numpy (from .cache/deps) is used only to build buffer-protocol arguments',
          'ASan flavour observes only accesses made by cvxopt\'s own C code']
BOUNDS = {'quick': 'plain build: shapes {0..3}^2 x typecodes i,d,z (48 matrices); construction: numbers x 25 size x 5 tc '
                   'arguments, sequences of length 0..6 (5 element-type patterns, list/tuple/range), dense and sparse '
                   'sources x 22 sizes x 5 tc, 176 buffer objects (array, memoryview.cast, bytes, numpy of 10 dtypes in '
                   'C/F/transposed/strided/negative-stride/0-size/3-D/0-D layouts), nested lists from 8 block atoms '
                   '(all 1- and 2-block-column combinations of 0..2 blocks) x 3 sizes x 4 tc; one-argument get: ints '
                   '-5..5 + {2^31-1, 2^31, 2^32, 2^32+1, 2^63-1, -2^32, -2^31-1} + 5 invalid kinds, all 1000 slices over '
                   '{None,-4..4}^3, all 820 lists and 820 int-matrices of length <=3 over -4..4; two-argument get: '
                   '130^2 index pairs per matrix (20 ints, 48 slices, 31 lists, 31 int-matrices); one-argument set: 129 '
                   'indices x 22-28 right-hand sides; two-argument set: 33^2 index pairs x ~20 right-hand sides; '
                   'operators + - * / % ** and in-place += -= *= /= %=: all 48x48 matrix pairs, 12 numbers in both '
                   'orders, sparse operands for += -=; attributes/built-ins on 3-4 value variants, 134 size '
                   'assignments; cvxopt.mul/div/max/min on all pairs, numbers, iterables and 1000 triples; '
                   'sqrt/exp/log/cos/sin on 3 value variants.  hist: 6 configurations (tc x {2x2, 2x3}) x {full '
                   'alphabet (168 actions) depth 2, core alphabet (84 actions) depth 3}.  asan build (interpreter '
                   '~100x slower): 8 matrices (4 shapes x d,z), 45^2 index pairs for get, 13^2 x 11 for set, all '
                   'buffers, 2 hist configurations at depth 2',
          'thorough': 'plain build: as quick with two-argument get over 496^2 index pairs per matrix (23 ints, 252 '
                      'slices, 137 lists, 84 int-matrices), two-argument set over 73^2 pairs x 28 right-hand sides, '
                      'nested lists from 11 block atoms; hist: full alphabet depth 3 and core alphabet depth 4 on the 6 '
                      'configurations.  asan build: 12 matrices (6 shapes x d,z), full one-argument index sets, 74^2 '
                      'pairs for get, 33x13 pairs x 11 right-hand sides for set, 3 hist configurations with the full '
                      'alphabet at depth 2'}

TOL = 1e-12
LARGE = [2 ** 31 - 1, 2 ** 31, 2 ** 32, 2 ** 32 + 1, 2 ** 63 - 1]
SHAPES = sorted([(r, c) for r in range(4) for c in range(4)], key=lambda s: (s[0] * s[1], s[0], s[1]))
ASAN_SHAPES = [(0, 0), (0, 2), (1, 1), (3, 1), (2, 3), (3, 3)]
TCS = 'idz'
NONE = None


# =========================================================================== value palettes
def entries(tc, n, pal, salt=0):
    """n distinct small values of type tc; pal (VERIF_SEED) selects one of four fixed palettes."""
    mul, off = [(1, 0), (2, 1), (3, -2), (1, 5)][pal % 4]
    ints = [mul * ((k + 1) * (1 if k % 2 == 0 else -1)) + off + salt for k in range(n)]
    if tc == 'i':
        return ints
    if tc == 'd':
        return [x + 0.5 for x in ints]
    return [complex(x, 0.5 * (k + 1) * (-1 if k % 3 == 0 else 1)) for k, x in enumerate(ints)]


def mdense(tc, shape, pal, salt=0):
    return R.Dense(tc, shape, entries(tc, shape[0] * shape[1], pal, salt))


# =========================================================================== model value -> cvxopt object
class PyBuf(R.Buffer):
    """Buffer model that carries the real Python object."""

    def __init__(self, tc, shape, rows, obj, label):
        R.Buffer.__init__(self, tc, shape, rows)
        self.obj, self.label = obj, label


def to_impl(x):
    from cvxopt import matrix, spmatrix
    if isinstance(x, R.Dense):
        return matrix(list(x.flat), x.size, x.tc)
    if isinstance(x, R.Sparse):
        ks = sorted(x.entries, key=lambda ij: (ij[1], ij[0]))
        return spmatrix([x.entries[k] for k in ks], [k[0] for k in ks], [k[1] for k in ks], x.size, x.tc)
    if isinstance(x, PyBuf):
        return x.obj
    if isinstance(x, list):
        return [to_impl(v) for v in x]
    if isinstance(x, tuple):
        return tuple(to_impl(v) for v in x)
    return x


def describe(x):
    """JSON-able description of a model value (for violation messages / replay)."""
    if isinstance(x, R.Dense):
        return {'matrix': x.tc, 'size': list(x.size), 'v': [describe(v) for v in x.flat]}
    if isinstance(x, R.Sparse):
        return {'spmatrix': x.tc, 'size': list(x.size), 'v': sorted([list(k), describe(v)] for k, v in x.entries.items())}
    if isinstance(x, PyBuf):
        return {'buffer': x.label}
    if isinstance(x, slice):
        return {'slice': [x.start, x.stop, x.step]}
    if isinstance(x, complex):
        return {'complex': [x.real, x.imag]}
    if isinstance(x, (list, tuple)):
        return [describe(v) for v in x]
    if isinstance(x, range):
        return {'range': len(x)}
    if x is None or isinstance(x, (int, float, str)):
        return x
    return repr(x)


def bufaddr(M):
    """address of the C buffer of a cvxopt matrix (CPython layout: PyObject_HEAD = 16 bytes, then void *buffer)."""
    return ctypes.c_void_p.from_address(id(M) + 16).value


def layout_ok():
    from cvxopt import matrix
    M = matrix([1.0, 2.0, 3.0, 4.0, 5.0, 6.0], (2, 3))
    nr = ctypes.c_int.from_address(id(M) + 24).value
    nc = ctypes.c_int.from_address(id(M) + 28).value
    tid = ctypes.c_int.from_address(id(M) + 32).value
    first = ctypes.c_double.from_address(bufaddr(M)).value
    return (nr, nc, tid, first) == (2, 3, 1, 1.0)


# =========================================================================== bookkeeping
class Ctx(object):
    def __init__(self):
        self.n = 0
        self.nontrivial = 0
        self.viol = []
        self.keys = {}
        self.outcomes = {}
        self.maxerr = 0.0
        self.states = 0
        self.transitions = 0
        self.traces = 0

    def out(self, label, k=1):
        self.outcomes[label] = self.outcomes.get(label, 0) + k

    def v(self, key, msg, sub=None):
        if key in self.keys:
            self.keys[key] += 1
            return
        self.keys[key] = 1
        if len(self.viol) < 60:
            self.viol.append({'key': key, 'msg': msg[:900], 'sub': sub})

    def result(self):
        return {'n': self.n, 'nontrivial': self.nontrivial, 'viol': self.viol, 'outcomes': self.outcomes,
                'maxerr': {'rel': self.maxerr}, 'states': self.states, 'transitions': self.transitions,
                'traces': self.traces}


def _close(g, w, tol, c):
    if g != g or w != w:
        return (g != g) and (w != w)
    if tol == 0.0:
        return g == w
    try:
        e = abs(g - w) / max(1.0, abs(w))
    except OverflowError:
        return False
    if c is not None and e > c.maxerr and e == e and e != float('inf'):
        c.maxerr = e
    return e <= tol


def cmp_result(mres, ires, tol, c, numtype=True):
    """None if the implementation result equals the model result, else (failure tag, message)."""
    from cvxopt import matrix
    if isinstance(mres, R.Dense):
        if not isinstance(ires, (matrix, FakeM)):
            return 'kind', 'expected a matrix, got %r' % (ires,)
        if ires.typecode != mres.tc:
            return 'typecode', 'typecode %s, reference %s' % (ires.typecode, mres.tc)
        if tuple(ires.size) != mres.size:
            return 'size', 'size %r, reference %r' % (tuple(ires.size), mres.size)
        got = list(ires)
        for k, (g, w) in enumerate(zip(got, mres.flat)):
            if type(g) is not type(w):
                return 'value', 'element %d has Python type %s, reference %s' % (k, type(g).__name__, type(w).__name__)
            if not _close(g, w, tol, c):
                tag = 'imag-part' if (isinstance(g, complex) and _close(g.real, w.real, tol, None)) else 'value'
                return tag, 'element %d is %r, reference %r (all: %r vs %r)' % (k, g, w, got[:9], mres.flat[:9])
        return None
    if isinstance(ires, matrix):
        return 'kind', 'expected the number %r, got a matrix' % (mres,)
    if mres is None:
        return None
    if isinstance(mres, bool) or isinstance(mres, (list, tuple, str)):
        return None if ires == mres and type(ires) is type(mres) else ('value', 'got %r, reference %r' % (ires, mres))
    if numtype and type(ires) is not type(mres):
        return 'value', 'got %r (%s), reference %r (%s)' % (ires, type(ires).__name__, mres, type(mres).__name__)
    if not isinstance(ires, (int, float, complex)) or not _close(ires, mres, tol, c):
        return 'value', 'got %r, reference %r' % (ires, mres)
    return None


def check_op(c, site, pat, sub, mfun, ifun, operands=(), tol=0.0, fresh=False, numtype=True):
    """Run one non-mutating operation on the model and on the implementation and compare.
    operands: implementation objects that must stay bit-identical.  Returns the implementation result or None."""
    from mc import cvx
    from cvxopt import matrix
    before = [cvx.image(o) for o in operands]
    mexc = None
    try:
        mres = mfun()
    except R.Refused as e:
        mres, mexc = None, e
    iexc = None
    try:
        ires = ifun()
    except Exception as e:
        ires, iexc = None, e
    c.n += 1
    key = 'C15:%s:%s:' % (site, pat)
    if [cvx.image(o) for o in operands] != before:
        c.v(key + 'operand-modified', 'an operand of a non-mutating operation changed', sub)
    if mres is R.UNSPEC:
        c.out('unspecified')
        return ires
    if mexc is not None:
        c.out('refused')
        if iexc is None:
            c.v(key + 'no-exception', 'manual excludes this (%s) but the implementation returned %s'
                % (mexc, _show(ires)), sub)
        elif mexc.index_only and not isinstance(iexc, IndexError):
            c.v(key + 'wrong-exception-class', 'out-of-range index must raise IndexError, got %s: %s'
                % (type(iexc).__name__, iexc), sub)
        return None
    if iexc is not None:
        c.v(key + 'unexpected-' + type(iexc).__name__, 'reference result %s but the implementation raised %s: %s'
            % (_show(mres), type(iexc).__name__, iexc), sub)
        return None
    bad = cmp_result(mres, ires, tol, c, numtype)
    if bad:
        c.v(key + bad[0], bad[1], sub)
        return ires
    c.out('agree')
    c.nontrivial += 1
    if fresh and isinstance(ires, matrix):
        for o in operands:
            if ires is o:
                c.v(key + 'result-is-operand', 'a regular operation returned one of its operands', sub)
            elif isinstance(o, matrix) and len(o) and len(ires) and bufaddr(o) == bufaddr(ires):
                c.v(key + 'shared-buffer', 'result shares the buffer of an operand', sub)
        if len(ires):
            ires[0] = ires[0] + 1
            if [cvx.image(o) for o in operands] != before:
                c.v(key + 'result-aliases-operand', 'mutating the result changed an operand', sub)
    return ires


def _show(x):
    from cvxopt import matrix
    if isinstance(x, (matrix, FakeM)):
        return 'matrix(tc=%s, size=%r, %r)' % (x.typecode, tuple(x.size), list(x)[:9])
    if isinstance(x, R.Dense):
        return 'matrix(tc=%s, size=%r, %r)' % (x.tc, x.size, x.flat[:9])
    return repr(x)


# =========================================================================== index expressions
def ikind(d):
    if d[0] == 'int':
        return 'bigint' if abs(d[1]) >= 2 ** 31 - 1 else 'int'
    return d[0]


def mk_index(d):
    """index descriptor -> (model index, implementation index)."""
    from cvxopt import matrix
    k = d[0]
    if k == 'int':
        return d[1], d[1]
    if k == 'slice':
        s = slice(d[1], d[2], d[3])
        return s, s
    if k == 'list':
        return list(d[1]), list(d[1])
    if k == 'imat':
        L = list(d[1])
        n = len(L)
        shape = (n, 1) if (sum(abs(v) for v in L) % 2 == 0 or n < 2) else (1, n)
        return R.Dense('i', shape, L), matrix(L, shape, 'i')
    if k == 'bad':
        if d[1] == 'float':
            return 1.0, 1.0
        if d[1] == 'none':
            return None, None
        if d[1] == 'str':
            return 'a', 'a'
        if d[1] == 'dmat':
            return R.Dense('d', (1, 1), [0.0]), matrix([0.0])
        if d[1] == 'floatlist':
            return [0, 1.0], [0, 1.0]
    raise AssertionError(d)


def _lists(maxlen, alpha):
    out = [[]]
    prev = [[]]
    for _ in range(maxlen):
        prev = [p + [a] for p in prev for a in alpha]
        out += prev
    return out


def _slices(starts, stops, steps):
    return [('slice', a, b, s) for a in starts for b in stops for s in steps]


FULL9 = [None, -4, -3, -2, -1, 0, 1, 2, 3, 4]
BAD = [('bad', 'float'), ('bad', 'dmat'), ('bad', 'floatlist'), ('bad', 'none'), ('bad', 'str')]


def index_set(name):
    """named, fixed index-descriptor sets (simplest first)."""
    ints = [('int', k) for k in sorted(range(-5, 6), key=lambda v: (abs(v), v < 0))] + [('int', k) for k in LARGE]
    if name == 'int':
        return ints + [('int', -2 ** 32), ('int', -2 ** 31 - 1)] + BAD
    if name == 'slice-full':
        return _slices(FULL9, FULL9, FULL9)
    if name == 'list-full':
        return [('list', L) for L in _lists(3, list(range(-4, 5)))]
    if name == 'imat-full':
        return [('imat', L) for L in _lists(3, list(range(-4, 5)))]
    # ---- two-argument get, quick
    if name == 'q2-int':
        return ints + [('int', -2 ** 32), ('int', -2 ** 31 - 1)] + BAD[:2]
    if name == 'q2-slice':
        return _slices([None, -2, 0, 1], [None, -1, 1, 3], [None, -1, 2])
    if name == 'q2-list':
        return [('list', L) for L in _lists(2, [-3, -1, 0, 1, 2])]
    if name == 'q2-imat':
        return [('imat', L) for L in _lists(2, [-3, -1, 0, 1, 2])]
    # ---- two-argument get, thorough
    if name == 't2-int':
        return ints + [('int', -2 ** 32), ('int', -2 ** 31 - 1)] + BAD
    if name == 't2-slice':
        return _slices([None, -3, -1, 0, 1, 2], [None, -3, -1, 0, 1, 2, 4], [None, -2, -1, 1, 2, 3]) 
    if name == 't2-list':
        return [('list', L) for L in _lists(2, [-4, -3, -2, -1, 0, 1, 2, 3])] + \
               [('list', L) for L in _lists(3, [-3, -1, 0, 2]) if len(L) == 3]
    if name == 't2-imat':
        return [('imat', L) for L in _lists(2, [-4, -3, -1, 0, 1, 2, 3])] + \
               [('imat', L) for L in _lists(3, [-3, 0, 2]) if len(L) == 3]
    # ---- one-argument set
    if name == 's1-int':
        return ints + BAD[:3]
    if name == 's1-slice':
        return _slices([None, -2, 0, 1], [None, -1, 1, 3], [None, -1, 2])
    if name == 's1-list':
        return [('list', L) for L in _lists(2, [-3, -1, 0, 1, 2])]
    if name == 's1-imat':
        return [('imat', L) for L in _lists(2, [-3, -1, 0, 1, 2])]
    # ---- two-argument set, quick
    if name == 'sq-int':
        return [('int', k) for k in (0, 1, -1, 2, -3, 2 ** 31, 2 ** 32)] + BAD[:1]
    if name == 'sq-slice':
        return _slices([None, 1], [None, 2], [None, -1, 2])
    if name == 'sq-list':
        return [('list', L) for L in ([], [0], [-1], [2], [0, 1], [1, -2], [1, 1])]
    if name == 'sq-imat':
        return [('imat', L) for L in ([], [0], [-1], [0, 1], [1, -2], [3])]
    # ---- two-argument set, thorough
    if name == 'st-int':
        return [('int', k) for k in (0, 1, -1, 2, -2, 3, -3, -4, 2 ** 31 - 1, 2 ** 31, 2 ** 32, 2 ** 32 + 1, 2 ** 63 - 1)] + BAD[:2]
    if name == 'st-slice':
        return _slices([None, -2, 1], [None, -1, 2], [None, -1, 2])
    if name == 'st-list':
        return [('list', L) for L in _lists(2, [-2, 0, 1])] + [('list', [2]), ('list', [-3, 2]), ('list', [0, 1, 2])]
    if name == 'st-imat':
        return [('imat', L) for L in _lists(2, [-2, 0, 1])] + [('imat', [2]), ('imat', [0, 1, 2])]
    # ---- asan (quick): reduced
    if name == 'a-int':
        return [('int', k) for k in (0, 1, -1, 2, -2, 3, -3, -4, 4)] + [('int', k) for k in LARGE]
    if name == 'a-slice':
        return _slices([None, -2, 1], [None, -1, 3], [None, -1, 2])
    if name == 'a-list':
        return [('list', L) for L in _lists(2, [-3, -1, 0, 2])]
    if name == 'a-imat':
        return [('imat', L) for L in _lists(2, [-3, -1, 0, 2])]
    # ---- asan quick: smallest sets that still reach every index code path with in-range, negative, out-of-range
    #      and huge values
    if name == 'b-int':
        return [('int', k) for k in (0, 1, -1, 2, -3, 4, -5)] + [('int', k) for k in LARGE] + BAD[:1]
    if name == 'b-slice':
        return _slices([None, -2, 1], [None, 3], [None, -1])
    if name == 'b-list':
        return [('list', L) for L in _lists(2, [-3, 0, 2])]
    if name == 'b-imat':
        return [('imat', L) for L in _lists(2, [-3, 0, 2])]
    if name == 'sa-int':
        return [('int', k) for k in (0, -1, 2, 2 ** 32)]
    if name == 'sa-slice':
        return _slices([None, 1], [None], [None, -1])
    if name == 'sa-list':
        return [('list', L) for L in ([], [0], [1, -2], [3])]
    if name == 'sa-imat':
        return [('imat', L) for L in ([0], [1, -2], [-4])]
    raise AssertionError(name)


KINDS = ('int', 'slice', 'list', 'imat')


def run_get1(case, c):
    tc, shape = case['tc'], tuple(case['shape'])
    mA = mdense(tc, shape, case['pal'])
    A = to_impl(mA)
    for d in index_set(case['set']):
        mi, ii = mk_index(d)
        ops = [A] + ([ii] if d[0] == 'imat' else [])
        check_op(c, 'getitem', ikind(d), {'A': describe(mA), 'index': describe(d)},
                 lambda: mA.getitem(mi), lambda: A[ii], ops, fresh=True)


def run_get2(case, c):
    tc, shape = case['tc'], tuple(case['shape'])
    mA = mdense(tc, shape, case['pal'])
    A = to_impl(mA)
    cols = []
    for nm in case['colsets']:
        cols += [(d,) + mk_index(d) for d in index_set(nm)]
    for dr in index_set(case['rowset']):
        mr, ir = mk_index(dr)
        kr = ikind(dr)
        for dc, mc_, ic in cols:
            ops = [A] + ([ir] if dr[0] == 'imat' else []) + ([ic] if dc[0] == 'imat' else [])
            check_op(c, 'getitem', kr + ',' + ikind(dc),
                     {'A': describe(mA), 'index': [describe(dr), describe(dc)]},
                     lambda: mA.getitem((mr, mc_)), lambda: A[ir, ic], ops, fresh=True)
    if case.get('extra'):
        for t in ((0,), (0, 0, 0), ()):
            check_op(c, 'getitem', 'tuple%d' % len(t), {'A': describe(mA), 'index': list(t)},
                     lambda: mA.getitem(t), lambda: A[t], [A])


# --------------------------------------------------------------------------- indexed assignment
def rhs_values(tc, shape, reduced):
    """right-hand sides for an assignment whose left-hand side has `shape` (p, q): (label, model value)."""
    p, q = shape
    n = p * q
    out = [('num-i', 7), ('num-d', 2.5), ('num-z', 1 + 2j)]
    for t in TCS:
        out.append(('m11-' + t, R.Dense(t, (1, 1), entries(t, 1, 1, 40))))
    for t in TCS:
        out.append(('mat-' + t, R.Dense(t, (p, q), entries(t, n, 2, 20))))
    out.append(('mat-rows+1-' + tc, R.Dense(tc, (p + 1, q), entries(tc, (p + 1) * q, 2, 20))))
    if p != q:
        out.append(('mat-transposed-' + tc, R.Dense(tc, (q, p), entries(tc, n, 2, 20))))
    if q != 1:
        out.append(('mat-flat-' + tc, R.Dense(tc, (n, 1), entries(tc, n, 2, 20))))
    out.append(('list-i', entries('i', n, 3, 30)))
    out.append(('list-d', entries('d', n, 3, 30)))
    out.append(('list-long', entries('i', n + 1, 3, 30)))
    full = dict(((i, j), float(10 + i + 3 * j)) for i in range(p) for j in range(q))
    part = dict((k, v) for k, v in full.items() if (k[0] + k[1]) % 2 == 0)
    out.append(('sp-d', R.Sparse('d', (p, q), part)))
    out.append(('sp-z', R.Sparse('z', (p, q), dict((k, complex(v, 1.0)) for k, v in part.items()))))
    if not reduced:
        out.append(('sp-d-full', R.Sparse('d', (p, q), full)))
        out.append(('sp-d-cols+1', R.Sparse('d', (p, q + 1), {})))
        out.append(('tuple-i', tuple(entries('i', n, 3, 31))))
        out.append(('range', range(n)))
        out.append(('list-z', entries('z', n, 3, 30)))
        if n:
            out.append(('list-empty', []))
        vals = [float(v) for v in entries('i', n, 1, 50)]
        out.append(('array-d', PyBuf('d', (n,), vals, array.array('d', vals), "array('d')")))
        ivals = entries('i', n, 1, 50)
        out.append(('array-l', PyBuf('i', (n,), ivals, array.array('l', ivals), "array('l')")))
        out.append(('none', None))
        out.append(('str', 'ab'))
        out.append(('list-mixed', [1, 'a'][:max(n, 1)] if n <= 2 else [1, 'a'] + [0] * (n - 2)))
    if reduced == 'asan':
        keep = ('num-d', 'num-z', 'm11-' + tc, 'm11-z', 'mat-' + tc, 'mat-z', 'mat-rows+1-' + tc, 'list-d', 'list-long',
                'sp-d', 'sp-z')
        out = [(l, v) for l, v in out if l in keep]
    seen, res = set(), []
    for label, v in out:
        if isinstance(v, R.Dense) and v.is11:
            label = 'm11-' + v.tc
        if label not in seen:
            seen.add(label)
            res.append((label, v))
    return res


def _lhs_shape(mA, midx):
    """shape of the left-hand side selected by a model index, or (1, 1) if the index is invalid (input generation
    only: decides which right-hand sides are 'right-sized')."""
    try:
        if isinstance(midx, tuple):
            a = R.norm_index(midx[0], mA.size[0])[1]
            b = R.norm_index(midx[1], mA.size[1])[1]
            return (len(a), len(b))
        return (len(R.norm_index(midx, len(mA))[1]), 1)
    except R.Refused:
        return (1, 1)


def check_set(c, mA0, midx, iidx, pat, rlabel, mval, sub):
    """One indexed assignment on fresh copies of the matrix."""
    from mc import cvx
    from cvxopt import matrix
    mA = mA0.copy()
    A = to_impl(mA0)
    ival = to_impl(mval)
    addr, ident = bufaddr(A), id(A)
    others = [o for o in ((list(iidx) if isinstance(iidx, tuple) else [iidx]) + [ival])
              if type(o).__name__ in ('matrix', 'spmatrix', 'array')]
    obefore = [cvx.image(o) if not isinstance(o, array.array) else ('arr', o.tobytes()) for o in others]
    before = cvx.image(A)
    mexc = None
    try:
        mres = mA.setitem(midx, mval)
    except R.Refused as e:
        mres, mexc = None, e
    iexc = None
    try:
        A[iidx] = ival
    except Exception as e:
        iexc = e
    c.n += 1
    key = 'C15:setitem:%s:rhs=%s,A=%s:' % (pat, rlabel, mA0.tc)
    oafter = [cvx.image(o) if not isinstance(o, array.array) else ('arr', o.tobytes()) for o in others]
    if oafter != obefore:
        c.v(key + 'operand-modified', 'index or right-hand side object changed', sub)
    if A.typecode != mA0.tc or (len(A) and bufaddr(A) != addr):
        c.v(key + 'typecode-or-buffer-changed', 'assignment changed typecode (%s) or moved the buffer' % A.typecode, sub)
        return
    if mres is R.UNSPEC:
        c.out('unspecified')
        return
    if mexc is not None:
        c.out('refused')
        if iexc is None:
            c.v(key + 'no-exception', 'manual excludes this (%s) but the assignment succeeded, A = %s' % (mexc, _show(A)), sub)
        else:
            if mexc.index_only and not isinstance(iexc, IndexError):
                c.v(key + 'wrong-exception-class', 'out-of-range index must raise IndexError, got %s: %s'
                    % (type(iexc).__name__, iexc), sub)
            if cvx.image(A) != before:
                c.v(key + 'modified-on-refusal', 'refused assignment changed the matrix: %s' % _show(A), sub)
        return
    if iexc is not None:
        c.v(key + 'unexpected-' + type(iexc).__name__, 'documented assignment raised %s: %s (reference: %s)'
            % (type(iexc).__name__, iexc, _show(mA)), sub)
        return
    bad = cmp_result(mA, A, 0.0, c)
    if bad:
        c.v(key + bad[0], 'after assignment: ' + bad[1], sub)
        return
    c.out('agree')
    c.nontrivial += 1


def run_set1(case, c):
    tc, shape = case['tc'], tuple(case['shape'])
    mA0 = mdense(tc, shape, case['pal'])
    cache = {}
    for d in index_set(case['set']):
        mi, ii = mk_index(d)
        ls = _lhs_shape(mA0, mi)
        if ls not in cache:
            cache[ls] = rhs_values(tc, ls, case.get('reduced', False))
        for rlabel, mval in cache[ls]:
            check_set(c, mA0, mi, ii, ikind(d), rlabel, mval,
                      {'A': describe(mA0), 'index': describe(d), 'value': describe(mval)})


def run_set2(case, c):
    tc, shape = case['tc'], tuple(case['shape'])
    mA0 = mdense(tc, shape, case['pal'])
    cols = []
    for nm in case['colsets']:
        cols += [(d,) + mk_index(d) for d in index_set(nm)]
    cache = {}
    for dr in index_set(case['rowset']):
        mr, ir = mk_index(dr)
        for dc, mc_, ic in cols:
            ls = _lhs_shape(mA0, (mr, mc_))
            if ls not in cache:
                cache[ls] = rhs_values(tc, ls, case.get('reduced', False))
            for rlabel, mval in cache[ls]:
                check_set(c, mA0, (mr, mc_), (ir, ic), ikind(dr) + ',' + ikind(dc), rlabel, mval,
                          {'A': describe(mA0), 'index': [describe(dr), describe(dc)], 'value': describe(mval)})


# =========================================================================== construction
SIZE_BAD = [(-1, 2), (2, -1), (2,), [2, 1], (2 ** 32 + 1, 1), (1, 2 ** 32 + 1), (2 ** 32, 2 ** 32), (1.0, 1)]
TC_OPTS = [None, 'i', 'd', 'z', 'x']


def _call_matrix(ix, size, tc):
    from cvxopt import matrix
    if size is None and tc is None:
        return matrix(ix)
    if tc is None:
        return matrix(ix, size)
    if size is None:
        return matrix(ix, tc=tc)
    return matrix(ix, size, tc)


def _sizetag(size, n):
    if size is None:
        return 'none'
    if isinstance(size, tuple) and len(size) == 2 and all(isinstance(v, int) for v in size):
        if max(size) >= 2 ** 31:
            return 'huge'
        if min(size) < 0:
            return 'negative'
        return 'fits' if (n is None or size[0] * size[1] == n) else 'mismatch'
    return 'malformed'


def check_cons(c, form, mx, size, tc, n=None):
    ix = to_impl(mx)
    ops = [o for o in (ix if isinstance(ix, list) else [ix]) if type(o).__name__ in ('matrix', 'spmatrix')]
    if isinstance(ix, list):
        for col in ix:
            if isinstance(col, list):
                ops += [o for o in col if type(o).__name__ in ('matrix', 'spmatrix')]
    st = _sizetag(size, n)
    pat = '%s:size=%s:tc=%s' % (form, st, tc if st != 'huge' else 'any')
    return check_op(c, 'matrix', pat, {'x': describe(mx), 'size': describe(size), 'tc': tc},
                    lambda: R.construct(mx, size, tc), lambda: _call_matrix(ix, size, tc), ops, fresh=True)


def seq_patterns(n, pal):
    i, d, z = entries('i', n, pal), entries('d', n, pal), entries('z', n, pal)
    pats = [('i', i), ('d', d), ('z', z),
            ('id', [i[k] if k % 2 else d[k] for k in range(n)]),
            ('idz', [[i, d, z][(k + 1) % 3][k] for k in range(n)])]
    return pats


def buffers(pal):
    """(label, PyBuf) for every buffer-protocol argument form in the bounded domain."""
    out = []

    def add(label, tc, shape, rows, obj):
        out.append(PyBuf(tc, shape, rows, obj, label))
    iv, dv, zv = entries('i', 6, pal), entries('d', 6, pal), entries('z', 6, pal)
    for code, tc in (('i', 'i'), ('l', 'i'), ('d', 'd'), ('f', None), ('q', None), ('b', None), ('L', None)):
        for n in (0, 3):
            vals = [abs(v) for v in (iv if code != 'd' and code != 'f' else dv)[:n]] if code == 'L' else \
                   (iv if code not in 'df' else dv)[:n]
            add("array('%s',%d)" % (code, n), tc, (n,), list(vals), array.array(code, vals))
    a = array.array('d', dv[:4])
    add("memoryview(array('d'))", 'd', (4,), list(dv[:4]), memoryview(a))
    add("memoryview(array('d')).cast('B')", None, (32,), [], memoryview(a).cast('B'))
    add("memoryview(array('d')).cast('B').cast('d',(2,2))", 'd', (2, 2), [dv[0:2], dv[2:4]],
        memoryview(a).cast('B').cast('d', (2, 2)))
    add("memoryview(array('l')).cast('B').cast('l',(3,2))", 'i', (3, 2), [iv[0:2], iv[2:4], iv[4:6]],
        memoryview(array.array('l', iv)).cast('B').cast('l', (3, 2)))
    add('bytes', None, (3,), [], b'abc')
    add('bytearray', None, (3,), [], bytearray(b'abc'))
    try:
        import numpy as np
    except ImportError:
        return out
    dts = [('int64', 'i', iv), ('int32', 'i', iv), ('float64', 'd', dv), ('complex128', 'z', zv),
           ('float32', None, dv), ('int16', None, iv), ('uint64', None, [abs(v) for v in iv]), ('bool', None, [1, 0] * 3),
           ('>i8', None, iv), ('>f8', None, dv)]
    for dt, tc, vals in dts:
        base = np.array(vals, dtype=dt)

        def addnp(label, arr):
            add('numpy %s %s' % (dt, label), tc, arr.shape, arr.tolist() if tc else [], arr)
        addnp('1-D n=6', base)
        addnp('1-D n=0', base[:0])
        addnp('1-D [::2]', base[::2])
        addnp('1-D [::-1]', base[::-1])
        addnp('1-D [4:1:-2]', base[4:1:-2])
        c23 = base.reshape(2, 3)
        addnp('2-D C (2,3)', c23)
        addnp('2-D F (2,3)', np.asfortranarray(c23))
        addnp('2-D (3,2).T', base.reshape(3, 2).T)
        addnp('2-D [::2,:]', c23[::2, :])
        addnp('2-D [:,::-1]', c23[:, ::-1])
        addnp('2-D [::-1,::2]', c23[::-1, ::2])
        addnp('2-D (0,3)', c23[:0, :])
        addnp('2-D (2,0)', c23[:, :0])
        addnp('2-D (1,1)', c23[1:, 2:])
        addnp('2-D (6,1)', base.reshape(6, 1))
        if tc in ('d', 'i'):
            addnp('3-D (1,2,3)', base.reshape(1, 2, 3))
            addnp('0-D', np.array(vals[0], dtype=dt))
    return out


def nested_atoms(tier, pal):
    e = entries
    at = [('n-i', 3), ('n-d', 1.5), ('n-z', 2j),
          ('m21-d', R.Dense('d', (2, 1), e('d', 2, pal))), ('m12-i', R.Dense('i', (1, 2), e('i', 2, pal, 10))),
          ('m22-z', R.Dense('z', (2, 2), e('z', 4, pal, 20))), ('m01-i', R.Dense('i', (0, 1), [])),
          ('sp21-d', R.Sparse('d', (2, 1), {(1, 0): 7.5}))]
    if tier == 'thorough':
        at += [('m11-i', R.Dense('i', (1, 1), [9])), ('sp12-z', R.Sparse('z', (1, 2), {(0, 1): 1 + 2j})),
               ('m00-d', R.Dense('d', (0, 0), []))]
    return at


def block_columns(atoms):
    cols = [[]]
    cols += [[a] for a in atoms]
    cols += [[a, b] for a in atoms for b in atoms]
    return cols


def run_cons(case, c):
    form, pal = case['form'], case['pal']
    if form == 'number':
        for x in (3, -1.5, 2 + 1j, 0, True):
            for size in [None] + SHAPES + SIZE_BAD:
                for tc in TC_OPTS:
                    check_cons(c, 'number-' + type(x).__name__, x, size, tc)
    elif form == 'seq':
        n = case['n']
        for pname, vals in seq_patterns(n, pal):
            conts = [('list', list(vals)), ('tuple', tuple(vals))]
            if pname == 'i':
                conts.append(('range', range(n)))
            for cname, x in conts:
                for size in [None] + SHAPES + SIZE_BAD[:5]:
                    for tc in TC_OPTS:
                        check_cons(c, '%s-%s' % (cname, pname), x, size, tc, n)
        for x in ([1, 'a'], [1, None], (1, [2]), 'ab', None, {1: 2}, [1, True]):
            check_cons(c, 'bad-argument', x, None, None)
    elif form in ('matrix', 'sparse'):
        shape = tuple(case['shape'])
        n = shape[0] * shape[1]
        srcs = []
        if form == 'matrix':
            srcs = [('matrix-' + t, mdense(t, shape, pal)) for t in TCS]
        else:
            for t in 'dz':
                vals = entries(t, n, pal)
                full = dict(((k % shape[0], k // shape[0]), vals[k]) for k in range(n)) if n else {}
                srcs.append(('sparse-%s-full' % t, R.Sparse(t, shape, full)))
                srcs.append(('sparse-%s-part' % t, R.Sparse(t, shape, dict((k, v) for k, v in full.items() if (k[0] + 2 * k[1]) % 3 != 1))))
                srcs.append(('sparse-%s-empty' % t, R.Sparse(t, shape, {})))
        for label, mx in srcs:
            for size in [None] + SHAPES + SIZE_BAD[:5]:
                for tc in TC_OPTS:
                    check_cons(c, label, mx, size, tc, n)
    elif form == 'buffer':
        bufs = buffers(pal)
        for b in bufs[case['lo']:case['hi']]:
            n = 1
            for v in b.shape:
                n *= v
            sizes = [None, (n, 1), (1, n), (n + 1, 1)]
            if len(b.shape) == 2:
                sizes += [(b.shape[1], b.shape[0]), (2, 3), (3, 2)]
            seen = []
            for size in sizes:
                if size in seen:
                    continue
                seen.append(size)
                for tc in TC_OPTS[:4]:
                    check_cons(c, 'buffer-' + (b.tc or 'other'), b, size, tc, n)
    elif form == 'nested':
        atoms = nested_atoms(case['tier'], pal)
        cols = block_columns(atoms)
        first = cols[case['first']]
        for second in [None] + cols:
            names = [[a[0] for a in first]] + ([[a[0] for a in second]] if second is not None else [])
            mx = [[a[1] for a in first]] + ([[a[1] for a in second]] if second is not None else [])
            try:
                tot = len(R.construct(mx))
            except Exception:
                tot = 1
            variants = [('nested', mx)]
            if second is None and first:
                variants.append(('flat', mx[0]))
            for vname, x in variants:
                for size in (None, (tot, 1), (1, tot + 1)):
                    for tc in TC_OPTS[:4]:
                        check_cons(c, 'blocks-' + vname, x, size, tc, tot)
        if case['first'] == 0:
            m = R.Dense('d', (2, 1), [1.5, 2.5])
            for x in ([[1, 2], m], [m, [1, 2]], [[m], 3], [[1, [2]]], [[1, 'a']], [[m, None]], [(1, 2), (3, 4)], [[1, 2], (3, 4)]):
                check_cons(c, 'blocks-malformed', x, None, None)
    else:
        raise AssertionError(form)


# =========================================================================== operators
NUMS = [0, 1, 2, -3, 0.0, 0.5, -1.5, 2.0, 0j, 2j, 1 - 1j, -2 + 0j]
BINOPS = [('+', operator.add), ('-', operator.sub), ('*', operator.mul), ('/', operator.truediv),
          ('%', operator.mod), ('**', operator.pow)]
IOPS = [('+', operator.iadd), ('-', operator.isub), ('*', operator.imul), ('/', operator.itruediv),
        ('%', operator.imod)]


def okind(x):
    if isinstance(x, R.Dense):
        return ('m11-' if x.is11 else 'mat-') + x.tc
    if isinstance(x, R.Sparse):
        return 'sp-' + x.tc
    return 'num-' + R.num_tc(x)


def _tol(op):
    return TOL if op in ('/', '**') else 0.0


def check_binop(c, op, fn, ma, mb):
    from mc import cvx
    from cvxopt import matrix
    a, b = to_impl(ma), to_impl(mb)
    ops = [o for o in (a, b) if isinstance(o, matrix)]
    pat = '%s:%s,%s' % (op, okind(ma), okind(mb))
    sub = {'a': describe(ma), 'op': op, 'b': describe(mb)}
    r = check_op(c, 'binop', pat, sub, lambda: R.binop(op, ma, mb), lambda: fn(a, b), ops, tol=_tol(op), fresh=True)
    if isinstance(r, matrix) and len(r):
        # vice versa: mutating an operand afterwards must not change the result
        rb = cvx.image(r)
        for o in ops:
            if len(o):
                o[0] = o[0] + 1
        if cvx.image(r) != rb:
            c.v('C15:binop:%s:operand-aliases-result' % pat, 'mutating an operand changed an earlier result', sub)


class FakeM(object):
    """observation of a matrix made in another process: typecode, size, values."""

    def __init__(self, tc, size, vals):
        self.typecode, self.size, self.vals = tc, tuple(size), list(vals)

    def __iter__(self):
        return iter(self.vals)


def isolated(fn):
    """Run fn() in a forked child (memory-unsafe candidates); -> ('ok', picklable result) | ('died', reason).
    On the ASan flavour the child's sanitizer reports are returned as result['asan'].  A child that ran into its
    20 s alarm is retried (twice): a deterministic hang reproduces, a starved child on a loaded machine does not."""
    for attempt in range(3):
        how, res = _isolated_once(fn)
        if not (how == 'died' and res == 'killed by signal 14'):
            break
    return how, res


def _isolated_once(fn):
    import os, pickle, signal, gc
    from mc import asan
    rd, wr = os.pipe()
    pid = os.fork()
    if pid == 0:
        code = 0
        try:
            os.close(rd)
            import resource
            resource.setrlimit(resource.RLIMIT_CORE, (0, 0))
            signal.alarm(20)
            if asan.active():
                asan.begin()
            res = fn()
            if asan.active():
                res['asan'] = asan.errors()
            with os.fdopen(wr, 'wb') as f:
                pickle.dump(res, f)
        except BaseException:
            code = 3
        finally:
            os._exit(code)
    os.close(wr)
    with os.fdopen(rd, 'rb') as f:
        data = f.read()
    _, st = os.waitpid(pid, 0)
    if os.WIFSIGNALED(st):
        return 'died', 'killed by signal %d' % os.WTERMSIG(st)
    if os.WEXITSTATUS(st) != 0 or not data:
        return 'died', 'exit status %d' % os.WEXITSTATUS(st)
    return 'ok', pickle.loads(data)


def _observe_iop(fn, ma0, mb):
    """perform a <op>= b on fresh implementation objects; return a picklable observation."""
    from mc import cvx
    a = to_impl(ma0)
    alias = a
    b = to_impl(mb)
    before, addr = cvx.image(a), bufaddr(a)
    bb = cvx.image(b)
    obs = {'iexc': None, 'same': None, 'rshow': None}
    try:
        r = fn(a, b)
        obs['same'] = r is alias
        obs['rshow'] = _show(r)
    except Exception as e:
        obs['iexc'] = (type(e).__name__, str(e))
    obs['b_unchanged'] = cvx.image(b) == bb
    obs['tc'], obs['size'], obs['vals'] = alias.typecode, tuple(alias.size), list(alias)
    obs['buf_same'] = (not len(alias)) or bufaddr(alias) == addr
    obs['unchanged'] = cvx.image(alias) == before
    r = a = alias = None            # deallocation happens here (inside the child when isolated)
    return obs


def _is_zero_scalar(x):
    if isinstance(x, R.Dense):
        return x.is11 and x.flat[0] == 0
    return R.is_num(x) and x == 0


def check_iop(c, op, fn, ma0, mb, site='iop'):
    """a <op>= b on fresh objects: identity, typecode, buffer kept; refused exactly when the type would change.
    Divisions / remainders by a zero scalar are executed in a forked child."""
    ma = ma0.copy()
    mbd = mb.todense() if isinstance(mb, R.Sparse) else mb
    zero = op in ('/', '%') and _is_zero_scalar(mb)
    pat = '%s=:A=%s:b=%s%s' % (op, okind(ma0), okind(mb), '-zero' if zero else '')
    key = 'C15:%s:%s:' % (site, pat)
    sub = {'A': describe(ma0), 'op': op + '=', 'b': describe(mb)}
    mexc = None
    try:
        mres = R.iop(op, ma, mbd)
    except R.Refused as e:
        mres, mexc = None, e
    c.n += 1
    from mc import asan
    if zero and not asan.active():
        # plain build: a use-after-free / double free would take the worker down (or corrupt its heap), so these
        # run in a forked child.  ASan build: the sanitizer reports and survives them (recover mode, quarantine),
        # and forking a sanitized process is very slow, so they run in-process and the engine collects the reports.
        how, obs = isolated(lambda: _observe_iop(fn, ma0, mb))
        if how == 'died':
            c.v(key + 'crash', 'interpreter died (%s) during/after the in-place operation' % obs, sub)
            return
        for e in obs.get('asan', []):
            c.v('asan:%s:%s:%s' % (e['kind'], e['access'], e['where']),
                'AddressSanitizer: %s (%s) in %s line %s during %s' % (e['kind'], e['access'], e['where'], e['line'], pat), sub)
    else:
        obs = _observe_iop(fn, ma0, mb)
    tc0 = ma0.tc
    A = FakeM(obs['tc'], obs['size'], obs['vals'])
    if not obs['b_unchanged']:
        c.v(key + 'operand-modified', 'right operand of an in-place operation changed', sub)
    if mres is R.UNSPEC:
        c.out('unspecified')
        return
    iexc = obs['iexc']
    if mexc is not None:
        c.out('refused')
        if iexc is None:
            what = []
            if not obs['same']:
                what.append('returned a new object %s' % obs['rshow'])
            if obs['tc'] != tc0:
                what.append('typecode of A changed in place from %s to %s' % (tc0, obs['tc']))
            c.v(key + 'no-exception', 'manual excludes this in-place operation (%s) but it was performed: %s; A = %s'
                % (mexc, '; '.join(what) or 'A modified in place', _show(A)), sub)
        elif not obs['unchanged'] or not obs['buf_same']:
            c.v(key + 'modified-on-refusal', 'refused in-place operation (%s) changed A: now %s' % (iexc[0], _show(A)), sub)
        return
    if iexc is not None:
        c.v(key + 'unexpected-' + iexc[0], 'documented in-place operation raised %s: %s' % iexc, sub)
        return
    if not obs['same']:
        c.v(key + 'new-object', 'in-place operator returned a new object (%s); the alias still holds %s'
            % (obs['rshow'], _show(A)), sub)
        return
    if obs['tc'] != tc0 or not obs['buf_same']:
        c.v(key + 'typecode-or-buffer-changed', 'in-place operator changed typecode/buffer of A', sub)
        return
    bad = cmp_result(ma, A, _tol(op), c)
    if bad:
        c.v(key + bad[0], 'after in-place operation: ' + bad[1], sub)
        return
    c.out('agree')
    c.nontrivial += 1


def all_matrices(pal, shapes, salt=7):
    return [mdense(t, s, pal, salt) for s in shapes for t in TCS]


def run_arith(case, c):
    tc, shape, pal = case['tc'], tuple(case['shape']), case['pal']
    shapes = [tuple(s) for s in case['shapes']]
    ma = mdense(tc, shape, pal)
    for mb in all_matrices(pal, shapes):
        for op, fn in BINOPS:
            check_binop(c, op, fn, ma, mb)
    for x in NUMS:
        for op, fn in BINOPS:
            check_binop(c, op, fn, ma, x)
            check_binop(c, op, fn, x, ma)
    a = to_impl(ma)
    for op, fn in (('+', operator.pos), ('-', operator.neg), ('abs', abs)):
        check_op(c, 'unop', op + ':' + okind(ma), {'a': describe(ma), 'op': op}, lambda: R.unop(op, ma), lambda: fn(a),
                 [a], tol=TOL if (op == 'abs' and tc == 'z') else 0.0, fresh=True)
    n = shape[0] * shape[1]
    if n and tc == 'i':
        # 'i' entries are C longs: values beyond 32 bits go through the unary operators untruncated
        big = [2 ** 31, -(2 ** 31) - 1, 2 ** 32 + 1, -(2 ** 62), 2 ** 31 - 1, -(2 ** 32), 2 ** 40 + 3, -5, 2 ** 62]
        mbig = R.Dense('i', shape, big[:n])
        ab = to_impl(mbig)
        for op, fn in (('+', operator.pos), ('-', operator.neg), ('abs', abs)):
            check_op(c, 'unop', op + ':bigint:' + okind(mbig), {'a': describe(mbig), 'op': op}, lambda: R.unop(op, mbig),
                     lambda: fn(ab), [ab], tol=0.0, fresh=True)
        # remainder of the most negative / most positive C long by +-1, +-2, 3: x % -1 overflows in C (a trap, not a
        # value); executed in a forked child, values compared where the reference defines them
        ext = [-(2 ** 63), 2 ** 63 - 1, -(2 ** 63) + 1, 7, -7, 2 ** 62, 0, -1, 1]
        mext = R.Dense('i', shape, ext[:n])
        for cdiv in (-1, 1, 2, -2, 3):
            def _rem(cdiv=cdiv):
                return list(to_impl(mext) % cdiv)
            how, obs = isolated(_rem)
            c.n += 1
            if how == 'died':
                c.v('C15:binop:%:bigint:crash', 'matrix(%r) %% %d killed the interpreter (%s)' % (ext[:n], cdiv, obs),
                    {'a': describe(mext), 'c': cdiv})
            else:
                check_binop(c, '%', operator.mod, mext, cdiv)
    # zero-containing matrices for / % ** edge cases
    if n:
        mz = R.Dense(tc, shape, [R.conv(v, tc) for v in ([0, 1, -2, 0, 3, -1, 2, 0, 1][:n])])
        for x in NUMS:
            for op, fn in BINOPS[3:]:
                check_binop(c, op, fn, mz, x)
        for e in (-1, -2, 3, 0.5, -0.5, 1.5, 1j, 0.5 + 0j):
            check_binop(c, '**', operator.pow, ma, e)
            check_binop(c, '**', operator.pow, mz, e)


def run_inplace(case, c):
    tc, shape, pal = case['tc'], tuple(case['shape']), case['pal']
    shapes = [tuple(s) for s in case['shapes']]
    ma = mdense(tc, shape, pal)
    n = shape[0] * shape[1]
    others = all_matrices(pal, shapes) + list(NUMS)
    for mb in others:
        for op, fn in IOPS:
            check_iop(c, op, fn, ma, mb)
    if n:
        mz = R.Dense(tc, shape, [R.conv(v, tc) for v in ([0, 1, -2, 0, 3, -1, 2, 0, 1][:n])])
        for x in NUMS:
            for op, fn in IOPS[3:]:
                check_iop(c, op, fn, mz, x)
    # A += B, A -= B with a sparse B of the same size (tabulated: B dense or sparse)
    for t in 'dz':
        vals = entries(t, n, pal, 3)
        full = dict(((k % shape[0], k // shape[0]), vals[k]) for k in range(n)) if n else {}
        for sp in (R.Sparse(t, shape, full), R.Sparse(t, shape, dict((k, v) for k, v in full.items() if sum(k) % 2 == 0))):
            for op, fn in IOPS[:2]:
                check_iop(c, op, fn, ma, sp)
    # A op= A
    for op, fn in IOPS[:3]:
        a = to_impl(ma)
        m2 = ma.copy()
        try:
            mres, mexc = R.iop(op, m2, m2.copy()), None
        except R.Refused as e:
            mres, mexc = None, e
        try:
            r, iexc = fn(a, a), None
        except Exception as e:
            r, iexc = None, e
        c.n += 1
        key = 'C15:iop:%s=:A=%s:b=self:' % (op, okind(ma))
        sub = {'A': describe(ma), 'op': op + '=', 'b': 'A itself'}
        if mres is R.UNSPEC:
            c.out('unspecified')
        elif mexc is not None:
            c.out('refused')
            if iexc is None:
                c.v(key + 'no-exception', 'manual excludes A %s= A here (%s)' % (op, mexc), sub)
        elif iexc is not None:
            c.v(key + 'unexpected-' + type(iexc).__name__, str(iexc), sub)
        elif r is not a:
            c.v(key + 'new-object', 'in-place operator returned a new object', sub)
        else:
            bad = cmp_result(m2, a, 0.0, c)
            if bad:
                c.v(key + bad[0], bad[1], sub)
            else:
                c.out('agree')
                c.nontrivial += 1


# =========================================================================== attributes, methods, built-ins
def run_attr(case, c):
    import cvxopt
    from mc import cvx
    from cvxopt import matrix
    tc, shape, pal = case['tc'], tuple(case['shape']), case['pal']
    n = shape[0] * shape[1]
    variants = [('distinct', mdense(tc, shape, pal)),
                ('zeros', R.Dense(tc, shape, [R.zero(tc)] * n)),
                ('one-nonzero', R.Dense(tc, shape, [R.zero(tc)] * max(n - 1, 0) + [R.conv(3, tc)] * min(n, 1)))]
    if tc == 'z':
        variants.append(('imag-only', R.Dense(tc, shape, [complex(0, k + 1) for k in range(n)])))
    for vname, mA in variants:
        A = to_impl(mA)
        sub = {'A': describe(mA)}
        kd = okind(mA)
        for name, mf, jf in (('T', mA.trans, lambda: A.T), ('H', mA.ctrans, lambda: A.H),
                             ('trans()', mA.trans, lambda: A.trans()), ('ctrans()', mA.ctrans, lambda: A.ctrans()),
                             ('real()', mA.real, lambda: A.real()), ('imag()', mA.imag, lambda: A.imag())):
            check_op(c, 'method', name + ':' + kd, dict(sub, method=name), mf, jf, [A], fresh=True)
        for name, mf, jf, nt in (('len', mA.length, lambda: len(A), True), ('bool', mA.truth, lambda: bool(A), True),
                                 ('list', mA.tolist, lambda: list(A), True),
                                 ('tuple', lambda: tuple(mA.tolist()), lambda: tuple(A), True),
                                 ('iter', mA.tolist, lambda: [x for x in A], True),
                                 ('sum', mA.bsum, lambda: sum(A), False),
                                 ('max', mA.bmax, lambda: max(A), True), ('min', mA.bmin, lambda: min(A), True),
                                 ('cvxopt.max', mA.bmax, lambda: cvxopt.max(A), True),
                                 ('cvxopt.min', mA.bmin, lambda: cvxopt.min(A), True),
                                 ('size', lambda: mA.size, lambda: A.size, True),
                                 ('typecode', lambda: mA.tc, lambda: A.typecode, True)):
            check_op(c, 'builtin', name + ':' + kd, dict(sub, f=name), mf, jf, [A], numtype=nt)
        for x in list(mA.flat[:3]) + [0, 3, 3.0, 3 + 0j, 99, 1.5]:
            check_op(c, 'builtin', 'in:' + kd, dict(sub, x=describe(x)), lambda: mA.contains(x), lambda: x in A, [A])
        # zip / map / filter as the manual shows them
        check_op(c, 'builtin', 'zip:' + kd, sub, lambda: list(zip(mA.flat, mA.flat)), lambda: list(zip(A, A)), [A])
        check_op(c, 'builtin', 'map:' + kd, sub, lambda: [v == 0 for v in mA.flat], lambda: list(map(lambda v: v == 0, A)), [A])
        check_op(c, 'builtin', 'filter:' + kd, sub, lambda: [v for v in mA.flat if v != 0],
                 lambda: list(filter(lambda v: v != 0, A)), [A])
        # read-only typecode
        before = cvx.image(A)
        try:
            A.typecode = 'd' if tc != 'd' else 'z'
            c.v('C15:attr:typecode:assign:no-exception', 'typecode is documented read-only but the assignment succeeded', sub)
        except Exception:
            pass
        c.n += 1
        if cvx.image(A) != before:
            c.v('C15:attr:typecode:assign:modified', 'refused typecode assignment changed the matrix', sub)
    # ---- size reassignment
    mA0 = mdense(tc, shape, pal)
    cand = [(m, k) for m in range(-1, 10) for k in range(-1, 10)]
    cand += [(2 ** 32 + shape[0], shape[1]), (shape[0], 2 ** 32 + shape[1]), (2 ** 32, 2 ** 32), (2 ** 31, 2),
             (2 ** 16, 2 ** 16), (2 ** 63 - 1, 1), (-2 ** 32 + shape[0], shape[1])]
    cand += [[shape[1], shape[0]], (shape[0],), (shape[0], shape[1], 1), (float(shape[0]), shape[1]), None, n]
    for value in cand:
        mA = mA0.copy()
        A = to_impl(mA0)
        alias = A
        before, addr = cvx.image(A), bufaddr(A)
        tag = 'malformed'
        if isinstance(value, tuple) and len(value) == 2 and all(isinstance(v, int) for v in value):
            tag = 'huge' if max(abs(v) for v in value) >= 2 ** 16 else ('negative' if min(value) < 0 else
                                                                        ('fits' if value[0] * value[1] == n else 'mismatch'))
        key = 'C15:attr:size:assign-%s:' % tag
        sub = {'A': describe(mA0), 'size': describe(value)}
        mexc, mres = None, None
        try:
            mres = mA.set_size(value)
        except R.Refused as e:
            mexc = e
        iexc = None
        try:
            A.size = value
        except Exception as e:
            iexc = e
        c.n += 1
        if mres is R.UNSPEC:
            c.out('unspecified')
            continue
        if mexc is not None:
            c.out('refused')
            if iexc is None:
                c.v(key + 'no-exception', 'size assignment must be refused (%s) but succeeded: size is now %r'
                    % (mexc, tuple(A.size)), sub)
            elif cvx.image(A) != before:
                c.v(key + 'modified-on-refusal', 'refused size assignment changed the matrix', sub)
            continue
        if iexc is not None:
            c.v(key + 'unexpected-' + type(iexc).__name__, 'documented size assignment raised %s' % iexc, sub)
            continue
        bad = cmp_result(mA, A, 0.0, c)
        if bad or A is not alias or (n and bufaddr(A) != addr):
            c.v(key + (bad[0] if bad else 'buffer-moved'), bad[1] if bad else 'size assignment moved the buffer', sub)
            continue
        c.out('agree')
        c.nontrivial += 1
        # indexing after the reshape uses the new shape
        if n:
            check_op(c, 'attr', 'size:index-after-reshape', sub, lambda: mA.getitem((-1, -1)), lambda: A[-1, -1], [A])
            check_op(c, 'attr', 'size:index-after-reshape', sub, lambda: mA.getitem((slice(None), 0)),
                     lambda: A[:, 0], [A])


# =========================================================================== cvxopt.mul/div/max/min, elementwise functions
EFUNS = ('mul', 'div', 'max', 'min')


def _efun_impl(kind):
    import cvxopt
    return getattr(cvxopt, kind)


def check_efun(c, kind, margs, form='args'):
    from cvxopt import matrix
    iargs = [to_impl(a) for a in margs]
    ops = [a for a in iargs if isinstance(a, matrix)]
    f = _efun_impl(kind)
    if form == 'args':
        call = lambda: f(*iargs)
    elif form == 'list':
        call = lambda: f(list(iargs))
    elif form == 'tuple':
        call = lambda: f(tuple(iargs))
    else:
        call = lambda: f(a for a in iargs)
    pat = '%s:%s:%s' % (kind, form, ','.join(okind(a) for a in margs))
    # (mul of a single matrix is still a regular operation: a new object)
    fresh = len(margs) > 1 or kind == 'mul'
    check_op(c, 'efun', pat, {'f': 'cvxopt.' + kind, 'form': form, 'args': [describe(a) for a in margs]},
             lambda: R.efun(kind, list(margs), form != 'args'), call, ops, tol=TOL if kind == 'div' else 0.0, fresh=fresh, numtype=False)


def run_func(case, c):
    import cvxopt
    tc, shape, pal = case['tc'], tuple(case['shape']), case['pal']
    shapes = [tuple(s) for s in case['shapes']]
    ma = mdense(tc, shape, pal)
    n = shape[0] * shape[1]
    for mb in all_matrices(pal, shapes):
        for kind in EFUNS:
            check_efun(c, kind, [ma, mb])
    for x in NUMS:
        for kind in EFUNS:
            check_efun(c, kind, [ma, x])
            check_efun(c, kind, [x, ma])
    if n:
        mz = R.Dense(tc, shape, [R.conv(v, tc) for v in ([0, 1, -2, 0, 3, -1, 2, 0, 1][:n])])
        check_efun(c, 'div', [ma, mz])
        check_efun(c, 'div', [mz, ma])
        check_efun(c, 'div', [2, mz])
        check_efun(c, 'mul', [mz, ma])
        check_efun(c, 'max', [mz, ma])
        check_efun(c, 'min', [mz, 0])
    for kind in EFUNS:
        check_efun(c, kind, [ma])
        for form in ('list', 'tuple', 'generator'):
            check_efun(c, kind, [ma, ma.copy()], form)
            check_efun(c, kind, [ma, 2], form)
            check_efun(c, kind, [ma], form)
    # ---- elementwise functions
    vals = {'positive': [1, 2, 4, 3, 9, 16, 5, 7, 25], 'mixed': [1, -2, 4, -3, 9, 0, 5, -7, 2], 'with-zero': [0, 2, 4, 0, 9, 16, 5, 0, 25]}
    for vname in ('positive', 'mixed', 'with-zero'):
        base = vals[vname][:n]
        if tc == 'z':
            flat = [complex(v, (k % 3) - 1) if vname != 'with-zero' else complex(v, 0) for k, v in enumerate(base)]
        else:
            flat = [R.conv(v, 'i') if tc == 'i' else v + (0.5 if vname == 'positive' else 0.0) for v in base]
        mx = R.Dense(tc, shape, flat)
        x = to_impl(mx)
        for fn in ('sqrt', 'exp', 'log', 'cos', 'sin'):
            check_op(c, 'elementwise', '%s:%s:%s' % (fn, okind(mx), vname), {'f': 'cvxopt.' + fn, 'x': describe(mx)},
                     lambda: R.elementwise(fn, mx), lambda: getattr(cvxopt, fn)(x), [x], tol=TOL, fresh=True)
    if case.get('numbers'):
        for v in NUMS + [4, -4, 2.25, -2.25, -1 + 0j]:
            for fn in ('sqrt', 'exp', 'log', 'cos', 'sin'):
                check_op(c, 'elementwise', '%s:num' % fn, {'f': 'cvxopt.' + fn, 'x': describe(v)},
                         lambda: R.elementwise(fn, v), lambda: getattr(cvxopt, fn)(v), [], tol=TOL)


def func3_atoms(pal):
    e = entries
    return [2, 1.5, 2j, R.Dense('i', (1, 1), [4]), R.Dense('d', (1, 1), [-0.5]),
            R.Dense('i', (2, 2), e('i', 4, pal)), R.Dense('d', (2, 2), e('d', 4, pal, 3)),
            R.Dense('d', (2, 3), e('d', 6, pal)), R.Dense('i', (0, 2), []), R.Dense('z', (2, 2), e('z', 4, pal))]


def run_func3(case, c):
    atoms = func3_atoms(case['pal'])
    a = atoms[case['first']]
    for b in atoms:
        for d in atoms:
            for kind in EFUNS:
                check_efun(c, kind, [a, b, d])


# =========================================================================== hist: BFS over aliased update histories
TARGETS = ('A', 'B', 'C')


def hist_alphabet(tc, shape, which):
    """actions = (label, kind, payload).  kind 'iop': (target, op, operand label); 'set': (target, index descr or
    pair, value label); 'aug': indexed augmented assignment; 'size': (target, new size)."""
    r, k = shape
    n = r * k
    operands = {
        'num-i': 2, 'num-d': 0.5, 'num-z': 1j,
        # scalars are powers of two (times a unit): every *=, /=, %= step is then exact in binary floating point,
        # so rounding differences (x/c versus x*(1/c)) cannot be amplified by the discontinuity of a later %=
        'm11-i': R.Dense('i', (1, 1), [4]), 'm11-d': R.Dense('d', (1, 1), [0.25]), 'm11-z': R.Dense('z', (1, 1), [2j]),
        'mat-i': R.Dense('i', shape, [j + 1 for j in range(n)]),
        'mat-d': R.Dense('d', shape, [j + 0.5 for j in range(n)]),
        'mat-z': R.Dense('z', shape, [complex(1, j) for j in range(n)]),
        'mat-wrong': R.Dense(tc, (r + 1, k), [R.conv(1, tc)] * ((r + 1) * k)),
        'col-i': R.Dense('i', (r, 1), [-(j + 5) for j in range(r)]),
        'list-d': [0.25 * (j + 1) for j in range((n + 1) // 2)],
    }
    acts = []
    if which == 'full':
        opnds = ['num-i', 'num-d', 'num-z', 'm11-i', 'm11-d', 'm11-z', 'mat-i', 'mat-d', 'mat-z']
        targets = TARGETS
    else:
        opnds = ['num-i', 'num-d', 'm11-z', 'mat-' + tc]
        targets = TARGETS
    for t in targets:
        for op in ('+', '-', '*', '/', '%'):
            for o in opnds:
                acts.append(('%s %s= %s' % (t, op, o), 'iop', (t, op, o)))
        acts.append(('%s += mat-wrong' % t, 'iop', (t, '+', 'mat-wrong')))
        sets = [(('int', 0), 'num-i'), (('int', -1), 'num-d'), ((('int', 1), ('slice', None, None, None)), 'num-z'),
                ((('slice', None, None, None), ('int', 0)), 'col-i'), (('slice', None, None, 2), 'list-d'),
                (('list', [0, -1]), 'm11-d'), (('int', 5), 'num-i')]
        if which != 'full':
            sets = sets[:5]
        for idx, v in sets:
            acts.append(('%s[%s] = %s' % (t, describe(idx), v), 'set', (t, idx, v)))
        acts.append(('%s[::2] += 1' % t, 'aug', (t, ('slice', None, None, 2), 'num-i-one')))
        acts.append(('%s.size = transposed' % t, 'size', (t, (k, r))))
        if which == 'full':
            acts.append(('%s.size = wrong' % t, 'size', (t, (r + 1, k))))
    operands['num-i-one'] = 1
    return acts, operands


def _midx(idx):
    if isinstance(idx, tuple) and isinstance(idx[0], tuple):
        a, b = mk_index(idx[0]), mk_index(idx[1])
        return (a[0], b[0]), (a[1], b[1])
    return mk_index(idx)


IOPF = dict(IOPS)


class HistEnv(object):
    """the three names of one configuration, on the model side and on the implementation side."""

    def __init__(self, mA0, iops=None):
        from cvxopt import matrix
        self.iops = iops
        self.m = {'A': mA0.copy()}
        self.m['B'] = self.m['A']
        self.m['C'] = self.m['A'].copy()
        A = to_impl(mA0)
        self.i = {'A': A, 'B': A, 'C': +A}
        self.addr0 = {'A': bufaddr(A), 'C': bufaddr(self.i['C'])}
        self.id0 = {'A': id(A), 'C': id(self.i['C'])}

    def observe(self):
        """complete observable implementation state, canonicalised (no absolute addresses)."""
        from mc import cvx
        i = self.i
        names = []
        for nme in TARGETS:
            o = i[nme]
            names.append((nme, type(o).__name__, getattr(o, 'typecode', None), tuple(getattr(o, 'size', ())),
                          cvx.raw(o) if type(o).__name__ == 'matrix' else repr(o)))
        ident = (i['A'] is i['B'], i['A'] is i['C'], i['B'] is i['C'],
                 bufaddr(i['A']) == bufaddr(i['B']), bufaddr(i['A']) == bufaddr(i['C']),
                 id(i['A']) == self.id0['A'], id(i['B']) == self.id0['A'], id(i['C']) == self.id0['C'],
                 bufaddr(i['A']) == self.addr0['A'] or not len(i['A']),
                 bufaddr(i['C']) == self.addr0['C'] or not len(i['C']))
        return (tuple(names), ident)

    def model_key(self):
        a, k = self.m['A'], self.m['C']
        return (a.tc, a.size, tuple(repr(v) for v in a.flat), k.tc, k.size, tuple(repr(v) for v in k.flat))


def hist_apply(env, act, operands):
    """apply one action to model and implementation.  -> (model outcome, impl exception or None, impl result)."""
    label, kind, pl = act
    t = pl[0]
    mt, it = env.m[t], env.i[t]
    mexc, mres, iexc = None, None, None
    if kind == 'iop':
        _, op, o = pl
        mo = operands[o]
        io = env.iops[o]
        try:
            mres = R.iop(op, mt, mo)
        except R.Refused as e:
            mexc = e
        try:
            r = IOPF[op](it, io)
            env.i[t] = r                      # Python rebinds the name to whatever the in-place slot returned
        except Exception as e:
            iexc = e
    elif kind == 'set':
        _, idx, v = pl
        mi, ii = _midx(idx)
        mv = operands[v]
        try:
            mres = mt.setitem(mi, mv)
        except R.Refused as e:
            mexc = e
        try:
            it[ii] = env.iops[v]
        except Exception as e:
            iexc = e
    elif kind == 'aug':
        _, idx, v = pl
        mi, ii = _midx(idx)
        mv = operands[v]
        try:
            g = mt.getitem(mi)
            g2 = R.binop('+', g, mv)          # g is a fresh matrix: g += v is g + v
            mres = mt.setitem(mi, g2)
        except R.Refused as e:
            mexc = e
        try:
            it[ii] += env.iops[v]
        except Exception as e:
            iexc = e
    elif kind == 'size':
        _, sz = pl
        try:
            mres = mt.set_size(sz)
        except R.Refused as e:
            mexc = e
        try:
            it.size = sz
        except Exception as e:
            iexc = e
    return mres, mexc, iexc


def run_hist(case, c):
    tc, shape, pal, depth = case['tc'], tuple(case['shape']), case['pal'], case['depth']
    acts, operands = hist_alphabet(tc, shape, case['alphabet'])
    split = case.get('split', [0, 1])
    mA0 = mdense(tc, shape, pal)
    cfg = 'tc=%s,shape=%dx%d' % (tc, shape[0], shape[1])

    from mc import cvx
    iops = dict((k, to_impl(v)) for k, v in operands.items())
    iops_before = dict((k, cvx.image(v)) for k, v in iops.items())

    def replay(h):
        env = HistEnv(mA0, iops)
        for ai in h:
            hist_apply(env, acts[ai], operands)
        return env

    def compare(env, key, sub):
        """implementation state vs model state on every name."""
        ok = True
        for nme, mref in (('A', env.m['A']), ('B', env.m['A']), ('C', env.m['C'])):
            bad = cmp_result(mref, env.i[nme], TOL, c)
            if bad:
                c.v(key + 'state-%s-%s' % (nme, bad[0]), 'name %s: %s' % (nme, bad[1]), sub)
                ok = False
        return ok

    env0 = HistEnv(mA0, iops)
    if not compare(env0, 'C15:hist:%s:initial:' % cfg, {'A': describe(mA0)}):
        return
    ob0 = env0.observe()
    if ob0[1] != (True, False, False, True, False, True, True, True, True, True) and len(mA0):
        c.v('C15:hist:initial:alias-pattern', 'B = A / C = +A do not give alias / copy: %r' % (ob0[1],), None)
        return
    seen = {(env0.model_key(), ob0): ()}
    frontier = [()]
    c.states = 1
    for d in range(depth):
        nxt = []
        for h in frontier:
            pre_h = None
            for ai, act in enumerate(acts):
                if d == 0 and ai % split[1] != split[0]:
                    continue                      # this configuration's BFS is split by the first action
                env = replay(h)
                if pre_h is None:
                    # once per history: the replay must reproduce the recorded state (canonical observation, so it
                    # is also the 'before' image of every action applied to this state)
                    pre_h = env.observe()
                    if (env.model_key(), pre_h) not in seen:
                        c.v('C15:hist:replay-diverged', 'replaying a recorded history gave a different state', {'history': [acts[k][0] for k in h]})
                        return
                pre = pre_h
                label, kind, pl = act
                t = pl[0]
                tc_pre, id_pre, addr_pre = env.i[t].typecode, id(env.i[t]), bufaddr(env.i[t])
                mres, mexc, iexc = hist_apply(env, act, operands)
                c.transitions += 1
                c.n += 1
                if d == depth - 1:
                    c.traces += 1
                post = env.observe()
                sub = {'config': cfg, 'history': [acts[k][0] for k in h], 'action': label, 'A0': describe(mA0)}
                akey = 'C15:hist:%s:' % _act_pattern(act, env, operands, tc_pre)
                if mres is R.UNSPEC:
                    c.out('hist-unspecified')
                    continue
                if mexc is not None:
                    c.out('hist-refused')
                    if iexc is None:
                        c.v(akey + 'no-exception', 'manual excludes this step (%s) but it was performed; %s now %s (was typecode %s)'
                            % (mexc, t, _show(env.i[t]), tc_pre), sub)
                    elif post != pre:
                        c.v(akey + 'modified-on-refusal', 'refused step (%s) changed the observable state' % type(iexc).__name__, sub)
                    continue                      # refused: self-loop, nothing new to expand
                if iexc is not None:
                    c.v(akey + 'unexpected-' + type(iexc).__name__, 'documented step raised %s: %s' % (type(iexc).__name__, iexc), sub)
                    continue
                good = True
                if id(env.i[t]) != id_pre:
                    c.v(akey + 'new-object', 'in-place step rebound %s to a new object' % t, sub)
                    good = False
                elif env.i[t].typecode != tc_pre or (len(env.i[t]) and bufaddr(env.i[t]) != addr_pre):
                    c.v(akey + 'typecode-or-buffer-changed', 'in-place step changed typecode/buffer of %s' % t, sub)
                    good = False
                if good and post[1] != pre[1]:
                    c.v(akey + 'alias-pattern-changed', 'alias/identity pattern changed: %r -> %r' % (pre[1], post[1]), sub)
                    good = False
                if good:
                    good = compare(env, akey, sub)
                if not good:
                    continue                      # violating transitions are reported, not expanded
                c.out('hist-agree')
                c.nontrivial += 1
                k = (env.model_key(), post)
                if k not in seen:
                    seen[k] = h + (ai,)
                    c.states += 1
                    # differential: the state reached through this history == the state constructed from scratch
                    scratch = to_impl(env.m['A'])
                    if cmp_result(env.m['A'], scratch, 0.0, None) is not None:
                        c.v('C15:hist:scratch-construction', 'matrix constructed from the model state differs from the model', sub)
                    nxt.append(h + (ai,))
        frontier = nxt
    if dict((k, cvx.image(v)) for k, v in iops.items()) != iops_before:
        c.v('C15:hist:%s:operand-modified' % cfg, 'a right-hand operand object changed during the exploration', None)
    c.out('hist-depth-%d-frontier' % depth, len(frontier))


def _act_pattern(act, env, operands, tc_pre):
    label, kind, pl = act
    t = 'alias' if pl[0] in ('A', 'B') else 'copy'
    if kind == 'iop':
        return 'iop:%s=:%s=%s:b=%s' % (pl[1], t, tc_pre, pl[2])
    if kind == 'set':
        idx = pl[1]
        ik = ','.join(ikind(x) for x in idx) if isinstance(idx[0], tuple) else ikind(idx)
        return 'set:%s:%s=%s:rhs=%s' % (ik, t, tc_pre, pl[2])
    if kind == 'aug':
        return 'aug:%s=%s' % (t, tc_pre)
    return 'size:%s=%s' % (t, tc_pre)


# =========================================================================== enumeration of cases
def cases(tier, seed, flavour):
    """Enumeration levels: Q = plain quick, T = plain thorough, A0 = asan quick, A1 = asan thorough.
    The ASan build runs the interpreter about 100x slower (every Python allocation goes through the sanitizer),
    so its domains are reduced to the part that matters for memory safety: all index / assignment code paths with
    negative, out-of-range and huge indices, all buffer layouts, type-changing in-place operators."""
    pal = seed % 4
    lvl = {('plain', 'quick'): 'Q', ('plain', 'thorough'): 'T', ('asan', 'quick'): 'A0'}.get((flavour, tier), 'A1')
    if lvl == 'A0':
        mats = [(tc, list(s)) for s in ((0, 2), (1, 1), (2, 3), (3, 2)) for tc in 'dz']
        shl = [[0, 2], [1, 1], [2, 3], [3, 2]]
    elif lvl == 'A1':
        mats = [(tc, list(s)) for s in ASAN_SHAPES for tc in 'dz']
        shl = [list(s) for s in ASAN_SHAPES]
    else:
        mats = [(tc, list(s)) for s in SHAPES for tc in TCS]
        shl = [list(s) for s in SHAPES]
    # ---- construction
    yield {'part': 'cons', 'form': 'number', 'pal': pal}
    for n in ((3,) if lvl == 'A0' else ((0, 2, 6) if lvl == 'A1' else range(7))):
        yield {'part': 'cons', 'form': 'seq', 'n': n, 'pal': pal}
    for s in shl:
        yield {'part': 'cons', 'form': 'matrix', 'shape': s, 'pal': pal}
    for s in shl:
        yield {'part': 'cons', 'form': 'sparse', 'shape': s, 'pal': pal}
    for lo in range(0, 200, 25):
        yield {'part': 'cons', 'form': 'buffer', 'lo': lo, 'hi': lo + 25, 'pal': pal}
    ntier = 'thorough' if lvl == 'T' else 'quick'
    na = 11 if ntier == 'thorough' else 8
    ncols = 1 + na + na * na
    step = {'A0': 24, 'A1': 4}.get(lvl, 1)
    for first in range(0, ncols, step):
        yield {'part': 'cons', 'form': 'nested', 'tier': ntier, 'first': first, 'pal': pal}
    # ---- attributes, methods, built-ins
    for tc, s in mats:
        yield {'part': 'attr', 'tc': tc, 'shape': s, 'pal': pal}
    # ---- one-argument indexing
    g1 = ('a-int', 'q2-slice', 'a-list', 'a-imat') if lvl == 'A0' else ('int', 'slice-full', 'list-full', 'imat-full')
    for tc, s in mats:
        for nm in g1:
            yield {'part': 'get1', 'tc': tc, 'shape': s, 'pal': pal, 'set': nm}
    # ---- two-argument indexing
    pre = {'A0': 'b-', 'A1': 'a-', 'Q': 'q2-', 'T': 't2-'}[lvl]
    sets2 = [pre + k for k in KINDS]
    for tc, s in mats:
        for nm in sets2:
            yield {'part': 'get2', 'tc': tc, 'shape': s, 'pal': pal, 'rowset': nm, 'colsets': sets2, 'extra': nm.endswith('int')}
    # ---- one-argument assignment
    s1 = ['b-' + k for k in KINDS] if lvl == 'A0' else ['s1-' + k for k in KINDS]
    for tc, s in mats:
        for nm in s1:
            yield {'part': 'set1', 'tc': tc, 'shape': s, 'pal': pal, 'set': nm, 'reduced': 'asan' if lvl[0] == 'A' else False}
    # ---- two-argument assignment
    pre = {'A0': 'sa-', 'A1': 'sq-', 'Q': 'sq-', 'T': 'st-'}[lvl]
    rsets = [pre + k for k in KINDS]
    csets = ['sa-' + k for k in KINDS] if lvl == 'A1' else rsets
    for tc, s in mats:
        for nm in rsets:
            yield {'part': 'set2', 'tc': tc, 'shape': s, 'pal': pal, 'rowset': nm, 'colsets': csets,
                   'reduced': 'asan' if lvl[0] == 'A' else (lvl != 'T')}
    # ---- operators, in-place operators, functions
    for tc, s in mats:
        yield {'part': 'arith', 'tc': tc, 'shape': s, 'pal': pal, 'shapes': shl}
    for tc, s in mats:
        yield {'part': 'inplace', 'tc': tc, 'shape': s, 'pal': pal, 'shapes': shl}
    for k, (tc, s) in enumerate(mats):
        yield {'part': 'func', 'tc': tc, 'shape': s, 'pal': pal, 'shapes': shl, 'numbers': k < 3}
    for first in ((5, 9) if lvl == 'A0' else range(10)):
        yield {'part': 'func3', 'first': first, 'pal': pal}
    # ---- hist: one case = one initial configuration, inner BFS
    if lvl == 'A0':
        configs = [('d', [2, 2]), ('z', [2, 3])]
    elif lvl == 'A1':
        configs = [('i', [2, 2]), ('d', [2, 3]), ('z', [2, 2])]
    else:
        configs = [(tc, shape) for shape in ([2, 2], [2, 3]) for tc in TCS]
    plans = {'A0': [('core', 2)], 'A1': [('full', 2)], 'Q': [('full', 2), ('core', 3)], 'T': [('full', 3), ('core', 4)]}[lvl]
    nsplit = {('T', 3): {'i': 1, 'd': 3, 'z': 6}, ('T', 4): {'i': 2, 'd': 6, 'z': 16}, ('A1', 2): {'i': 1, 'd': 2, 'z': 4}}
    for tc, shape in configs:
        for alphabet, depth in plans:
            ns = nsplit.get((lvl, depth), {}).get(tc, 1)
            for k in range(ns):
                yield {'part': 'hist', 'tc': tc, 'shape': shape, 'pal': pal, 'depth': depth, 'alphabet': alphabet,
                       'split': [k, ns]}


def crash_key(case):
    k = case.get('part', '?')
    for f in ('form', 'set', 'rowset', 'tc', 'alphabet'):
        if f in case:
            k += ':%s' % case[f]
    return k


RUNNERS = {'cons': run_cons, 'attr': run_attr, 'get1': run_get1, 'get2': run_get2, 'set1': run_set1, 'set2': run_set2,
           'arith': run_arith, 'inplace': run_inplace, 'func': run_func, 'func3': run_func3, 'hist': run_hist}


def run(case):
    from mc import cvx           # asserts that the staged working-tree build is imported
    c = Ctx()
    if not layout_ok():
        c.v('harness:matrix-layout', 'cvxopt matrix object layout is not the one bufaddr() assumes', None)
        return c.result()
    try:
        RUNNERS[case['part']](case, c)
    except Exception:
        import traceback
        c.v('C15:%s:harness-exception' % case['part'], traceback.format_exc()[-1500:], None)
    r = c.result()
    r['outcomes'] = dict(('%s:%s' % (case['part'], k), v) for k, v in r['outcomes'].items())
    return r
