"""C05 - well-posed problems are classified correctly (optimal / infeasible / unbounded)."""
import itertools
from mc import dom, solve, qpsolve, nlsolve
from mc.ref import cone as R
from mc.ref import lpexact

PROPERTY = 'C05'
LEVEL = 'exploration'
ENGINE = 'bex'
FLAVOURS = ('plain',)
RULE = ('(a) every member of the tiny LP families L(n,m): an exact rational simplex decides whether the LP satisfies the '
        'rank assumptions and is strictly primal-dual feasible / has a strict Farkas certificate / has a strictly improving '
        'ray, and its exact optimal value; (b) planted cone programs for every cone structure x n x p x variant whose strict '
        'feasibility / strict certificate / strict ray holds by construction (rank decided exactly); (c) planted strictly '
        'feasible cone QPs with positive definite or semidefinite P and the nonlinear problem library; all solved with the '
        'default KKT solver and default options through every native entry point that accepts them, dense and sparse. '
        'non-trivial = instances classified well-posed by the exact oracle (one of the three strict classes)')
ASSUME = ["'unknown' is accepted on a strictly feasible instance only when the recomputed residuals and gap are <= 1e-5 (the property's escape clause)",
          'objective agreement 1e-6 relative to the exact value (LP) / inside the weak-duality bracket of the planted pair (cone programs)',
          'instances that are not well-posed (rank deficient, feasible but not strictly) are solved too but only "no undocumented exception" applies']
BOUNDS = {'quick': 'L(1,2), L(1,3), L(2,2) over one 3-value palette; quick cone structures x n in {1,2} x p in {0,1} x 3 kinds x 2 variants; QP x 5 variants; 44 nonlinear problems',
          'thorough': 'adds L(2,3) and L(3,3) over a 2-value palette; all of D_small x n in {1,2,3} x 3 variants'}
TECHNIQUE = 'bounded exhaustive enumeration of problem data; truth decided by an exact rational LP oracle or by construction'

PALETTES = [[-1, 0, 1], [-2, 0, 1], [-1, 0, 2], [1, 0, -3]]
# two 'optimal' answers each carry their own gap guarantee (gap <= 1e-7 or relative gap <= 1e-6), reached from different
# start points they may sit on opposite sides of the optimum: their objectives differ by at most the sum of the guarantees
# (observed: 1.01e-6 relative between a cold start and a user start point in the thorough tier); 1e-5 as in C06
PATHTOL = 1e-5
DOC_EXC = (ValueError, TypeError)


def cases(tier, seed, flavour):
    pal = PALETTES[seed % len(PALETTES)]
    fams = [(1, 2, pal), (1, 3, pal), (2, 2, pal)]
    if tier == 'thorough':
        fams += [(2, 3, pal), (3, 3, [pal[0], pal[2]])]
    for (n, m, pl) in fams:
        for cc in itertools.product(pl, repeat=n):
            if not any(cc):
                continue
            for g0 in itertools.product(pl, repeat=m):
                yield {'fam': 'lp', 'n': n, 'm': m, 'c': list(cc), 'g0': list(g0), 'pal': pl}
    for q0 in pal:
        for q1 in pal:
            yield {'fam': 'qp-eq', 'q0': q0, 'q1': q1, 'pal': pal}
    structs = dom.structures(tier)
    nvar = 2 if tier == 'quick' else 3
    for d in structs:
        for n in ((1, 2) if tier == 'quick' else (1, 2, 3)):
            for p in (0, 1):
                if p >= n:
                    continue
                for kind in ('strict', 'pinf', 'dinf'):
                    for v in range(nvar):
                        yield {'fam': 'planted', 'dims': d, 'n': n, 'p': p, 'kind': kind, 'variant': v + nvar * seed}
                for v in range(5):
                    yield {'fam': 'qp', 'dims': d, 'n': n, 'p': p, 'variant': v + 5 * seed}
        # two equality constraints (the equality block of the KKT systems is then a genuine matrix)
        if d in ({'l': 2, 'q': [], 's': []}, {'l': 0, 'q': [3], 's': []}, {'l': 1, 'q': [2], 's': [2]}, {'l': 0, 'q': [], 's': [2, 2]}):
            for n in (3, 4):
                for kind in ('strict', 'pinf', 'dinf'):
                    for v in range(2):
                        yield {'fam': 'planted', 'dims': d, 'n': n, 'p': 2, 'kind': kind, 'variant': v + 2 * seed}
                yield {'fam': 'qp', 'dims': d, 'n': n, 'p': 2, 'variant': seed}
        # as many variables as the rank assumption allows (n = p + number of independent cone coordinates, which for an
        # 's' block of order k is k(k+1)/2, not k or k^2): the boundary of the solvers' own dimension pre-check
        npk = R.cdim_packed(d)
        if d['s'] and max(d['s']) >= 2 and npk <= 6:
            for (n, p) in ((npk, 0), (npk + 1, 1)):
                for kind in ('strict', 'pinf', 'dinf'):
                    yield {'fam': 'planted', 'dims': d, 'n': n, 'p': p, 'kind': kind, 'variant': seed}
    for i, pb in enumerate(nlsolve.base_problems(seed)):
        if pb['tag'].endswith('9.53674e-07') or pb['tag'].endswith('.edge'):
            continue        # start point 2^-20 / 2^-10 from the domain boundary: not 'moderately conditioned' (used by C04/C10)
        yield {'fam': 'nl', 'idx': i, 'seed': seed, 'tag': pb['tag'], 'cone': None}
        if pb['entry'] != 'gp':
            for d in ({'l': 2, 'q': [], 's': []}, {'l': 1, 'q': [2], 's': [2]}):
                yield {'fam': 'nl', 'idx': i, 'seed': seed, 'tag': pb['tag'], 'cone': d}


def _small(O, key, res, q_fn):
    """'unknown' on a well-posed instance: accepted only with residuals and gap already at the 1e-5 level."""
    try:
        pres = res.get('primal infeasibility'); dres = res.get('dual infeasibility'); gap = res.get('gap')
        rg = res.get('relative gap')
        ok = pres is not None and dres is not None and pres <= 1e-5 and dres <= 1e-5 and \
            ((gap is not None and gap <= 1e-5) or (rg is not None and rg <= 1e-5))
    except Exception:
        ok = False
    if not ok:
        O.bad(key, "status 'unknown' on a well-posed strictly feasible instance (pres %r, dres %r, gap %r, relgap %r)"
              % (res.get('primal infeasibility'), res.get('dual infeasibility'), res.get('gap'), res.get('relative gap')))


def run(case):
    O = solve.Oracle(PROPERTY)
    outcomes = {}
    n_ev = nontriv = 0

    def note(lab):
        outcomes[lab] = outcomes.get(lab, 0) + 1

    if case['fam'] == 'lp':
        from checks import conelp_family as F
        c2 = dict(case)
        for inst in F.instances(c2):
            G_rows = [[inst['G'][j][i] for j in range(case['n'])] for i in range(case['m'])]
            cl = lpexact.classify(inst['c'], G_rows, inst['h'])
            wp = None
            if cl['rank_ok']:
                if cl['strict_primal'] and cl['strict_dual']:
                    wp = 'optimal'
                elif cl['strict_pinf_cert'] and not cl['strict_dinf_ray']:
                    wp = 'primal infeasible'
                elif cl['strict_dinf_ray'] and not cl['strict_pinf_cert']:
                    wp = 'dual infeasible'
                elif cl['strict_dinf_ray'] and cl['strict_pinf_cert']:
                    wp = 'both'
            if wp:
                nontriv += 1
            for cfg in ({'entry': 'conelp', 'storage': 'dense', 'kkt': None}, {'entry': 'lp', 'storage': 'sparse', 'kkt': None}):
                res, _ = solve.call(inst, cfg)
                n_ev += 1
                nv = len(O.viol)
                lab = _judge_cone(O, inst, cfg, res, wp, cl['rank_ok'], float(cl['value']) if cl['value'] is not None else None, None)
                note(('wp:' if wp else 'np:') + lab)
                _tag(O, nv, inst, cfg)
            if len(O.viol) > 30:
                break
    elif case['fam'] == 'planted':
        inst = solve.planted(case['dims'], case['n'], case['p'], case['variant'], case['kind'])
        if inst is not None:
            nontriv += 1
            d = inst['dims']
            cfgs = [{'entry': 'conelp', 'storage': 'dense', 'kkt': None}, {'entry': 'conelp', 'storage': 'sparse', 'kkt': None},
                    # the documented 'refinement' option (number of iterative refinement steps of every KKT solve)
                    {'entry': 'conelp', 'storage': 'dense', 'kkt': None, 'opts': {'refinement': 2}},
                    {'entry': 'conelp', 'storage': 'dense', 'kkt': None, 'opts': {'refinement': 0}}]
            # valid user start points: both, or only one of them (the other one is then computed by the solver and shifted
            # into the cone)
            for stt in ('primal', 'dual', 'both'):
                cfgs.append({'entry': 'conelp', 'storage': 'dense', 'kkt': None, 'start': stt})
            if not d['q'] and not d['s']:
                cfgs.append({'entry': 'lp', 'storage': 'dense', 'kkt': None})
                cfgs.append({'entry': 'lp', 'storage': 'sparse', 'kkt': None, 'start': 'primal'})
            if not d['s']:
                cfgs.append({'entry': 'socp', 'storage': 'dense', 'kkt': None})
                cfgs.append({'entry': 'socp', 'storage': 'dense', 'kkt': None, 'start': 'dual'})
            if not d['q']:
                cfgs.append({'entry': 'sdp', 'storage': 'sparse', 'kkt': None})
                cfgs.append({'entry': 'sdp', 'storage': 'dense', 'kkt': None, 'start': 'primal'})
            vals = []
            for cfg in cfgs:
                res, _ = solve.call(inst, cfg)
                n_ev += 1
                nv = len(O.viol)
                lab = _judge_cone(O, inst, cfg, res, inst['truth'], True, None, inst.get('bracket'))
                note('wp:' + lab)
                if lab == 'optimal':
                    vals.append(res['primal objective'])
                _tag(O, nv, inst, cfg)
            if vals and max(vals) - min(vals) > PATHTOL * max(1.0, abs(vals[0])):
                O.bad('objective-differs-across-paths@conelp', 'optimal values of the solver paths differ: %r' % vals)
    elif case['fam'] == 'qp-eq':
        # equality-constrained QPs with positive definite P, solved (a) without inequalities - coneqp's direct path - and
        # (b) with one redundant inequality 0'x <= 1 - the interior-point path: the same problem, so the objectives of the
        # two solver paths agree, and both bracket the exact optimum (closed form over the rationals)
        pal = case['pal']
        n = 2
        d0 = {'l': 0, 'q': [], 's': []}
        d1 = {'l': 1, 'q': [], 's': []}
        for Lv in itertools.product(pal, repeat=3):
            L = [[float(Lv[0]), 0.0], [float(Lv[1]), float(Lv[2])]]
            P = [[sum(L[i][k] * L[j][k] for k in range(2)) + (1.0 if i == j else 0.0) for j in range(2)] for i in range(2)]
            for Ar in itertools.product(pal, repeat=2):
                if not any(Ar):
                    continue
                for bv in pal:
                    q = [float(case['q0']), float(case['q1'])]
                    base = {'P': P, 'q': q, 'A': [[float(t) for t in Ar]], 'b': [float(bv)]}
                    i0 = dict(base, G=[[], []], h=[], dims=d0)
                    i1 = dict(base, G=[[0.0], [0.0]], h=[1.0], dims=d1)
                    exact = qpsolve.exact_eq_qp(i0)
                    vals = []
                    for inst, cfg in ((i0, {'entry': 'coneqp', 'storage': 'dense', 'kkt': None, 'noG': True}),
                                      (i0, {'entry': 'qp', 'storage': 'sparse', 'kkt': None, 'noG': True}),
                                      (i1, {'entry': 'coneqp', 'storage': 'dense', 'kkt': None}),
                                      (i1, {'entry': 'qp', 'storage': 'dense', 'kkt': None})):
                        res, _ = qpsolve.call(inst, cfg)
                        n_ev += 1
                        nv = len(O.viol)
                        if isinstance(res, Exception):
                            O.bad('exception:%s@%s:Ppd' % (type(res).__name__, cfg['entry']), 'exception on a well-posed QP: %r' % (res,))
                            note('wp:exc')
                        else:
                            lab = str(res['status'])
                            note('wp:' + lab)
                            if lab == 'optimal':
                                vals.append(res['primal objective'])
                                nontriv += 1
                                if abs(res['primal objective'] - exact['value']) > 1e-6 * max(1.0, abs(exact['value'])):
                                    O.bad('objective-differs-from-exact@%s%s' % (cfg['entry'], ':no-inequalities' if cfg.get('noG') else ''),
                                          'primal objective %r, exact optimal value %r' % (res['primal objective'], exact['value']))
                            elif lab == 'unknown':
                                _small(O, 'unknown-on-well-posed@' + cfg['entry'], res, None)
                            else:
                                O.bad('status:%s@%s' % (lab, cfg['entry']), 'status %r on a well-posed QP' % lab)
                        _tag(O, nv, inst, cfg, ('P', 'q', 'G', 'h', 'dims', 'A', 'b'))
                    if vals and max(vals) - min(vals) > PATHTOL * max(1.0, abs(vals[0])):
                        O.bad('objective-differs-across-paths@coneqp:no-inequalities', 'optimal values of the solver paths differ: %r' % vals)
                if len(O.viol) > 30:
                    break
    elif case['fam'] == 'qp':
        inst = qpsolve.planted_qp(case['dims'], case['n'], case['p'], case['variant'])
        if inst is not None:
            # bounded below for sure when P is positive definite; otherwise only the exception rule applies
            n = case['n']
            pd = lpexact.rank(inst['P']) == n
            d = inst['dims']
            cfgs = [{'entry': 'coneqp', 'storage': 'dense', 'kkt': None}, {'entry': 'coneqp', 'storage': 'sparse', 'kkt': None},
                    # P stored as its lower triangle only (the documented convention), and with junk above the diagonal
                    {'entry': 'coneqp', 'storage': 'dense', 'kkt': None, 'junk': 0.0},
                    {'entry': 'coneqp', 'storage': 'sparse', 'kkt': None, 'junk': 7.0},
                    {'entry': 'coneqp', 'storage': 'dense', 'kkt': None, 'opts': {'refinement': 2}},
                    {'entry': 'coneqp', 'storage': 'dense', 'kkt': None, 'opts': {'refinement': 3}},
                    {'entry': 'coneqp', 'storage': 'dense', 'kkt': None, 'opts': {'refinement': 0}}]
            if not d['q'] and not d['s']:
                cfgs.append({'entry': 'qp', 'storage': 'dense', 'kkt': None})
            if pd:
                nontriv += 1
            vals = []
            for cfg in cfgs:
                res, _ = qpsolve.call(inst, cfg)
                n_ev += 1
                nv = len(O.viol)
                if isinstance(res, Exception):
                    lab = 'exc:' + type(res).__name__
                    if not isinstance(res, DOC_EXC) or pd:
                        pk = 'P=0' if not any(any(r) for r in inst['P']) else ('Ppd' if pd else 'Psingular')
                        O.bad('exception:%s@%s:%s' % (type(res).__name__, cfg['entry'], pk), 'undocumented exception / exception on a well-posed QP: %r' % (res,))
                else:
                    lab = str(res['status'])
                    if pd:
                        if lab == 'optimal':
                            vals.append(res['primal objective'])
                        elif lab == 'unknown':
                            _small(O, 'unknown-on-well-posed@' + cfg['entry'], res, None)
                        else:
                            O.bad('status:%s@%s' % (lab, cfg['entry']), 'undocumented status %r' % lab)
                note(('wp:' if pd else 'np:') + lab)
                _tag(O, nv, inst, cfg, ('P', 'q', 'G', 'h', 'dims', 'A', 'b'))
            if vals and max(vals) - min(vals) > PATHTOL * max(1.0, abs(vals[0])):
                O.bad('objective-differs-across-paths@coneqp', 'optimal values of the solver paths differ: %r' % vals)
    else:
        pb = nlsolve.base_problems(case['seed'])[case['idx']]
        if case['cone'] is not None:
            A0, b0 = pb['A'], pb['b']
            pb = nlsolve.with_cone(pb, case['cone'], case['seed'], 0)
            if A0:
                pb['A'], pb['b'] = A0, b0
        nontriv += 1
        for cfg in ({}, {'sparse_df': True, 'storage': 'sparse'}):
            if pb['entry'] == 'gp' and cfg:
                cfg = {'storage': 'sparse'}
            res, rec = nlsolve.call(pb, cfg)
            n_ev += 1
            nv = len(O.viol)
            if isinstance(res, Exception):
                lab = 'exc:' + type(res).__name__
                O.bad('exception:%s@%s' % (type(res).__name__, pb['entry']), 'exception on a well-posed problem %s: %r' % (pb['tag'], res))
            else:
                lab = str(res['status'])
                if lab == 'unknown':
                    _small(O, 'unknown-on-well-posed@%s:%s:data%d%s' % (pb['entry'], pb['tag'], case['seed'] % 3,
                                                                       ':cone' if case['cone'] else ''), res, None)
                elif lab != 'optimal':
                    O.bad('status:%s@%s' % (lab, pb['entry']), 'undocumented status %r' % lab)
            note('wp:' + lab)
            for v in O.viol[nv:]:
                v['sub'] = {'problem': pb['tag'], 'cone': case['cone'], 'cfg': cfg}
    return {'n': n_ev, 'nontrivial': nontriv, 'outcomes': outcomes, 'viol': O.viol, 'maxerr': O.maxerr}


def _tag(O, nv, inst, cfg, keys=('c', 'G', 'h', 'dims', 'A', 'b')):
    for v in O.viol[nv:]:
        v['sub'] = {'instance': {k: inst[k] for k in keys}, 'cfg': cfg}


def _judge_cone(O, inst, cfg, res, wp, rank_ok, exact_value, bracket):
    e = cfg['entry']
    if isinstance(res, Exception):
        lab = 'exc:' + type(res).__name__
        if not isinstance(res, DOC_EXC):
            O.bad('exception:%s@%s' % (type(res).__name__, e), 'undocumented exception %r' % (res,))
        elif rank_ok and wp:
            O.bad('exception-on-well-posed:%s@%s' % (type(res).__name__, e), 'exception %r on an instance that satisfies the rank assumptions' % (res,))
        return lab
    lab = str(res.get('status'))
    if not wp:
        return lab
    if wp == 'optimal':
        if lab == 'optimal':
            v = res['primal objective']
            if exact_value is not None and abs(v - exact_value) > 1e-6 * max(1.0, abs(exact_value)):
                O.bad('objective-differs-from-exact@' + e, 'optimal value %.10g, exact %.10g' % (v, exact_value))
            if bracket is not None:
                lo, hi = bracket
                tol = 1e-6 * max(1.0, abs(lo), abs(hi))
                if v < lo - tol or v > hi + tol or res['dual objective'] < lo - tol or res['dual objective'] > hi + tol:
                    O.bad('objective-outside-weak-duality-bracket@' + e, 'objectives (%.10g, %.10g) outside the bracket [%.10g, %.10g] '
                          'of the planted feasible pair' % (v, res['dual objective'], lo, hi))
        elif lab == 'unknown':
            _small(O, 'unknown-on-well-posed@' + e, res, None)
        else:
            O.bad('misclassified:%s-on-strictly-feasible@%s' % (lab.replace(' ', '_'), e),
                  'status %r on a strictly primal and dual feasible instance' % lab)
    elif wp == 'primal infeasible':
        if lab != 'primal infeasible':
            O.bad('misclassified:%s-on-strict-primal-infeasible@%s' % (lab.replace(' ', '_'), e),
                  'status %r on an instance with a strict certificate of primal infeasibility' % lab)
    elif wp == 'dual infeasible':
        if lab != 'dual infeasible':
            O.bad('misclassified:%s-on-strict-dual-infeasible@%s' % (lab.replace(' ', '_'), e),
                  'status %r on an instance with a strictly improving ray' % lab)
    elif wp == 'both':
        if lab == 'optimal':
            O.bad('misclassified:optimal-on-infeasible@' + e, "status 'optimal' on a primal and dual infeasible instance")
    return lab


def crash_key(case):
    return case['fam']
