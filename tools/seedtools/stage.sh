#!/bin/bash
# usage: stage.sh <worktree> <stage-dir>
# Builds an importable cvxopt package from <worktree>/src into <stage-dir>/cvxopt (takes ~5 s).
# Then run python as:  OPENBLAS_NUM_THREADS=1 PYTHONPATH=<stage-dir> /venv/bin/python ...
set -e
WT=$(readlink -f "$1"); ST="$2"
WHEEL=/venv/lib/python3.12/site-packages/cvxopt
SUF=.cpython-312-x86_64-linux-gnu.so
INC=/root/.pyenv/versions/3.12.1/include/python3.12
rm -rf "$ST"; mkdir -p "$ST/cvxopt"; ST=$(readlink -f "$ST")
cp "$WT"/src/python/*.py "$ST/cvxopt/"
[ -f "$ST/cvxopt/_version.py" ] || cp /repo/src/python/_version.py "$ST/cvxopt/"
for m in cholmod umfpack amd glpk dsdp gsl fftw; do cp $WHEEL/$m$SUF "$ST/cvxopt/" 2>/dev/null || true; done
ln -s $WHEEL.libs "$ST/cvxopt.libs"
F="-O1 -g -fPIC -shared -fno-strict-aliasing -w -I$INC -I$WT/src/C"
cd "$WT/src/C"
gcc $F -o "$ST/cvxopt/base$SUF" base.c dense.c sparse.c -llapack -lblas -lm &
gcc $F -o "$ST/cvxopt/blas$SUF" blas.c -llapack -lblas -lm &
gcc $F -o "$ST/cvxopt/lapack$SUF" lapack.c -llapack -lblas -lm &
gcc $F -o "$ST/cvxopt/misc_solvers$SUF" misc_solvers.c -llapack -lblas -lm &
wait
for m in base blas lapack misc_solvers; do [ -f "$ST/cvxopt/$m$SUF" ] || { echo "BUILD FAILED: $m"; exit 1; }; done
echo "staged at $ST"
