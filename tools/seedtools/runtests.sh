#!/bin/bash
# usage: runtests.sh <worktree> <stage-dir>   -- runs the repository's tests against the staged package; must print "36 passed, 4 skipped"
cd "$1" && OPENBLAS_NUM_THREADS=1 PYTHONPATH=$(readlink -f "$2") /venv/bin/python -m pytest -p no:cacheprovider tests 2>&1 | tail -2
