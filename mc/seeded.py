"""Confirm an independently written property-breaking change and run the checks against it.

  python3 -m mc.seeded <dir with patch.diff, demo.py, notes.md> <Cnn> [--tier quick] [--also Cmm ...]

1. copies /repo (src + tests) to a scratch directory under /var/tmp, applies patch.diff
2. stages the patched tree, runs the repository's test suite on it (must stay at 36 passed)
3. runs demo.py on the patched stage (must exit != 0) and on the unpatched stage (must exit 0)
4. runs ./vcheck Cnn against the patched tree (VERIF_REPO) and records exit status and violation keys
5. stores everything under /verif/seeded/<Cnn>-<name>/ (patch.diff, demo.py, notes.md, meta.json)
The scratch copy and its cached build are removed afterwards.
"""
import os, sys, json, shutil, subprocess, tempfile, re, time

VERIF = os.path.dirname(os.path.dirname(os.path.abspath(__file__)))
PY = '/venv/bin/python'


def main(argv):
    src = os.path.abspath(argv[0])
    prop = argv[1]
    tier = 'quick'
    also = []
    it = iter(argv[2:])
    for a in it:
        if a == '--tier':
            tier = next(it)
        elif a == '--also':
            also.append(next(it))
    name = os.path.basename(src.rstrip('/'))
    m0 = re.match(r'^C\d\d-(\w+)$', name)
    if m0:
        name = m0.group(1)          # re-evaluation of a stored change: /verif/seeded/Cnn-X
    sys.path.insert(0, VERIF)
    from mc import build
    tmp = tempfile.mkdtemp(prefix='seed-', dir='/var/tmp')
    meta = {'property': prop, 'name': name, 'source': src, 'date': time.strftime('%Y-%m-%d %H:%M')}
    try:
        shutil.copytree('/repo/src', os.path.join(tmp, 'src'))
        shutil.copytree('/repo/tests', os.path.join(tmp, 'tests'))
        os.symlink('/repo/examples', os.path.join(tmp, 'examples'))     # test_examples.py executes ../examples/doc/*
        p = subprocess.run(['patch', '-p1', '--fuzz=3', '-s', '-i', os.path.join(src, 'patch.diff')], cwd=tmp,
                           stdout=subprocess.PIPE, stderr=subprocess.STDOUT)
        meta['patch_applies'] = p.returncode == 0
        if p.returncode != 0:
            meta['patch_output'] = p.stdout.decode()[-1500:]
            print('PATCH FAILED', meta['patch_output'])
            return _store(src, prop, name, meta)
        st_mut = build.stage('plain', repo=tmp)
        st_ok = build.stage('plain', repo='/repo')
        env = dict(os.environ, OPENBLAS_NUM_THREADS='1', PYTHONPATH=st_mut, PYTHONHASHSEED='0')
        t = subprocess.run([PY, '-m', 'pytest', '-p', 'no:cacheprovider', 'tests'], cwd=tmp, env=env,
                           stdout=subprocess.PIPE, stderr=subprocess.STDOUT)
        out = t.stdout.decode()
        m = re.search(r'(\d+) passed', out)
        meta['tests_passed_with_change'] = int(m.group(1)) if m else None
        meta['tests_failed_with_change'] = bool(re.search(r'\d+ failed|\d+ error', out))
        d1 = subprocess.run([PY, os.path.join(src, 'demo.py')], cwd=tmp, env=env, stdout=subprocess.PIPE, stderr=subprocess.STDOUT)
        env2 = dict(env, PYTHONPATH=st_ok)
        d0 = subprocess.run([PY, os.path.join(src, 'demo.py')], cwd=tmp, env=env2, stdout=subprocess.PIPE, stderr=subprocess.STDOUT)
        meta['demo_exit_with_change'] = d1.returncode
        meta['demo_exit_without_change'] = d0.returncode
        meta['demo_output_with_change'] = d1.stdout.decode()[-800:]
        meta['confirmed'] = (meta['tests_passed_with_change'] == 36 and not meta['tests_failed_with_change']
                             and d1.returncode != 0 and d0.returncode == 0)
        meta['checks'] = {}
        for pr in [prop] + also:
            envc = dict(os.environ, VERIF_REPO=tmp, VERIF_EVIDENCE_DIR=os.path.join(tmp, 'evidence'),
                        VERIF_REPLAY_DIR=os.path.join(tmp, 'replays'))
            t0 = time.time()
            c = subprocess.run([os.path.join(VERIF, 'vcheck'), pr, '--tier', tier], cwd=VERIF, env=envc,
                               stdout=subprocess.PIPE, stderr=subprocess.STDOUT)
            o = c.stdout.decode()
            keys = re.findall(r'^\s+key=(\S+)', o, re.M)
            meta['checks'][pr] = {'tier': tier, 'exit': c.returncode, 'violation_keys': [k for k in keys][:8],
                                  'detected': c.returncode == 1 and 'VIOLATION property=%s' % pr in o,
                                  'wall_s': round(time.time() - t0, 1)}
            print('%s %s: exit %d detected=%s keys=%s' % (pr, name, c.returncode, meta['checks'][pr]['detected'], keys[:3]))
        return _store(src, prop, name, meta)
    finally:
        for fl in ('plain', 'asan'):
            try:
                h = build.tree_hash(tmp, fl)
                shutil.rmtree(os.path.join(build.CACHE, 'stage-%s-%s' % (fl, h)), ignore_errors=True)
            except Exception:
                pass
        shutil.rmtree(tmp, ignore_errors=True)


def _store(src, prop, name, meta):
    dst = os.path.join(VERIF, 'seeded', '%s-%s' % (prop, name))
    os.makedirs(dst, exist_ok=True)
    for f in ('patch.diff', 'demo.py', 'notes.md'):
        if os.path.exists(os.path.join(src, f)) and os.path.abspath(src) != os.path.abspath(dst):
            shutil.copy(os.path.join(src, f), dst)
    try:
        meta['needs_to_manifest'] = open(os.path.join(src, 'notes.md')).read()[:1500]
    except Exception:
        pass
    with open(os.path.join(dst, 'meta.json'), 'w') as f:
        json.dump(meta, f, indent=1)
    print('stored', dst, 'confirmed=%s' % meta.get('confirmed'))
    return 0


if __name__ == '__main__':
    sys.exit(main(sys.argv[1:]))
