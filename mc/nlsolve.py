"""Problem library, harness and oracle for cpl / cp / gp (C04, also C05, C06, C09, C10).

A problem is a JSON-able dict:
  {'fam': ..., 'entry': 'cpl'|'cp'|'gp', params..., 'dims', 'G' (cols), 'h', 'A' (rows), 'b'}
The smooth convex functions are defined once, in plain Python (value, gradient rows, Hessians); the callback F
handed to the solver is a thin wrapper that converts to cvxopt matrices and records every call.  The oracle
re-evaluates the same definitions at the returned x - the functions are problem *data*, not code under test.
"""
import math
from mc.ref import cone as R
from mc import dom, solve
from mc.solve import lower_sym, INFL, RECOMP_ABS, DEFAULTS


# ------------------------------------------------------------------------------------------------ functions
def feval(prob, x, need_H=False):
    """(f list, Df rows, H list of matrices) of the nonlinear functions at x, or None outside the domain.
    For entry 'cp'/'gp' f[0] is the objective."""
    fam = prob['fam']
    n = len(x)
    if fam == 'quad':            # cp: f0 = 1/2 x'Px + q'x
        P, q = prob['P'], prob['q']
        Px = [sum(P[i][j] * x[j] for j in range(n)) for i in range(n)]
        f = [0.5 * R.dot(x, Px) + R.dot(q, x)]
        Df = [[Px[j] + q[j] for j in range(n)]]
        H = [[list(r) for r in P]]
        return f, Df, H
    if fam == 'acent':           # cp: f0 = -sum log(bb_i - a_i'x)
        Aa, bb = prob['Aa'], prob['bb']
        r = [bb[i] - R.dot(Aa[i], x) for i in range(len(bb))]
        if min(r) <= 0.0:
            return None
        f = [-sum(math.log(t) for t in r)]
        Df = [[sum(Aa[i][j] / r[i] for i in range(len(bb))) for j in range(n)]]
        H = [[[sum(Aa[i][j] * Aa[i][k] / r[i] ** 2 for i in range(len(bb))) for k in range(n)] for j in range(n)]]
        return f, Df, H
    if fam == 'entropy':         # cp: f0 = sum x log x, domain x > 0
        if min(x) <= 0.0:
            return None
        f = [sum(t * math.log(t) for t in x)]
        Df = [[math.log(t) + 1.0 for t in x]]
        H = [[[1.0 / x[j] if j == k else 0.0 for k in range(n)] for j in range(n)]]
        return f, Df, H
    if fam == 'lse':             # cp/gp: f_i = log sum exp(F_i x + g_i)
        K, F, g = prob['K'], prob['F'], prob['g']
        f, Df, H = [], [], []
        start = 0
        for k in K:
            rows = F[start:start + k]
            y = [R.dot(rows[i], x) + g[start + i] for i in range(k)]
            ym = max(y)
            e = [math.exp(t - ym) for t in y]
            se = sum(e)
            w = [t / se for t in e]
            f.append(ym + math.log(se))
            grad = [sum(w[i] * rows[i][j] for i in range(k)) for j in range(n)]
            Df.append(grad)
            H.append([[sum(w[i] * rows[i][a] * rows[i][b] for i in range(k)) - grad[a] * grad[b]
                       for b in range(n)] for a in range(n)])
            start += k
        return f, Df, H
    if fam == 'ball':            # cpl: f1 = ||x - xc||^2 - r^2
        xc, r = prob['xc'], prob['r']
        dlt = [x[j] - xc[j] for j in range(n)]
        f = [R.dot(dlt, dlt) - r * r]
        Df = [[2.0 * t for t in dlt]]
        H = [[[2.0 if j == k else 0.0 for k in range(n)] for j in range(n)]]
        return f, Df, H
    if fam == 'expc':            # cpl: f1 = exp(x0) - x1 ; f2 = ||x||^2 - 16 (keeps the problem bounded)
        f = [math.exp(x[0]) - x[1], R.dot(x, x) - 16.0]
        Df = [[math.exp(x[0]), -1.0] + [0.0] * (n - 2), [2.0 * t for t in x]]
        H0 = [[0.0] * n for _ in range(n)]
        H0[0][0] = math.exp(x[0])
        H = [H0, [[2.0 if j == k else 0.0 for k in range(n)] for j in range(n)]]
        return f, Df, H
    if fam == 'logdom':          # cpl: f1 = -log(x0) - log(x1) + x-shift  (restricted domain x0, x1 > 0) and a ball
        if x[0] <= 0.0 or x[1] <= 0.0:
            return None
        f = [-math.log(x[0]) - math.log(x[1]) - prob['lev'], R.dot(x, x) - 25.0]
        Df = [[-1.0 / x[0], -1.0 / x[1]] + [0.0] * (n - 2), [2.0 * t for t in x]]
        H0 = [[0.0] * n for _ in range(n)]
        H0[0][0] = 1.0 / x[0] ** 2
        H0[1][1] = 1.0 / x[1] ** 2
        H = [H0, [[2.0 if j == k else 0.0 for k in range(n)] for j in range(n)]]
        return f, Df, H
    raise AssertionError(fam)


def nfun(prob):
    return {'quad': 1, 'acent': 1, 'entropy': 1, 'ball': 1, 'expc': 2, 'logdom': 2}.get(prob['fam']) or len(prob['K'])


def make_F(prob, cfg, rec):
    """F callback for cvxopt.  rec collects: calls (list of ('F0'|'F1'|'F2', x list, in_domain))."""
    from cvxopt import matrix, sparse
    from mc import cvx
    n = len(prob['x0'])
    m = nfun(prob)
    mnl = m - 1 if prob['entry'] in ('cp', 'gp') else m
    refuse = cfg.get('refuse')      # fault injection hook: function(callindex, x) -> True to pretend "outside domain"

    def F(x=None, z=None):
        if x is None:
            rec['calls'].append(('F0', None, True))
            if cfg.get('persistent_x0') is not None:
                return mnl, cfg['persistent_x0']        # the caller's own start-point object, handed out at every F()
            return mnl, cvx.dmat(prob['x0'])
        xl = list(x)
        v = feval(prob, xl)
        if z is None:
            rec['calls'].append(('F1', xl, v is not None))
            if refuse is not None and refuse(rec, xl):
                return None if cfg.get('none_style', 0) == 0 else (None, None)
            if v is None:
                return None if cfg.get('none_style', 0) == 0 else (None, None)
        else:
            rec['calls'].append(('F2', xl, v is not None))
            if v is None:
                raise AssertionError('harness: F(x,z) called outside the domain')
        f, Df, H = v
        fm = cvx.dmat(f)
        Dfm = matrix([Df[i][j] for j in range(n) for i in range(m)], (m, n), 'd')
        if cfg.get('sparse_df'):
            Dfm = sparse(Dfm) + _pattern(m, n)
        if z is None:
            return fm, Dfm
        zl = list(z)
        Hs = [[sum(zl[k] * H[k][a][b] for k in range(m)) for b in range(n)] for a in range(n)]
        Hm = matrix([Hs[a][b] if a >= b else (cfg.get('junk', 0.0) if cfg.get('junk') is not None else Hs[a][b])
                     for b in range(n) for a in range(n)], (n, n), 'd')
        if cfg.get('sparse_df'):
            Hm = sparse(Hm) + _pattern(n, n)
        return fm, Dfm, Hm
    return F


def _pattern(m, n):
    """full sparsity pattern with explicit zeros, so that the pattern is the same at every call as documented."""
    from cvxopt import spmatrix
    return spmatrix(0.0, [i for j in range(n) for i in range(m)], [j for j in range(n) for i in range(m)], (m, n))


# ------------------------------------------------------------------------------------------------ problems
def with_cone(prob, d, variant, p=0):
    """attach planted linear cone constraints, strictly satisfied at prob['xf'] (a strictly feasible point)."""
    n = len(prob['x0'])
    N = R.cdim(d)
    G = solve.gen_G(d, n, variant)
    xf = prob['xf']
    s0 = lower_sym(dom.interior(d, 0, variant), d)
    prob = dict(prob)
    prob['dims'] = d
    prob['G'] = G
    prob['h'] = [a + b for a, b in zip(R.Gx(G, xf, N), s0)]
    A = solve.gen_A(p, n, variant)
    prob['A'] = A
    prob['b'] = [sum(A[i][j] * xf[j] for j in range(n)) for i in range(p)]
    return prob


D0 = {'l': 0, 'q': [], 's': []}


def base_problems(seed=0):
    """The function library with enumerated integer / dyadic data.  Each has x0 in the domain (start point) and
    xf strictly feasible for the nonlinear constraints (used to plant linear constraints)."""
    out = []
    pal = [[1.0, -1.0, 0.5], [2.0, 1.0, -0.5], [-1.0, 0.5, 2.0]][seed % 3]
    # quad (cp), P = L L' + I positive definite
    for n in (1, 2, 3):
        for v in range(3):
            from mc import qpsolve
            P0 = qpsolve.gen_P(n, v + seed)
            P = [[P0[i][j] + (1.0 if i == j else 0.0) for j in range(n)] for i in range(n)]
            q = [pal[(j + v) % 3] for j in range(n)]
            out.append({'fam': 'quad', 'entry': 'cp', 'P': P, 'q': q, 'x0': [0.0] * n, 'xf': [0.25] * n, 'tag': 'quad%d.%d' % (n, v)})
    # acent (cp): box |x_j| < 1..2 plus one cut; start points at several distances from the boundary
    for n in (1, 2):
        for dist in (1.0, 0.25, 2.0 ** -6, 2.0 ** -20):
            Aa, bb = [], []
            for j in range(n):
                e = [1.0 if k == j else 0.0 for k in range(n)]
                Aa.append(e); bb.append(1.0)
                Aa.append([-t for t in e]); bb.append(2.0)
            Aa.append([1.0] * n); bb.append(1.5)
            x0 = [1.0 - dist] + [0.0] * (n - 1)
            out.append({'fam': 'acent', 'entry': 'cp', 'Aa': Aa, 'bb': bb, 'x0': x0, 'xf': [0.0] * n, 'tag': 'acent%d.%g' % (n, dist)})
    # entropy (cp) on the simplex
    for n in (2, 3):
        out.append({'fam': 'entropy', 'entry': 'cp', 'x0': [1.0 / n] * n, 'xf': [1.0 / n] * n, 'simplex': True,
                    'tag': 'entropy%d' % n})
        out.append({'fam': 'entropy', 'entry': 'cp', 'x0': [2.0 ** -10] + [0.5] * (n - 1), 'xf': [1.0 / n] * n,
                    'simplex': True, 'tag': 'entropy%d.edge' % n})
    # log-sum-exp (gp and cp on the same data)
    for v in range(3):
        K = [2, 2]
        F = [[-1.0, -1.0], [-1.0, 0.5 * pal[v % 3]], [1.0, 0.0], [0.0, 1.0]]
        g = [0.0, 0.5, math.log(0.5), math.log(0.25 * (v + 1))]
        for entry in ('gp', 'cp'):
            out.append({'fam': 'lse', 'entry': entry, 'K': K, 'F': F, 'g': g, 'x0': [0.0, 0.0], 'xf': [-1.0, -1.0],
                        'tag': 'lse.%d.%s' % (v, entry)})
    K = [3, 2, 1]
    F = [[-1.0, 0.0, 0.0], [0.0, -1.0, -1.0], [-0.5, -0.5, 1.0], [1.0, 1.0, 0.0], [0.0, 0.0, 1.0], [0.0, 1.0, 1.0]]
    g = [0.0, 0.25, -0.5, math.log(0.25), math.log(0.25), math.log(0.5)]
    for entry in ('gp', 'cp'):
        out.append({'fam': 'lse', 'entry': entry, 'K': K, 'F': F, 'g': g, 'x0': [0.0, 0.0, 0.0], 'xf': [-1.0, -1.0, -1.0],
                    'tag': 'lse3.%s' % entry})
    # ball (cpl): min c'x st ||x-xc||^2 <= r^2
    for n in (1, 2, 3):
        for v in range(2):
            xc = [pal[(j + v) % 3] for j in range(n)]
            c = [pal[(j + v + 1) % 3] for j in range(n)]
            out.append({'fam': 'ball', 'entry': 'cpl', 'c': c, 'xc': xc, 'r': 1.0 + v, 'x0': list(xc), 'xf': list(xc),
                        'tag': 'ball%d.%d' % (n, v)})
            # same problem started off-centre (at the centre Df(x0) = 0 and cpl is known to stall, see known_findings C05)
            out.append({'fam': 'ball', 'entry': 'cpl', 'c': c, 'xc': xc, 'r': 1.0 + v, 'x0': [xc[0] + 0.5] + list(xc[1:]),
                        'xf': list(xc), 'tag': 'ballo%d.%d' % (n, v)})
    # exp constraint (cpl)
    out.append({'fam': 'expc', 'entry': 'cpl', 'c': [-1.0, 0.5], 'x0': [0.0, 2.0], 'xf': [0.0, 2.0], 'tag': 'expc2'})
    out.append({'fam': 'expc', 'entry': 'cpl', 'c': [-1.0, 0.5, 1.0], 'x0': [0.0, 2.0, 0.0], 'xf': [0.0, 2.0, 0.0], 'tag': 'expc3'})
    # restricted domain nonlinear constraint (cpl)
    for lev in (0.0, 1.0):
        for dist in (1.0, 2.0 ** -6, 2.0 ** -20):
            out.append({'fam': 'logdom', 'entry': 'cpl', 'c': [1.0, 2.0], 'lev': lev, 'x0': [dist, 3.0], 'xf': [2.0, 2.0],
                        'tag': 'logdom.%g.%g' % (lev, dist)})
    for pb in out:
        pb.setdefault('dims', D0); pb.setdefault('G', [[] for _ in pb['x0']]); pb.setdefault('h', [])
        if pb.get('simplex'):
            pb['A'] = [[1.0] * len(pb['x0'])]; pb['b'] = [1.0]
        pb.setdefault('A', []); pb.setdefault('b', [])
    return out


# ------------------------------------------------------------------------------------------------ calling
def call(prob, cfg, kktsolver_obj=None):
    from cvxopt import solvers, matrix, sparse, spmatrix
    from mc import cvx
    d = prob['dims']
    n = len(prob['x0'])
    N = R.cdim(d)
    p = len(prob['A'])
    rec = {'calls': []}
    Gc = [list(c) for c in prob['G']]
    h = list(prob['h'])
    if cfg.get('junk') is not None:
        Gc = [solve.put_junk(c, d, cfg['junk']) for c in Gc]
        h = solve.put_junk(h, d, cfg['junk'] + 2.0)
    G = cvx.from_cols(Gc, N)
    A = matrix([prob['A'][i][j] for j in range(n) for i in range(p)], (p, n), 'd') if p else matrix(0.0, (0, n))
    if cfg.get('storage') == 'sparse':
        G = sparse(G)
        A = sparse(A) if p else spmatrix([], [], [], (0, n), 'd')
    hm, bm = cvx.dmat(h), cvx.dmat(prob['b'])
    dd = {'l': d['l'], 'q': list(d['q']), 's': list(d['s'])}
    opts = {'show_progress': False}
    opts.update(cfg.get('opts') or {})
    kkt = cfg.get('kkt')
    if kktsolver_obj is not None:
        kkt = kktsolver_obj
    # how the option set reaches the solver: per call (options=..., the default) or through the global solvers.options with
    # no options= keyword at all (cfg['via'] == 'global'); cfg['prelude'] = option set of a call made immediately before
    # through the same entry point with per-call options (its result is discarded): the judged call must not inherit it
    solvers.options.clear()
    if cfg.get('prelude') is not None:
        call(prob, dict(cfg, prelude=None, via=None, opts=cfg['prelude']))
        if cfg.get('via') != 'global':
            solvers.options.clear()          # (a leak into the globals is then only visible to the 'global' route)
    okw = {'options': opts}
    if cfg.get('poison') is not None:
        solvers.options.update(cfg['poison'])    # global settings that a call with its own options= dictionary must not see
    if cfg.get('via') == 'global':
        for k_, v_ in opts.items():
            solvers.options.setdefault(k_, v_)   # what a leaking prelude left behind stays in place
        okw = {}
    try:
        if prob['entry'] == 'gp':
            Fm = matrix([prob['F'][i][j] for j in range(n) for i in range(len(prob['F']))], (len(prob['F']), n), 'd')
            if cfg.get('storage') == 'sparse':
                Fm = sparse(Fm)
            kw = {}
            if N or p:
                if d['q'] or d['s']:
                    raise AssertionError('gp accepts componentwise inequalities only')
                kw = {'G': G, 'h': hm, 'A': A, 'b': bm}
            sol = solvers.gp(list(prob['K']), Fm, cvx.dmat(prob['g']), kktsolver=kkt, **okw, **kw)
        else:
            F = make_F(prob, cfg, rec)
            if cfg.get('operators'):
                # G and A as Python functions; this requires a user KKT solver: a built-in factory fed with the matrices
                from cvxopt import misc, base
                Gmat, Amat = G, A
                m_ = nfun(prob)
                epi_ = prob['entry'] == 'cp'
                fac_ = misc.kkt_ldl(Gmat, dd, Amat, m_ - 1 if epi_ else m_)

                def G(x, y, trans='N', alpha=1.0, beta=0.0):
                    misc.sgemv(Gmat, x, y, dd, trans=trans, alpha=alpha, beta=beta)

                def A(x, y, trans='N', alpha=1.0, beta=0.0):
                    base.gemv(Amat, x, y, trans=trans, alpha=alpha, beta=beta)

                def kkt(x, z, W):
                    f_, Df_, H_ = F(x, z)
                    return fac_(W, H_, Df_[1:, :] if epi_ else Df_)
            if prob['entry'] == 'cp':
                sol = solvers.cp(F, G, hm, dd, A, bm, kktsolver=kkt, **okw)
            else:
                sol = solvers.cpl(cvx.dmat(prob['c']), F, G, hm, dd, A, bm, kktsolver=kkt, **okw)
    except Exception as e:
        return e, rec
    return sol, rec


# ------------------------------------------------------------------------------------------------ oracle
def check_optimal(O, prob, sol, cfg, rec, status='optimal'):
    d = prob['dims']
    opts = dict(DEFAULTS); opts.update(cfg.get('opts') or {})
    n, N, p = len(prob['x0']), R.cdim(d), len(prob['A'])
    m = nfun(prob)
    epi = prob['entry'] in ('cp', 'gp')
    mnl = m - 1 if epi else m

    def L(v):
        return None if v is None else list(v)
    x, y = L(sol.get('x')), L(sol.get('y'))
    snl, znl, sl, zl = L(sol.get('snl')), L(sol.get('znl')), L(sol.get('sl')), L(sol.get('zl'))
    for name, v, ln in (('x', x, n), ('y', y, p), ('snl', snl, mnl), ('znl', znl, mnl), ('sl', sl, N), ('zl', zl, N)):
        if v is None or len(v) != ln:
            O.bad('shape:%s' % name, "'%s' has length %r, expected %d (the solution of the original problem)"
                  % (name, None if v is None else len(v), ln))
            return None
        if any(t != t or abs(t) == float('inf') for t in v):
            O.bad('shape:%s-nonfinite' % name, "'%s' contains nan/inf" % name)
            return None
    sub = {'x': x, 'y': y, 'snl': snl, 'znl': znl, 'sl': sl, 'zl': zl}
    v = feval(prob, x)
    if v is None:
        O.bad('%s:x-outside-domain' % status, 'returned x = %r is outside the domain of F' % (x,), sub)
        return None
    f, Df, H = v
    v0 = feval(prob, prob['x0'])
    f0, Df0, _ = v0
    G, A = prob['G'], prob['A']
    h, b = lower_sym(prob['h'], d), prob['b']
    e = R.identity(d)
    c = [0.0] * n if epi else prob['c']
    fc, Dfc = (f[1:], Df[1:]) if epi else (f, Df)        # constraint functions
    # normalisers at x0 with s = z = e (for cp/gp those of the epigraph problem with t0 = 0, znl0 = 1)
    Gx0 = R.Gx(G, prob['x0'], N)
    Ax0 = [R.dot(A[i], prob['x0']) - b[i] for i in range(p)]
    pres0 = max(1.0, math.sqrt(sum((t + 1.0) ** 2 for t in f0) + R.snrm2([Gx0[i] + e[i] - h[i] for i in range(N)], d) ** 2
                               + sum(t * t for t in Ax0)))
    GTe = R.GTz(G, e, d)
    dres0 = max(1.0, R.nrm2([c[j] + sum(Df0[k][j] for k in range(m)) + GTe[j] for j in range(n)]))
    # residuals at the returned point
    Gx = R.Gx(G, x, N)
    rznl = [fc[k] + snl[k] for k in range(mnl)]
    rzl = [Gx[i] + sl[i] - h[i] for i in range(N)]
    ry = [R.dot(A[i], x) - b[i] for i in range(p)]
    pres = math.sqrt(sum(t * t for t in rznl) + R.snrm2(rzl, d) ** 2 + sum(t * t for t in ry)) / pres0
    GTz = R.GTz(G, zl, d)
    ATy = [sum(A[i][j] * y[i] for i in range(p)) for j in range(n)]
    grad0 = Df[0] if epi else c
    rx = [grad0[j] + sum(Dfc[k][j] * znl[k] for k in range(mnl)) + GTz[j] + ATy[j] for j in range(n)]
    dres = R.nrm2(rx) / dres0
    gap = R.dot(snl, znl) + R.sdot(sl, zl, d)
    pcost = f[0] if epi else R.dot(c, x)
    dcost = pcost + R.dot(znl, fc) + R.sdot(zl, [Gx[i] - h[i] for i in range(N)], d) + R.dot(y, ry)
    s_all, z_all = snl + sl, znl + zl
    ts = -R.max_step(s_all, d, mnl) if (mnl + N) else None
    tz = -R.max_step(z_all, d, mnl) if (mnl + N) else None
    ns, nz = R.snrm2(s_all, d, mnl), R.snrm2(z_all, d, mnl)
    g0n = R.nrm2(Df[0]) if epi else 0.0
    if status == 'optimal':
        O.err('pres/feastol', pres / opts['feastol']); O.err('dres/feastol', dres / opts['feastol'])
        # epigraph form: the returned pieces omit the (t, z0) components whose residuals are themselves <= feastol
        pf = opts['feastol'] * INFL + 1e-10
        df = opts['feastol'] * INFL * (1.0 + (g0n if epi else 0.0)) + 1e-10
        if not pres <= pf:
            O.bad('optimal:primal-residual', 'primal residual %.3g > feastol %.3g (normaliser %.3g)' % (pres, opts['feastol'], pres0), sub)
        if not dres <= df:
            O.bad('optimal:dual-residual', 'stationarity residual %.3g > feastol %.3g (normaliser %.3g)' % (dres, opts['feastol'], dres0), sub)
        tiny = 1e-9 * max(1.0, ns, nz)
        if (mnl + N) and not ts >= -tiny:
            O.bad('optimal:s-outside-cone', '(snl, sl) not nonnegative / in the cone (margin %.3g)' % ts, sub)
        if (mnl + N) and not tz >= -tiny:
            O.bad('optimal:z-outside-cone', '(znl, zl) not nonnegative / in the cone (margin %.3g)' % tz, sub)
        gs = ns * nz
        at = opts['abstol'] * INFL + RECOMP_ABS * max(1.0, gs)
        relgap = solve.relgap_rule(gap, pcost, dcost)
        cs_ = max(1.0, abs(pcost), R.nrm2(c) * R.nrm2(x)) + gs + nz * max(1.0, R.snrm2(h, d))
        ok_rel = solve.rel_ok(gap, pcost, dcost, opts['reltol'] * INFL * (1.0 + (1e-3 if epi else 0.0)) + 1e-9, 1e-12 * cs_)
        if not (gap <= at or ok_rel):
            O.bad('optimal:gap', 'gap %.3g > abstol %.3g and relative gap %r > reltol %.3g' % (gap, opts['abstol'], relgap, opts['reltol']), sub)
    pre = '' if status == 'optimal' else 'unknown:'
    gs = ns * nz
    if not epi:
        cs = max(1.0, R.nrm2(c) * R.nrm2(x))
        O.close(pre + 'field:primal objective', 'primal objective', sol.get('primal objective'), pcost, cs, sub)
        O.close(pre + 'field:dual objective', 'dual objective', sol.get('dual objective'), dcost, cs + gs + nz * max(1.0, R.snrm2(h, d)), sub)
        O.close(pre + 'field:gap', 'gap', sol.get('gap'), gap, gs, sub)
        O.close(pre + 'field:primal infeasibility', 'primal infeasibility', sol.get('primal infeasibility'), pres, max(1.0, ns) * 1e-3, sub, rel=1e-3)
        O.close(pre + 'field:dual infeasibility', 'dual infeasibility', sol.get('dual infeasibility'), dres, max(1.0, nz) * 1e-3, sub, rel=1e-3)
        if mnl + N:
            O.close(pre + 'field:primal slack', 'primal slack', sol.get('primal slack'), ts, max(1.0, ns), sub)
            O.close(pre + 'field:dual slack', 'dual slack', sol.get('dual slack'), tz, max(1.0, nz), sub)
    else:
        # fields are those of the epigraph problem: they bound the recomputed ones from above
        rg = sol.get('gap')
        if rg is None or not gap <= rg * (1 + 1e-6) + RECOMP_ABS * max(1.0, gs):
            O.bad(pre + 'field:gap', 'gap field %r is smaller than the gap %.6g of the returned pieces' % (rg, gap), sub)
        rp = sol.get('primal infeasibility')
        if rp is None or not pres <= rp * (1 + 1e-3) + 1e-9 * max(1.0, ns):
            O.bad(pre + 'field:primal infeasibility', 'primal infeasibility field %r is smaller than the residual %.6g of the returned pieces' % (rp, pres), sub)
        po = sol.get('primal objective')
        # t - f0(x) = s0 - r0 with |r0| <= feastol*pres0 and s0 <= gap / z0, z0 = 1 + O(feastol)
        if status == 'optimal' and (po is None or abs(po - f[0]) > opts['feastol'] * pres0 * INFL + 2.0 * (rg or 0.0)
                                    + 1e-9 * max(1.0, abs(f[0]))):
            O.bad('field:primal objective', 'primal objective %r but f0(x) = %.12g' % (po, f[0]), sub)
    return {'pcost': pcost, 'x': x, 'pres': pres, 'dres': dres, 'gap': gap}


def check_calls(O, prob, rec):
    """F(x, z) is only ever called inside the domain (the interface promises it)."""
    for kind, xl, ind in rec['calls']:
        if kind == 'F2' and not ind:
            O.bad('F2-called-outside-domain', 'F(x, z) was called with x = %r outside the domain' % (xl,))
            return
