"""Stage a private, importable copy of cvxopt built from the *working tree*.

The repository's own test command imports cvxopt from the wheel installed in
/venv, so edits of /repo are invisible to it.  Every check therefore imports
the package staged here:

  <cache>/stage-<hash>/cvxopt/*.py                      copied from $VERIF_REPO/src/python
  <cache>/stage-<hash>/cvxopt/{base,blas,lapack,misc_solvers}.*.so
                                                         compiled from $VERIF_REPO/src/C
  <cache>/stage-<hash>/cvxopt/{cholmod,umfpack,amd,glpk,dsdp,gsl,fftw}.*.so
                                                         copied from the wheel (no headers to rebuild)
  <cache>/stage-<hash>/cvxopt.libs -> wheel's cvxopt.libs

hash = sha256(all staged sources + flags); at most KEEP stages are kept.
"""
import hashlib, os, shutil, subprocess, sys, sysconfig, glob, time, fcntl

VERIF = os.path.dirname(os.path.dirname(os.path.abspath(__file__)))
CACHE = os.environ.get('VERIF_CACHE', os.path.join(VERIF, '.cache'))
REPO = os.environ.get('VERIF_REPO', '/repo')
PY = '/venv/bin/python'
WHEEL = '/venv/lib/python3.12/site-packages/cvxopt'
SUFFIX = '.cpython-312-x86_64-linux-gnu.so'
INC = '/root/.pyenv/versions/3.12.1/include/python3.12'
KEEP = 6

MODS = {
    'base': ['base.c', 'dense.c', 'sparse.c'],
    'blas': ['blas.c'],
    'lapack': ['lapack.c'],
    'misc_solvers': ['misc_solvers.c'],
}
PREBUILT = ['cholmod', 'umfpack', 'amd', 'glpk', 'dsdp', 'gsl', 'fftw']
FLAGS = {
    'plain': ['-O1', '-g', '-fPIC', '-shared', '-fno-strict-aliasing', '-w'],
    'asan': ['-O1', '-g', '-fPIC', '-shared', '-fno-strict-aliasing', '-w',
             '-fsanitize=address', '-fsanitize-recover=address',
             '-fno-omit-frame-pointer'],
    # development aid (mc/covmap.py): line coverage of the C sources under the checks; never used by a registered check
    'gcov': ['-O0', '-g', '-fPIC', '-shared', '-fno-strict-aliasing', '-w', '--coverage'],
}
GCOV_SHIM = 'extern void __gcov_dump(void);\n__attribute__((visibility("default"))) void verif_gcov_dump(void) { __gcov_dump(); }\n'


def _srcfiles(repo):
    cs = sorted(glob.glob(os.path.join(repo, 'src/C/*.c')) +
                glob.glob(os.path.join(repo, 'src/C/*.h')))
    ps = sorted(glob.glob(os.path.join(repo, 'src/python/*.py')))
    return cs, ps


def tree_hash(repo, flavour):
    h = hashlib.sha256()
    cs, ps = _srcfiles(repo)
    for f in cs + ps:
        h.update(os.path.basename(f).encode())
        with open(f, 'rb') as fh:
            h.update(fh.read())
    h.update(' '.join(FLAGS[flavour]).encode())
    h.update(flavour.encode())
    return h.hexdigest()[:16]


def _prune():
    stages = sorted(glob.glob(os.path.join(CACHE, 'stage-*')),
                    key=lambda p: os.path.getmtime(p))
    for p in stages[:-KEEP]:
        shutil.rmtree(p, ignore_errors=True)


def stage(flavour='plain', repo=None, quiet=True):
    """Return the PYTHONPATH directory holding package `cvxopt` built from repo."""
    repo = repo or os.environ.get('VERIF_REPO', '/repo')
    os.makedirs(CACHE, exist_ok=True)
    hsh = tree_hash(repo, flavour)
    root = os.path.join(CACHE, 'stage-%s-%s' % (flavour, hsh))
    ok = os.path.join(root, '.ok')
    if os.path.exists(ok):
        os.utime(root, None)
        return root
    lock = open(os.path.join(CACHE, '.lock'), 'w')
    fcntl.flock(lock, fcntl.LOCK_EX)
    try:
        if os.path.exists(ok):
            return root
        tmp = root + '.tmp%d' % os.getpid()
        shutil.rmtree(tmp, ignore_errors=True)
        pkg = os.path.join(tmp, 'cvxopt')
        os.makedirs(pkg)
        cs, ps = _srcfiles(repo)
        for f in ps:
            shutil.copy(f, pkg)
        for m in PREBUILT:
            src = os.path.join(WHEEL, m + SUFFIX)
            if os.path.exists(src):
                shutil.copy(src, pkg)
        os.symlink(WHEEL + '.libs', os.path.join(tmp, 'cvxopt.libs'))
        procs = []
        shim = []
        if flavour == 'gcov':
            shim = [os.path.join(tmp, 'verif_gcov_shim.c')]
            open(shim[0], 'w').write(GCOV_SHIM)
        for mod, srcs in MODS.items():
            out = os.path.join(pkg, mod + SUFFIX)
            cmd = ['gcc'] + FLAGS[flavour] + ['-I', INC, '-I', os.path.join(repo, 'src/C'),
                   '-o', out] + [os.path.join(repo, 'src/C', s) for s in srcs] + shim + \
                  ['-llapack', '-lblas', '-lm']
            procs.append((mod, subprocess.Popen(cmd, stdout=subprocess.PIPE,
                                                stderr=subprocess.STDOUT)))
        failed = []
        for mod, p in procs:
            o, _ = p.communicate()
            if p.returncode != 0:
                failed.append((mod, o.decode(errors='replace')))
        if failed:
            shutil.rmtree(tmp, ignore_errors=True)
            raise RuntimeError('build of working tree failed:\n' +
                               '\n'.join('%s:\n%s' % f for f in failed))
        shutil.rmtree(root, ignore_errors=True)
        os.rename(tmp, root)
        open(ok, 'w').write(time.ctime())
        _prune()
        return root
    finally:
        fcntl.flock(lock, fcntl.LOCK_UN)
        lock.close()


def env(flavour='plain', repo=None, extra=None):
    """Environment for a worker process that imports the staged package."""
    cover = os.environ.get('VERIF_COVER')
    root = stage('gcov' if (cover and flavour == 'plain') else flavour, repo)
    e = dict(os.environ)
    if cover:
        e['GCOV_PREFIX'] = os.path.join(cover, 'gcda')
    pp = [root, VERIF]
    deps = os.path.join(CACHE, 'deps')
    if os.path.isdir(deps):
        pp.append(deps)
    e['PYTHONPATH'] = os.pathsep.join(pp)
    e['OPENBLAS_NUM_THREADS'] = '1'
    e['OMP_NUM_THREADS'] = '1'
    e['PYTHONHASHSEED'] = '0'
    e['VERIF_STAGE'] = root
    e['VERIF_FLAVOUR'] = flavour
    if flavour == 'asan':
        lib = subprocess.check_output(['gcc', '-print-file-name=libasan.so']).decode().strip()
        e['LD_PRELOAD'] = lib
        os.makedirs(os.path.join(CACHE, 'asan'), exist_ok=True)
        e['VERIF_ASAN_LOG'] = os.path.join(CACHE, 'asan', 'log-%d' % os.getpid())
        e['ASAN_OPTIONS'] = 'detect_leaks=0:halt_on_error=0:allocator_may_return_null=1:' \
                            'detect_odr_violation=0:suppress_equal_pcs=0:quarantine_size_mb=16:log_path=%s' % e['VERIF_ASAN_LOG']
        e['PYTHONMALLOC'] = 'malloc'
    if extra:
        e.update(extra)
    return e


def ensure_numpy():
    """Install numpy for /venv python into the cache (offline wheelhouse); atomic, safe under concurrent checks."""
    deps = os.path.join(CACHE, 'deps')
    if os.path.isdir(os.path.join(deps, 'numpy')):
        return deps
    os.makedirs(CACHE, exist_ok=True)
    lock = open(os.path.join(CACHE, '.lock-deps'), 'w')
    fcntl.flock(lock, fcntl.LOCK_EX)
    try:
        if os.path.isdir(os.path.join(deps, 'numpy')):
            return deps
        tmp = deps + '.tmp%d' % os.getpid()
        shutil.rmtree(tmp, ignore_errors=True)
        subprocess.check_call([PY, '-m', 'pip', 'install', '-q', '--no-index', '--find-links',
                               '/opt/veriftools/wheels', '--target', tmp, 'numpy'],
                              stdout=subprocess.DEVNULL, stderr=subprocess.DEVNULL)
        shutil.rmtree(deps, ignore_errors=True)
        os.rename(tmp, deps)
        return deps
    finally:
        fcntl.flock(lock, fcntl.LOCK_UN)
        lock.close()


if __name__ == '__main__':
    fl = sys.argv[1] if len(sys.argv) > 1 else 'plain'
    t = time.time()
    print(stage(fl), '%.1fs' % (time.time() - t))
