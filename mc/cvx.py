"""Glue between the staged cvxopt and the plain-Python reference models."""
import os, re, sys, types, math, struct
import cvxopt
from cvxopt import matrix, spmatrix, sparse

assert os.environ.get('VERIF_STAGE') and cvxopt.__file__.startswith(os.environ['VERIF_STAGE']), \
    'checks must import the staged working-tree build, got %s' % cvxopt.__file__


def tolist(M):
    """dense matrix -> flat list (column major)."""
    return list(M)


def cols(M):
    """matrix/spmatrix -> list of columns (lists)."""
    if isinstance(M, spmatrix):
        M = matrix(M)
    r, c = M.size
    L = list(M)
    return [L[j * r:(j + 1) * r] for j in range(c)]


def rows(M):
    if isinstance(M, spmatrix):
        M = matrix(M)
    r, c = M.size
    L = list(M)
    return [[L[j * r + i] for j in range(c)] for i in range(r)]


def dmat(L, size=None, tc='d'):
    if size is None:
        size = (len(L), 1)
    return matrix(L, size, tc) if len(L) else matrix(0.0, size, tc)


def from_cols(C, nrows, tc='d'):
    flat = [v for c in C for v in c]
    return matrix(flat, (nrows, len(C)), tc) if flat else matrix(0.0, (nrows, len(C)), tc)


def W_to_ref(W):
    R = {}
    for k in ('dnl', 'dnli', 'd', 'di'):
        if k in W:
            R[k] = list(W[k])
    R['beta'] = [float(b) for b in W['beta']]
    R['v'] = [list(v) for v in W['v']]
    R['r'] = [rows(r) for r in W['r']]
    R['rti'] = [rows(r) for r in W['rti']]
    return R


def W_from_ref(R):
    W = {}
    for k in ('dnl', 'dnli', 'd', 'di'):
        if k in R:
            W[k] = dmat(R[k])
    W['beta'] = [float(b) for b in R['beta']]
    W['v'] = [dmat(v) for v in R['v']]
    W['r'] = [from_cols([list(c) for c in zip(*r)] if r else [], len(r)) for r in R['r']]
    W['rti'] = [from_cols([list(c) for c in zip(*r)] if r else [], len(r)) for r in R['rti']]
    return W


def raw(M):
    """byte image of a dense matrix (through the buffer protocol)."""
    return bytes(memoryview(M))


def image(obj):
    """Structural, bit-exact image of matrices / containers, for 'unchanged' comparisons."""
    if isinstance(obj, matrix):
        return ('M', obj.typecode, obj.size, raw(obj))
    if isinstance(obj, spmatrix):
        c = obj.CCS
        return ('S', obj.typecode, obj.size, raw(c[0]), raw(c[1]), raw(c[2]))
    if isinstance(obj, dict):
        return ('D', tuple(sorted((repr(k), image(v)) for k, v in obj.items())))
    if isinstance(obj, (list, tuple)):
        return ('L', type(obj).__name__, tuple(image(v) for v in obj))
    if isinstance(obj, float):
        return ('F', struct.pack('d', obj))
    if obj is None or isinstance(obj, (int, str, bool, complex)):
        return ('P', repr(obj))
    return ('O', id(obj))


_pymisc = None


def misc_py():
    """The working tree's misc.py executed with use_C = False (load-time switch, no edit)."""
    global _pymisc
    if _pymisc is None:
        path = os.path.join(os.path.dirname(cvxopt.__file__), 'misc.py')
        src = open(path).read()
        src2, n = re.subn(r'(?m)^use_C\s*=.*$', 'use_C = False', src, count=1)
        mod = types.ModuleType('cvxopt_misc_py')
        mod.__file__ = path
        exec(compile(src2, path + '<use_C=False>', 'exec'), mod.__dict__)
        mod._switch_found = bool(n)
        _pymisc = mod
    return _pymisc


QUIET = {'show_progress': False}
