"""Plain-Python reference model for C16 (sparse matrices are a faithful image of the dense semantics).

Nothing in here imports cvxopt.  A matrix is modelled by `D`: dimensions, typecode and the column-major list of
its entries (float for 'd', complex for 'z', int for 'i').  A sparse matrix is modelled by a `D` (its dense
image) plus, where the documentation defines it, its *pattern*: the set of column-major positions that are
"nonzero entries" of the triplet description (they may hold the value 0).

Index expressions are described by JSON-able specs
    ['i', k]                 integer
    ['s', start, stop, step] slice (None allowed)
    ['l', [k, ...]]          list of integers
    ['m', [k, ...]]          integer ('i') matrix
and interpreted with Python's own sequence semantics (range / slice.indices), which is what matrices.rst
prescribes ("negative indices have the standard Python interpretation").
"""


class RefError(Exception):
    """The documented semantics reject the operation (index out of range, wrong size, type would change)."""
    def __init__(self, kind):
        Exception.__init__(self, kind)
        self.kind = kind


# --------------------------------------------------------------------------------------------- CCS invariant
def ccs_error(colptr, rowind, nvalues, nrows, ncols):
    """None if (colptr, rowind, values) is a valid compressed-column representation, else a short reason."""
    if len(colptr) != ncols + 1:
        return 'colptr-length'
    if colptr[0] != 0:
        return 'colptr0-nonzero'
    for j in range(ncols):
        if colptr[j + 1] < colptr[j]:
            return 'colptr-decreasing'
    if colptr[ncols] != len(rowind) or colptr[ncols] != nvalues:
        return 'array-lengths'
    for j in range(ncols):
        prev = -1
        for k in range(colptr[j], colptr[j + 1]):
            r = rowind[k]
            if r < 0 or r >= nrows:
                return 'rowind-out-of-range'
            if r <= prev:
                return 'rowind-not-strictly-increasing'
            prev = r
    return None


def ccs_image(colptr, rowind, values, nrows, ncols, tc):
    """(column-major dense image, pattern) of a VALID ccs triple."""
    zero = 0j if tc == 'z' else 0.0
    a = [zero] * (nrows * ncols)
    pat = set()
    for j in range(ncols):
        for k in range(colptr[j], colptr[j + 1]):
            p = j * nrows + rowind[k]
            a[p] = values[k]
            pat.add(p)
    return a, pat


# --------------------------------------------------------------------------------------------- dense model
class D(object):
    __slots__ = ('nr', 'nc', 'tc', 'a')

    def __init__(self, nr, nc, tc, a=None):
        self.nr, self.nc, self.tc = nr, nc, tc
        if a is None:
            a = [zero(tc)] * (nr * nc)
        assert len(a) == nr * nc
        self.a = a

    def copy(self):
        return D(self.nr, self.nc, self.tc, list(self.a))

    def get(self, i, j):
        return self.a[j * self.nr + i]

    def size(self):
        return (self.nr, self.nc)

    def __repr__(self):
        return 'D(%d,%d,%r,%r)' % (self.nr, self.nc, self.tc, self.a)


def zero(tc):
    return 0j if tc == 'z' else (0 if tc == 'i' else 0.0)


def conv(v, tc):
    if tc == 'z':
        return complex(v)
    if isinstance(v, complex):
        raise RefError('type')
    return float(v) if tc == 'd' else int(v)


def tc_of_number(v):
    return 'z' if isinstance(v, complex) else ('d' if isinstance(v, float) else 'i')


def tc_max(*tcs):
    return max(tcs, key='idz'.index)


def as_tc(M, tc):
    return D(M.nr, M.nc, tc, [conv(v, tc) for v in M.a])


# --------------------------------------------------------------------------------------------- indexing
def expand(spec, dim):
    """(is_scalar, [normalised non-negative indices]) ; raises RefError('index') / RefError('value')."""
    k = spec[0]
    if k == 'i':
        i = spec[1]
        if i < -dim or i >= dim:
            raise RefError('index')
        return True, [i + dim if i < 0 else i]
    if k == 's':
        if spec[3] == 0:
            raise RefError('value')
        return False, list(range(*slice(spec[1], spec[2], spec[3]).indices(dim)))
    out = []
    for i in spec[1]:
        if i < -dim or i >= dim:
            raise RefError('index')
        out.append(i + dim if i < 0 else i)
    return False, out


def get1(M, spec):
    sc, idx = expand(spec, M.nr * M.nc)
    if sc:
        return M.a[idx[0]]
    return D(len(idx), 1, M.tc, [M.a[p] for p in idx])


def get2(M, si, sj):
    sci, I = expand(si, M.nr)
    scj, J = expand(sj, M.nc)
    if sci and scj:
        return M.a[J[0] * M.nr + I[0]]
    return D(len(I), len(J), M.tc, [M.a[j * M.nr + i] for j in J for i in I])


def _rhs(M, val, nr, nc):
    """list of nr*nc values (column-major) the right-hand side provides for an nr x nc left-hand side.
    val = ('n', number) | ('d', D) dense matrix | ('s', D) sparse matrix | ('l', [numbers]) sequence"""
    kind, v = val
    n = nr * nc
    if kind == 'n':
        return [conv(v, M.tc)] * n
    if kind == 'l':
        if len(v) != n:
            raise RefError('size')
        return [conv(x, M.tc) for x in v]
    if tc_max(v.tc, M.tc) != M.tc:
        raise RefError('type')
    if kind == 'd' and v.nr * v.nc == 1:
        return [conv(v.a[0], M.tc)] * n
    if (v.nr, v.nc) != (nr, nc):
        raise RefError('size')
    return [conv(x, M.tc) for x in v.a]


def set1(M, spec, val):
    """in place; sequential assignment in index order (a later duplicate wins, as for Python lists)."""
    sc, idx = expand(spec, M.nr * M.nc)
    if sc and val[0] not in ('n',) and not (val[0] == 'd' and val[1].nr * val[1].nc == 1):
        raise RefError('size')
    vals = _rhs(M, val, len(idx), 1)
    for p, x in zip(idx, vals):
        M.a[p] = x


def set2(M, si, sj, val):
    sci, I = expand(si, M.nr)
    scj, J = expand(sj, M.nc)
    if sci and scj and val[0] not in ('n',) and not (val[0] == 'd' and val[1].nr * val[1].nc == 1):
        raise RefError('size')
    vals = _rhs(M, val, len(I), len(J))
    k = 0
    for j in J:
        for i in I:
            M.a[j * M.nr + i] = vals[k]
            k += 1


def flags1(spec, dim):
    """input features of a one-argument index (used to name the failing pattern)."""
    f = []
    if spec[0] in 'lm':
        L = spec[1]
        if any(i < 0 for i in L):
            f.append('neg')
        n = [i % dim if dim else i for i in L]
        if len(set(n)) < len(n):
            f.append('dup')
        if not L:
            f.append('empty')
    elif spec[0] == 's':
        if spec[3] != 0 and len(range(*slice(spec[1], spec[2], spec[3]).indices(dim))) == 0:
            f.append('empty')
        if spec[3] is not None and spec[3] < 0:
            f.append('negstep')
    return f


def flags2(si, sj, nr, nc):
    return ['r' + x for x in flags1(si, nr)] + ['c' + x for x in flags1(sj, nc)]


# --------------------------------------------------------------------------------------------- arithmetic
def add(A, B, sign=1):
    if (A.nr, A.nc) != (B.nr, B.nc):
        raise RefError('size')
    tc = tc_max(A.tc, B.tc, 'd')
    return D(A.nr, A.nc, tc, [conv(x, tc) + sign * conv(y, tc) for x, y in zip(A.a, B.a)])


def scal(c, A, tc=None):
    tc = tc or tc_max(A.tc, tc_of_number(c), 'd')
    return D(A.nr, A.nc, tc, [conv(c, tc) * conv(x, tc) for x in A.a])


def div(A, c):
    tc = tc_max(A.tc, tc_of_number(c), 'd')
    return D(A.nr, A.nc, tc, [conv(x, tc) / conv(c, tc) for x in A.a])


def matmul(A, B):
    if A.nc != B.nr:
        raise RefError('size')
    tc = tc_max(A.tc, B.tc, 'd')
    out = []
    for j in range(B.nc):
        for i in range(A.nr):
            s = zero(tc)
            for l in range(A.nc):
                s += A.a[l * A.nr + i] * B.a[j * B.nr + l]
            out.append(conv(s, tc))
    return D(A.nr, B.nc, tc, out)


def trans(A, conj=False):
    out = []
    for i in range(A.nr):
        for j in range(A.nc):
            v = A.a[j * A.nr + i]
            out.append(v.conjugate() if (conj and A.tc == 'z') else v)
    return D(A.nc, A.nr, A.tc, out)


def op(A, t):
    return A if t == 'N' else trans(A, t == 'C')


def neg(A):
    return D(A.nr, A.nc, A.tc, [-x for x in A.a])


def absm(A):
    return D(A.nr, A.nc, 'd', [float(abs(x)) for x in A.a])


def real(A):
    if A.tc != 'z':
        return A.copy()
    return D(A.nr, A.nc, 'd', [x.real for x in A.a])


def imag(A):
    if A.tc != 'z':
        return D(A.nr, A.nc, A.tc)
    return D(A.nr, A.nc, 'd', [x.imag for x in A.a])


def reshape(A, nr, nc):
    if nr < 0 or nc < 0 or nr * nc != A.nr * A.nc:
        raise RefError('size')
    return D(nr, nc, A.tc, list(A.a))


def blocks(cols, tc=None):
    """sparse([[..],[..]]) / matrix([[..],[..]]): list of block columns; every block is a D or a number."""
    def dims(b):
        return (b.nr, b.nc) if isinstance(b, D) else (1, 1)
    tcs = ['d'] + [(b.tc if isinstance(b, D) else tc_of_number(b)) for c in cols for b in c]
    rtc = tc_max(*tcs)
    if tc is not None:
        if tc_max(tc, rtc) != tc:
            raise RefError('type')
        rtc = tc
    colsout = []
    m = None
    for c in cols:
        nk = dims(c[0])[1]
        for b in c:
            if dims(b)[1] != nk:
                raise RefError('size')
        mk = sum(dims(b)[0] for b in c)
        if m is None:
            m = mk
        elif m != mk:
            raise RefError('size')
        for jk in range(nk):
            col = []
            for b in c:
                if isinstance(b, D):
                    col += [conv(b.a[jk * b.nr + i], rtc) for i in range(b.nr)]
                else:
                    col.append(conv(b, rtc))
            colsout.append(col)
    return D(m or 0, len(colsout), rtc, [v for c in colsout for v in c])


def blockdiag(items):
    """spdiag([..]): square D blocks and numbers."""
    tcs = ['d'] + [(b.tc if isinstance(b, D) else tc_of_number(b)) for b in items]
    rtc = tc_max(*tcs)
    n = sum((b.nr if isinstance(b, D) else 1) for b in items)
    R = D(n, n, rtc)
    o = 0
    for b in items:
        if isinstance(b, D):
            if b.nr != b.nc:
                raise RefError('size')
            for j in range(b.nc):
                for i in range(b.nr):
                    R.a[(o + j) * n + o + i] = conv(b.a[j * b.nr + i], rtc)
            o += b.nr
        else:
            R.a[o * n + o] = conv(b, rtc)
            o += 1
    return R


def diag(v):
    n = len(v.a)
    tc = tc_max(v.tc, 'd')
    R = D(n, n, tc)
    for k in range(n):
        R.a[k * n + k] = conv(v.a[k], tc)
    return R


# --------------------------------------------------------------------------------------------- BLAS-like kernels
def masked(new, old, pat):
    """partial=True: only positions in the existing pattern of the sparse output are updated."""
    return D(old.nr, old.nc, old.tc, [new.a[p] if p in pat else old.a[p] for p in range(len(old.a))])


def axpy(x, y, alpha):
    """y := alpha*x + y"""
    if (x.nr, x.nc) != (y.nr, y.nc):
        raise RefError('size')
    return D(y.nr, y.nc, y.tc, [conv(alpha, y.tc) * a + b for a, b in zip(x.a, y.a)])


def gemm(A, B, C, tA, tB, alpha, beta):
    P = matmul(op(A, tA), op(B, tB))
    if (P.nr, P.nc) != (C.nr, C.nc):
        raise RefError('size')
    tc = C.tc
    return D(C.nr, C.nc, tc, [conv(alpha, tc) * p + (conv(beta, tc) * c if beta != 0 else zero(tc))
                              for p, c in zip(P.a, C.a)])


def gemv(A, x, y, t, alpha, beta):
    """x, y: lists; returns the new y list."""
    Ao = op(A, t)
    if Ao.nc != len(x) or Ao.nr != len(y):
        raise RefError('size')
    out = []
    for i in range(Ao.nr):
        s = zero(A.tc)
        for l in range(Ao.nc):
            s += Ao.a[l * Ao.nr + i] * x[l]
        out.append(alpha * s + (beta * y[i] if beta != 0 else zero(A.tc)))
    return out


def symmetrise(A, uplo):
    """the symmetric matrix whose `uplo` triangle is that of A."""
    n = A.nr
    S = D(n, n, A.tc)
    for j in range(n):
        for i in range(n):
            src = (i, j) if ((uplo == 'L' and i >= j) or (uplo == 'U' and i <= j)) else (j, i)
            S.a[j * n + i] = A.a[src[1] * n + src[0]]
    return S


def symv(A, x, y, uplo, alpha, beta):
    return gemv(symmetrise(A, uplo), x, y, 'N', alpha, beta)


def syrk(A, C, uplo, t, alpha, beta):
    """C := alpha*A*A^T + beta*C (t='N') or alpha*A^T*A + beta*C; only the `uplo` triangle is defined."""
    Ao = op(A, 'N' if t == 'N' else 'T')
    return gemm(Ao, Ao, C, 'N', 'T', alpha, beta)


def in_triangle(p, n, uplo):
    i, j = p % n, p // n
    return i >= j if uplo == 'L' else i <= j
