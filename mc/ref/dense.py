"""Reference model of cvxopt dense matrices, transcribed from doc/source/matrices.rst.

Plain Python only (lists, int, float, complex, math/cmath).  Nothing here imports cvxopt.

Three kinds of outcome:

  * a value            - a `Dense`, or a Python number, or None (for statements)
  * `UNSPEC`           - matrices.rst gives no answer; the check must not compare
  * `raise Refused(k)` - the model has no answer because the manual excludes the operation; the
                         implementation must raise (k = 'index' -> IndexError is demanded, every other
                         kind -> just "some exception"), and must leave its operands unchanged

A `Dense` is (typecode in 'idz', size (m, n), flat column-major list of int / float / complex).
In-place operations and indexed assignment mutate the `Dense` object, so Python aliases of a model
object behave like aliases of the implementation object.
"""
import math, cmath

RANK = {'i': 0, 'd': 1, 'z': 2}
TCS = 'idz'
MAXLEN = 2 ** 31 - 1      # 'number of elements exceeds INT_MAX' (Matrix_New); no request near it can be served


class _Unspec(object):
    def __repr__(self):
        return 'UNSPEC'


UNSPEC = _Unspec()


class Refused(Exception):
    """The manual excludes this operation.  kinds: set of reasons."""

    def __init__(self, kind, msg=''):
        Exception.__init__(self, '%s: %s' % (kind, msg))
        self.kinds = set([kind]) if isinstance(kind, str) else set(kind)

    @property
    def index_only(self):
        return self.kinds == set(['index'])


# --------------------------------------------------------------------------- numbers
def is_num(x):
    return isinstance(x, (int, float, complex)) and not isinstance(x, bool)


def num_tc(x):
    if isinstance(x, bool):
        raise Refused('type', 'bool is not a documented number type')
    if isinstance(x, int):
        return 'i'
    if isinstance(x, float):
        return 'd'
    if isinstance(x, complex):
        return 'z'
    raise Refused('type', 'not a number: %r' % (x,))


def tcmax(*tcs):
    return max(tcs, key=lambda t: RANK[t])


def conv(x, tc):
    """type conversion 'as for scalar x': integer -> double -> complex only."""
    src = num_tc(x)
    if RANK[src] > RANK[tc]:
        raise Refused('type', 'cannot convert %s to %s' % (src, tc))
    if tc == 'i':
        return int(x)
    if tc == 'd':
        return float(x)
    return complex(x)


def zero(tc):
    return conv(0, tc)


# --------------------------------------------------------------------------- other argument kinds
class Sparse(object):
    """Minimal sparse matrix model: typecode 'd' or 'z', size, {(i, j): value}."""

    def __init__(self, tc, size, entries):
        self.tc, self.size, self.entries = tc, tuple(size), dict(entries)

    def todense(self):
        m, n = self.size
        flat = [zero(self.tc)] * (m * n)
        for (i, j), v in self.entries.items():
            flat[i + j * m] = conv(v, self.tc)
        return Dense(self.tc, (m, n), flat)


class Buffer(object):
    """Model of an object exporting the buffer protocol (array.array, memoryview, numpy array).

    tc    : 'i', 'd', 'z' for the element formats the manual's examples use (C long / int, double, complex
            double); None for any other element format (unspecified)
    shape : (n,) or (m, n) (or any other length: not one- or two-dimensional)
    rows  : logical contents; 1-D: list of numbers; 2-D: list of rows (lists)
    """

    def __init__(self, tc, shape, rows):
        self.tc, self.shape, self.rows = tc, tuple(shape), rows


# --------------------------------------------------------------------------- the matrix
class Dense(object):
    def __init__(self, tc, size, flat):
        assert tc in RANK and len(flat) == size[0] * size[1]
        self.tc = tc
        self.size = (int(size[0]), int(size[1]))
        self.flat = list(flat)

    def __repr__(self):
        return 'Dense(%r, %r, %r)' % (self.tc, self.size, self.flat)

    def copy(self):
        return Dense(self.tc, self.size, self.flat)

    def astype(self, tc):
        return Dense(tc, self.size, [conv(v, tc) for v in self.flat])

    def __len__(self):
        return self.size[0] * self.size[1]

    @property
    def is11(self):
        return self.size == (1, 1)

    def image(self):
        return (self.tc, self.size, list(self.flat))

    # ---- attributes and methods
    def trans(self):
        m, n = self.size
        return Dense(self.tc, (n, m), [self.flat[i + j * m] for i in range(m) for j in range(n)])

    def ctrans(self):
        t = self.trans()
        if self.tc == 'z':
            t.flat = [v.conjugate() for v in t.flat]
        return t

    def real(self):
        if self.tc == 'z':
            return Dense('d', self.size, [v.real for v in self.flat])
        return self.copy()

    def imag(self):
        if self.tc == 'z':
            return Dense('d', self.size, [v.imag for v in self.flat])
        return Dense(self.tc, self.size, [zero(self.tc)] * len(self))

    def set_size(self, value):
        """A.size = value : allowed as long as the number of elements remains unchanged."""
        if not (isinstance(value, tuple) and len(value) == 2 and
                all(isinstance(v, int) and not isinstance(v, bool) for v in value)):
            raise Refused('type', 'size must be a tuple of two integers')
        m, n = value
        if m < 0 or n < 0 or m * n != len(self):
            raise Refused('size', 'number of elements cannot change')
        if max(m, n) > MAXLEN:
            return UNSPEC                       # 0 x huge: allowed by the text, not representable
        self.size = (m, n)
        return None

    # ---- built-in functions
    def length(self):
        return len(self)

    def truth(self):
        return any(v != 0 for v in self.flat)

    def tolist(self):
        return list(self.flat)

    def contains(self, x):
        return any(v == x for v in self.flat)

    def bsum(self):
        s = 0
        for v in self.flat:
            s = s + v
        return s

    def bmax(self):
        if self.tc == 'z' or len(self) == 0:
            return UNSPEC
        return max(self.flat)

    def bmin(self):
        if self.tc == 'z' or len(self) == 0:
            return UNSPEC
        return min(self.flat)

    # ---- indexing
    def getitem(self, idx):
        m, n = self.size
        if isinstance(idx, tuple):
            if len(idx) != 2:
                raise Refused('type', 'one or two index arguments')
            errs = set()
            sel = []
            for a, dim in zip(idx, (m, n)):
                try:
                    sel.append(norm_index(a, dim))
                except Refused as e:
                    errs |= e.kinds
            if errs:
                raise Refused(errs)
            (ki, I), (kj, J) = sel
            if ki == 'scalar' and kj == 'scalar':
                return self.flat[I[0] + J[0] * m]
            return Dense(self.tc, (len(I), len(J)), [self.flat[i + j * m] for j in J for i in I])
        kind, I = norm_index(idx, m * n)
        if kind == 'scalar':
            return self.flat[I[0]]
        return Dense(self.tc, (len(I), 1), [self.flat[i] for i in I])

    def setitem(self, idx, val):
        """A[idx] = val.  Returns None, UNSPEC (manual silent: nothing is compared, the model state is then
        no longer meaningful and the caller must discard it) or raises Refused (self unchanged)."""
        m, n = self.size
        errs = set()
        pos = None
        shape = None
        if isinstance(idx, tuple):
            if len(idx) != 2:
                raise Refused('type', 'one or two index arguments')
            sel = []
            for a, dim in zip(idx, (m, n)):
                try:
                    sel.append(norm_index(a, dim))
                except Refused as e:
                    errs |= e.kinds
            if not errs:
                (ki, I), (kj, J) = sel
                pos = [i + j * m for j in J for i in I]
                shape = (len(I), len(J))
        else:
            try:
                kind, I = norm_index(idx, m * n)
                pos = list(I)
                shape = (len(I), 1)
            except Refused as e:
                errs |= e.kinds
        # ---- right-hand side
        vals = None
        unspec = False
        try:
            if isinstance(val, bool):
                raise Refused('type', 'bool')
            if is_num(val):
                v = conv(val, self.tc)
                vals = ('bcast', v)
            elif isinstance(val, Dense):
                if RANK[val.tc] > RANK[self.tc]:
                    raise Refused('type', 'assignment would change the type')
                if val.is11:
                    vals = ('bcast', conv(val.flat[0], self.tc))
                else:
                    vals = ('mat', val.size, [conv(v, self.tc) for v in val.flat])
            elif isinstance(val, Sparse):
                if RANK[val.tc] > RANK[self.tc]:
                    raise Refused('type', 'assignment would change the type')
                d = val.todense()
                vals = ('mat', d.size, [conv(v, self.tc) for v in d.flat])
            elif isinstance(val, Buffer):
                if val.tc is None or len(val.shape) != 1:
                    unspec = True
                else:
                    if RANK[val.tc] > RANK[self.tc]:
                        raise Refused('type', 'assignment would change the type')
                    vals = ('seq', [conv(v, self.tc) for v in val.rows])
            elif isinstance(val, (list, tuple, range)):
                seq = list(val)
                for v in seq:
                    if not is_num(v):
                        raise Refused('type', 'sequence of numbers expected')
                vals = ('seq', [conv(v, self.tc) for v in seq])
            else:
                raise Refused('type', 'right-hand side must be a scalar, a sequence of numbers or a matrix')
        except Refused as e:
            errs |= e.kinds
        if errs:
            raise Refused(errs)
        if unspec:
            return UNSPEC
        cnt = len(pos)
        if vals[0] == 'bcast':
            new = [vals[1]] * cnt
        elif vals[0] == 'mat':
            if vals[1] != shape:
                if cnt == 0 and len(vals[2]) == 0:
                    return UNSPEC          # both sides empty, shapes differ: nothing to assign
                raise Refused('size', 'matrix must have the same size as the left-hand side')
            new = vals[2]
        else:
            if len(vals[1]) != cnt:
                if len(vals[1]) == 1:
                    return UNSPEC          # one-element sequence: scalar or 1x1 matrix? not stated
                raise Refused('size', 'sequence has the wrong length')
            new = vals[1]
        if len(set(pos)) != len(pos) and vals[0] != 'bcast':
            return UNSPEC                  # repeated index with different values: order not stated
        for p, v in zip(pos, new):
            self.flat[p] = v
        return None


def norm_index(a, dim):
    """-> ('scalar', [k]) or ('list', [k, ...]) with 0 <= k < dim."""
    if isinstance(a, bool):
        raise Refused('type', 'bool index')
    if isinstance(a, int):
        if a < -dim or a >= dim:
            raise Refused('index', 'index out of range')
        return 'scalar', [a + dim if a < 0 else a]
    if isinstance(a, slice):
        for c in (a.start, a.stop, a.step):
            if not (c is None or (isinstance(c, int) and not isinstance(c, bool))):
                raise Refused('type', 'slice components must be integers')
        if a.step == 0:
            raise Refused('value', 'slice step cannot be zero')
        return 'list', list(range(*a.indices(dim)))
    if isinstance(a, Dense):
        if a.tc != 'i':
            raise Refused('type', 'index matrix must be an integer matrix')
        seq = a.flat
    elif isinstance(a, list):
        seq = a
        for k in seq:
            if isinstance(k, bool) or not isinstance(k, int):
                raise Refused('type', 'list of integers expected')
    else:
        raise Refused('type', 'invalid index')
    out = []
    for k in seq:
        if k < -dim or k >= dim:
            raise Refused('index', 'index out of range')
        out.append(k + dim if k < 0 else k)
    return 'list', out


# --------------------------------------------------------------------------- construction
def construct(x, size=None, tc=None):
    """cvxopt.matrix(x[, size[, tc]])"""
    errs = set()
    if tc is not None and tc not in RANK:
        errs.add('value')
    if size is not None:
        if not (isinstance(size, tuple) and len(size) == 2 and
                all(isinstance(v, int) and not isinstance(v, bool) for v in size)):
            errs.add('type')
        elif size[0] < 0 or size[1] < 0:
            errs.add('value')
    if errs:
        raise Refused(errs)
    if size is not None and size[0] * size[1] > MAXLEN:
        raise Refused('size', 'more elements than a matrix can hold')
    if isinstance(x, bool):
        return UNSPEC
    # ---- a number
    if is_num(x):
        t = tc or num_tc(x)
        v = conv(x, t)
        sz = size if size is not None else (1, 1)
        return Dense(t, sz, [v] * (sz[0] * sz[1]))
    # ---- a dense or sparse matrix
    if isinstance(x, (Dense, Sparse)):
        d = x.todense() if isinstance(x, Sparse) else x
        if tc is not None and RANK[d.tc] > RANK[tc] and len(d) == 0:
            return UNSPEC                       # nothing to convert: allowed or not is not stated
        return _finish(d.astype(tc or d.tc), size)
    # ---- buffer (array.array, numpy array)
    if isinstance(x, Buffer):
        if x.tc is None:
            return UNSPEC
        if len(x.shape) not in (1, 2):
            raise Refused('value', 'one- or two-dimensional array expected')
        if len(x.shape) == 1:
            d = Dense(x.tc, (x.shape[0], 1), [conv(v, x.tc) for v in x.rows])
        else:
            m, n = x.shape
            d = Dense(x.tc, (m, n), [conv(x.rows[i][j], x.tc) for j in range(n) for i in range(m)])
        if tc is not None and RANK[d.tc] > RANK[tc] and len(d) == 0:
            return UNSPEC
        return _finish(d.astype(tc or d.tc), size)
    # ---- sequences
    if isinstance(x, (list, tuple, range)):
        seq = list(x)
        if all(is_num(v) for v in seq):
            t = tc or (tcmax(*[num_tc(v) for v in seq]) if seq else 'i')
            d = Dense(t, (len(seq), 1), [conv(v, t) for v in seq])
            return _finish(d, size)
        if any(isinstance(v, bool) for v in _flatten(seq)):
            return UNSPEC
        if isinstance(x, list):
            return _finish(_concat(seq, tc), size)
        raise Refused('type', 'sequence of numbers expected')
    raise Refused('type', 'invalid matrix initialization')


def _flatten(seq):
    for v in seq:
        if isinstance(v, (list, tuple)):
            for w in v:
                yield w
        else:
            yield v


def _finish(d, size):
    if size is not None:
        if size[0] * size[1] != len(d):
            raise Refused('size', 'length of x must equal size[0]*size[1]')
        d = Dense(d.tc, size, d.flat)
    return d


def _concat(L, tc):
    """list of lists of matrices and numbers = list of block columns (a single list = one block column)."""
    if L and all(isinstance(c, list) for c in L):
        cols = L
    elif not any(isinstance(c, list) for c in L):
        cols = [L]
    else:
        raise Refused('type', 'mixture of lists and blocks')
    t = 'i'
    bcols = []
    for col in cols:
        blocks = []
        for b in col:
            if isinstance(b, Sparse):
                b = b.todense()
            elif is_num(b):
                b = Dense(num_tc(b), (1, 1), [b])
            elif not isinstance(b, Dense):
                raise Refused('type', 'blocks must be matrices or numbers')
            t = tcmax(t, b.tc)
            blocks.append(b)
        bcols.append(blocks)
    if tc is not None:
        if RANK[tc] < RANK[t]:
            raise Refused('type', 'illegal type conversion')
        t = tc
    # each block column: blocks stacked vertically, equal numbers of columns
    stacked = []
    for blocks in bcols:
        if not blocks:
            stacked.append((0, 0, []))
            continue
        nc = blocks[0].size[1]
        if any(b.size[1] != nc for b in blocks):
            raise Refused('size', 'incompatible dimensions of subblocks')
        nr = sum(b.size[0] for b in blocks)
        colvals = []
        for j in range(nc):
            for b in blocks:
                colvals += [conv(v, t) for v in b.flat[j * b.size[0]:(j + 1) * b.size[0]]]
        stacked.append((nr, nc, colvals))
    nr = stacked[0][0]
    if any(s[0] != nr for s in stacked):
        raise Refused('size', 'incompatible dimensions of subblocks')
    flat = []
    for s in stacked:
        flat += s[2]
    return Dense(t, (nr, sum(s[1] for s in stacked)), flat)


# --------------------------------------------------------------------------- arithmetic
def _operand(x):
    """-> ('num', value, tc) | ('mat', Dense, tc)"""
    if isinstance(x, Dense):
        return 'mat', x, x.tc
    if isinstance(x, bool):
        raise Refused('type', 'bool')
    if is_num(x):
        return 'num', x, num_tc(x)
    raise Refused('type', 'operands must be matrices or numbers')


def _scalar_of(kind, v):
    """the scalar value if the operand is a scalar (number or 1x1 dense matrix) else None"""
    if kind == 'num':
        return v
    if v.is11:
        return v.flat[0]
    return None


def binop(op, a, b):
    """Regular (not in-place) a <op> b for op in + - * / % ** ; at least one operand is a Dense."""
    ka, va, ta = _operand(a)
    kb, vb, tb = _operand(b)
    assert 'mat' in (ka, kb)
    if op in ('+', '-'):
        t = tcmax(ta, tb)
        f = (lambda x, y: x + y) if op == '+' else (lambda x, y: x - y)
        if ka == 'mat' and kb == 'mat' and va.size == vb.size:
            size = va.size
            xa, xb = va.flat, vb.flat
        else:
            sa, sb = _scalar_of(ka, va), _scalar_of(kb, vb)
            if ka == 'mat' and sb is not None and not (kb == 'mat' and va.is11 and not vb.is11):
                size = va.size
                xa, xb = va.flat, [sb] * len(va)
            elif kb == 'mat' and sa is not None:
                size = vb.size
                xa, xb = [sa] * len(vb), vb.flat
            else:
                raise Refused('size', 'incompatible dimensions')
        return Dense(t, size, [f(conv(x, t), conv(y, t)) for x, y in zip(xa, xb)])
    if op == '*':
        t = tcmax(ta, tb)
        if ka == 'mat' and kb == 'mat':
            if va.size[1] == vb.size[0]:
                m, k = va.size
                n = vb.size[1]
                A = [conv(v, t) for v in va.flat]
                B = [conv(v, t) for v in vb.flat]
                flat = []
                for j in range(n):
                    for i in range(m):
                        s = zero(t)
                        for l in range(k):
                            s = s + A[i + l * m] * B[l + j * k]
                        flat.append(s)
                return Dense(t, (m, n), flat)
            if va.is11:
                return Dense(t, vb.size, [conv(va.flat[0], t) * conv(v, t) for v in vb.flat])
            if vb.is11:
                return Dense(t, va.size, [conv(v, t) * conv(vb.flat[0], t) for v in va.flat])
            raise Refused('size', 'incompatible dimensions')
        if ka == 'mat':
            return Dense(t, va.size, [conv(v, t) * conv(vb, t) for v in va.flat])
        return Dense(t, vb.size, [conv(va, t) * conv(v, t) for v in vb.flat])
    if op == '/':
        if ka != 'mat':
            return UNSPEC                       # only A / c is tabulated
        c = _scalar_of(kb, vb)
        if c is None:
            raise Refused('type', 'A / c needs a scalar c')
        t = tcmax('d', ta, tb)
        if c == 0:
            raise Refused('zerodiv', 'division by zero')
        c = conv(c, t)
        return Dense(t, va.size, [conv(v, t) / c for v in va.flat])
    if op == '%':
        if ka != 'mat':
            return UNSPEC                       # only D % c is tabulated
        c = _scalar_of(kb, vb)
        if c is None:
            raise Refused('type', 'D % c needs a scalar c')
        t = tcmax(ta, tb)
        if t == 'z':
            return UNSPEC                       # remainder of complex numbers: not described
        if c == 0:
            raise Refused('zerodiv', 'division by zero')
        c = conv(c, t)
        out = []
        for v in va.flat:
            v = conv(v, t)
            r = v % c
            if t == 'i' and r != 0 and (v < 0) != (c < 0):
                # integer matrices: the manual says "remainder after division" and nothing about the sign for operands of
                # opposite sign (the C extension truncates, Python floors): not described
                return UNSPEC
            # 'd' results: the remainder is the one of Python's float %, r = v - floor(v / c) * c, with the sign of c - the
            # manual applies % to the (float) elements of matrices interchangeably with Python numbers
            out.append(r)
        return Dense(t, va.size, out)
    if op == '**':
        if ka != 'mat' or kb != 'num':
            return UNSPEC                       # D**e, e a Python number
        t = tcmax('d', ta, tb)
        e = conv(vb, t)
        out = []
        for v in va.flat:
            v = conv(v, t)
            if t == 'd':
                if (v == 0 and e < 0) or (v < 0 and e != math.floor(e)):
                    return UNSPEC               # outside the real domain: not described
                out.append(math.pow(v, e))
            else:
                if v == 0:
                    if e.imag == 0 and e.real > 0:
                        out.append(0j)
                    else:
                        return UNSPEC
                else:
                    out.append(cmath.exp(e * cmath.log(v)))
        return Dense(t, va.size, out)
    raise AssertionError(op)


def unop(op, a):
    if op == '+':
        return a.copy()
    if op == '-':
        return Dense(a.tc, a.size, [-v for v in a.flat])
    if op == 'abs':
        t = 'd' if a.tc == 'z' else a.tc
        return Dense(t, a.size, [abs(v) for v in a.flat])
    raise AssertionError(op)


def iop(op, a, b):
    """In-place a <op>= b on the Dense a.  Allowed exactly when the regular result has the type (typecode and
    shape) of a, and for * only as scalar multiplication.  Mutates a; returns None / UNSPEC; raises Refused."""
    assert isinstance(a, Dense)
    if op == '**':
        return UNSPEC
    if op == '*' and isinstance(b, Dense) and not b.is11:
        if len(a) == 0 or len(b) == 0:
            return UNSPEC                      # product with an empty matrix: nothing observable
        raise Refused('type', 'in-place matrix-matrix products are not allowed')
    if op in ('+', '-') and isinstance(b, Dense) and a.is11 and not b.is11:
        raise Refused('size', 'in-place operation would change the size')
    r = binop(op, a, b)
    if r is UNSPEC:
        return UNSPEC
    if r.tc != a.tc:
        raise Refused('type', 'in-place operation would change the type')
    if r.size != a.size:
        raise Refused('size', 'in-place operation would change the size')
    a.flat[:] = r.flat
    return None


# --------------------------------------------------------------------------- cvxopt.mul / div / max / min
def _ewise(kind, a, b):
    """one pairwise step of mul/div/max/min on operands that are numbers or Dense."""
    ka, va, ta = _operand(a)
    kb, vb, tb = _operand(b)
    if kind in ('max', 'min') and 'z' in (ta, tb):
        return UNSPEC
    t = tcmax(ta, tb)
    if kind == 'div':
        t = tcmax('d', t)
    if ka == 'num' and kb == 'num':
        if kind in ('mul', 'div'):
            return UNSPEC
        return conv(max(va, vb) if kind == 'max' else min(va, vb), t)
    sa, sb = _scalar_of(ka, va), _scalar_of(kb, vb)
    if ka == 'mat' and kb == 'mat' and va.size == vb.size:
        size, xa, xb = va.size, va.flat, vb.flat
    elif ka == 'mat' and sa is None and sb is not None:
        size, xa, xb = va.size, va.flat, [sb] * len(va)
    elif kb == 'mat' and sb is None and sa is not None:
        size, xa, xb = vb.size, [sa] * len(vb), vb.flat
    elif sa is not None and sb is not None:
        size, xa, xb = (1, 1), [sa], [sb]
    else:
        raise Refused('size', 'matrices must have the same size')
    out = []
    for x, y in zip(xa, xb):
        x, y = conv(x, t), conv(y, t)
        if kind == 'mul':
            out.append(x * y)
        elif kind == 'div':
            if y == 0:
                raise Refused('zerodiv', 'division by zero')
            out.append(x / y)
        elif kind == 'max':
            out.append(max(x, y))
        else:
            out.append(min(x, y))
    return Dense(t, size, out)


def efun(kind, args, iterable=False):
    """cvxopt.mul / div / max / min called with the argument list `args` (after unpacking a single iterable)."""
    if len(args) == 0 or (iterable and len(args) == 1):
        return UNSPEC
    if len(args) == 1:
        a = args[0]
        if isinstance(a, Dense):
            if kind == 'max':
                return a.bmax()
            if kind == 'min':
                return a.bmin()
            if kind == 'mul':
                return a.copy()
        return UNSPEC
    if kind == 'div' and len(args) != 2:
        return UNSPEC
    r = args[0]
    for b in args[1:]:
        r = _ewise(kind, r, b)
        if r is UNSPEC:
            return UNSPEC
    return r


# --------------------------------------------------------------------------- elementwise functions
def elementwise(fn, a):
    """cvxopt.sqrt / exp / log / cos / sin of a dense matrix."""
    if not isinstance(a, Dense):
        return UNSPEC                           # the manual describes matrix arguments only
    t = 'z' if a.tc == 'z' else 'd'
    out = []
    for v in a.flat:
        v = conv(v, t)
        if t == 'd':
            if fn == 'sqrt':
                if v < 0:
                    raise Refused('domain', 'sqrt of a negative element')
                out.append(math.sqrt(v))
            elif fn == 'log':
                if v <= 0:
                    raise Refused('domain', 'log of a nonpositive element')
                out.append(math.log(v))
            else:
                out.append({'exp': math.exp, 'cos': math.cos, 'sin': math.sin}[fn](v))
        else:
            if fn == 'log':
                if v == 0:
                    raise Refused('domain', 'log of a zero element')
                out.append(cmath.log(v))
            else:
                out.append({'sqrt': cmath.sqrt, 'exp': cmath.exp, 'cos': cmath.cos, 'sin': cmath.sin}[fn](v))
    return Dense(t, a.size, out)
