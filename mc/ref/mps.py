"""Reference semantics of the fixed-format MPS subset that cvxopt.modeling.op.fromfile documents as supported.

Plain Python, no cvxopt.  Source of the semantics: the format description that doc/source/modeling.rst links to
(lp_solve "MPS file format", fixed format) restricted to what modeling.rst / the fromfile docstring say is supported:

  fields (1-based columns)  1: 2-3   2: 5-12   3: 15-22   4: 25-36   5: 40-47   6: 50-61
  sections NAME, ROWS, COLUMNS, RHS, RANGES, BOUNDS, ENDATA; lines starting with '*' and blank lines are ignored.

  ROWS      N (free row; the first one is the objective, further N rows define no constraint), L, G, E
  COLUMNS   field 2 column label, (field 3, field 4) and optionally (field 5, field 6) = (row label, coefficient)
  RHS       field 2 = label of the right-hand-side vector (only the first vector is read), then (row, value) pairs.
            An entry on the objective row gives MINUS the constant term of the objective.
  RANGES    (row, R) pairs:          row type   sign of R      lower          upper
                                        G        + or -         rhs         rhs + |R|
                                        L        + or -      rhs - |R|         rhs
                                        E           +           rhs         rhs + |R|
                                        E           -        rhs - |R|         rhs
            (R = 0 on an E row leaves the equality).  A range on an N row is not given a meaning -> flagged.
  BOUNDS    field 1 type, field 2 bound-vector label, field 3 column, field 4 value.  Default 0 <= x < +inf.
            LO b: b <= x     UP b: x <= b     FX b: x = b     FR: free     MI: -inf < x     PL: x < +inf
            Dialect-dependent (not given one meaning here, returned as alternatives):
              * UP b with b < 0 and no lower bound given for that column: lower bound 0 or -inf;
              * MI without an explicit upper bound for that column: upper bound +inf or 0.

parse(text)        -> dict (rows, objective, cols, coef, rhs, ranges, bounds), purely syntactic
constraint_sets(p) -> list of alternative canonical problems (one element unless a dialect-dependent construct
                      occurs); each is dict(cols, obj, const, groups) where groups is a list of
                      (tag, [('<', a, b) | ('=', a, b), ...]) with a = list of Fractions in column order:
                      a'x <= b  or  a'x = b.
canon(rows)        -> canonical multiset (sorted list) of normalised rows; opposite inequalities merged into an
                      equality, tautologies 0 <= b (b >= 0), 0 = 0 dropped, contradictions kept as ('!',).
"""
from fractions import Fraction as Fr
import itertools

FIELDS = ((1, 3), (4, 12), (14, 22), (24, 36), (39, 47), (49, 61))   # python slices


def fields(s):
    s = s.rstrip('\n')
    return [s[a:b].strip() for a, b in FIELDS]


def fmtnum(v, style=0):
    """12-character numeric field."""
    if style == 0:
        t = '%.12g' % v
        if 'e' not in t and '.' not in t:
            t += '.'
    elif style == 1:
        t = '% .5E' % v
    else:
        t = repr(float(v))
    assert len(t) <= 12, t
    return t.rjust(12)


def line(f1='', f2='', f3='', f4=None, f5=None, f6=None, style=0):
    """One fixed-format data line."""
    assert len(f1) <= 2 and len(f2) <= 8 and len(f3) <= 8
    s = ' ' + f1.ljust(2) + ' ' + f2.ljust(8) + '  ' + f3.ljust(8)
    if f4 is not None:
        s += '  ' + fmtnum(f4, style)
        if f5 is not None:
            assert len(f5) <= 8
            s += '   ' + f5.ljust(8) + '  ' + fmtnum(f6, style)
    return s.rstrip() + '\n'


def _num(t):
    return Fr(float(t))      # exact binary value of what a double-precision reader obtains


def parse(text):
    rows, cols, coef, rhs, ranges, bounds = [], [], {}, {}, {}, []
    name = None
    section = None
    rhslabel = rangelabel = boundlabel = None
    ended = False
    for raw in text.split('\n'):
        if not raw.strip() or raw[0] == '*':
            continue
        if raw[0] != ' ':
            key = raw.split()[0]
            if key == 'NAME':
                name = raw[14:22].strip()
                section = 'NAME'
            elif key in ('ROWS', 'COLUMNS', 'RHS', 'RANGES', 'BOUNDS'):
                section = key
            elif key == 'ENDATA':
                ended = True
                break
            else:
                raise ValueError('unknown section %r' % key)
            continue
        f = fields(raw)
        if section == 'ROWS':
            if f[0] not in ('N', 'L', 'G', 'E'):
                raise ValueError('row type %r' % f[0])
            rows.append((f[1], f[0]))
        elif section == 'COLUMNS':
            col = f[1]
            if col not in cols:
                cols.append(col)
            for rl, v in ((f[2], f[3]), (f[4], f[5])):
                if rl:
                    if rl not in [r[0] for r in rows]:
                        raise ValueError('unknown row %r' % rl)
                    coef[(rl, col)] = _num(v)
        elif section == 'RHS':
            if rhslabel is None:
                rhslabel = f[1]
            if f[1] != rhslabel:
                continue
            for rl, v in ((f[2], f[3]), (f[4], f[5])):
                if rl:
                    rhs[rl] = _num(v)
        elif section == 'RANGES':
            if rangelabel is None:
                rangelabel = f[1]
            if f[1] != rangelabel:
                continue
            for rl, v in ((f[2], f[3]), (f[4], f[5])):
                if rl:
                    ranges[rl] = _num(v)
        elif section == 'BOUNDS':
            if boundlabel is None:
                boundlabel = f[1]
            if f[1] != boundlabel:
                continue
            if f[0] not in ('LO', 'UP', 'FX', 'FR', 'MI', 'PL'):
                raise ValueError('bound type %r' % f[0])
            if f[2] not in cols:
                raise ValueError('unknown column %r' % f[2])
            bounds.append((f[0], f[2], _num(f[3]) if f[0] in ('LO', 'UP', 'FX') else None))
        else:
            raise ValueError('data line outside a section')
    if not ended:
        raise ValueError('no ENDATA')
    objective = None
    for lab, t in rows:
        if t == 'N':
            objective = lab
            break
    return {'name': name, 'rows': rows, 'objective': objective, 'cols': cols, 'coef': coef, 'rhs': rhs,
            'ranges': ranges, 'bounds': bounds}


NEG_INF, POS_INF = 'neginf', 'posinf'


def column_bounds(p):
    """{col: (lower alternatives, upper alternatives, tag)}; an alternative is a Fraction or NEG_INF / POS_INF."""
    out = {}
    for c in p['cols']:
        bl = [(t, v) for (t, cc, v) in p['bounds'] if cc == c]
        types = [t for t, v in bl]
        lo, up = [Fr(0)], [POS_INF]
        lo_given = up_given = False
        for t, v in bl:
            if t == 'LO':
                lo, lo_given = [v], True
            elif t == 'UP':
                up, up_given = [v], True
            elif t == 'FX':
                lo, up, lo_given, up_given = [v], [v], True, True
            elif t == 'FR':
                lo, up, lo_given, up_given = [NEG_INF], [POS_INF], True, True
            elif t == 'MI':
                lo, lo_given = [NEG_INF], True
            elif t == 'PL':
                up, up_given = [POS_INF], True
        if 'UP' in types and not lo_given and up[0] < 0:
            lo = [Fr(0), NEG_INF]                      # dialect-dependent
        if 'MI' in types and not up_given:
            up = [POS_INF, Fr(0)]                      # dialect-dependent
        out[c] = (lo, up, '+'.join(types) if types else 'default')
    return out


def constraint_sets(p):
    cols = p['cols']
    n = len(cols)
    idx = {c: j for j, c in enumerate(cols)}
    types = {}
    for lab, t in p['rows']:
        types.setdefault(lab, t)
    objl = p['objective']

    def rowvec(lab):
        a = [Fr(0)] * n
        for (rl, c), v in p['coef'].items():
            if rl == lab:
                a[idx[c]] = v
        return a

    neg = lambda a: [-v for v in a]
    obj = rowvec(objl) if objl is not None else [Fr(0)] * n
    const = -p['rhs'].get(objl, Fr(0)) if objl is not None else Fr(0)
    groups = []
    flags = []
    for lab, t in p['rows']:
        if t == 'N':
            if lab in p['ranges']:
                flags.append('range-on-N-row')
            continue
        a = rowvec(lab)
        b = p['rhs'].get(lab, Fr(0))
        R = p['ranges'].get(lab)
        rs = 'none' if R is None else ('R<0' if R < 0 else ('R=0' if R == 0 else 'R>0'))
        tag = 'row:%s:%s' % (t, rs)
        if t == 'L':
            g = [('<', a, b)]
            if R is not None:
                g.append(('<', neg(a), -(b - abs(R))))
        elif t == 'G':
            g = [('<', neg(a), -b)]
            if R is not None:
                g.append(('<', a, b + abs(R)))
        else:
            if R is None or R == 0:
                g = [('=', a, b)]
            elif R > 0:
                g = [('<', neg(a), -b), ('<', a, b + R)]
            else:
                g = [('<', neg(a), -(b + R)), ('<', a, b)]
        groups.append((tag, g))
    cb = column_bounds(p)
    alts = []
    per_col = []
    for c in cols:
        lo_alts, up_alts, tag = cb[c]
        per_col.append([(c, lo, up, tag) for lo in lo_alts for up in up_alts])
    for combo in itertools.product(*per_col):
        bg = []
        for c, lo, up, tag in combo:
            e = [Fr(0)] * n
            e[idx[c]] = Fr(1)
            g = []
            if lo != NEG_INF and lo == up:
                g.append(('=', e, lo))
            else:
                if lo != NEG_INF:
                    g.append(('<', neg(e), -lo))
                if up != POS_INF:
                    g.append(('<', e, up))
            bg.append(('bound:%s' % tag, g))
        alts.append({'cols': cols, 'obj': obj, 'const': const, 'groups': groups + bg, 'flags': flags})
    return alts


def norm_row(kind, a, b):
    """normalised row: inequality scaled by 1/|first nonzero|, equality by 1/(first nonzero)."""
    a = [Fr(v) for v in a]
    b = Fr(b)
    piv = None
    for v in a:
        if v != 0:
            piv = v
            break
    if piv is None:
        if kind == '<':
            return None if b >= 0 else ('!',)
        return None if b == 0 else ('!',)
    s = piv if kind == '=' else abs(piv)
    return (kind, tuple(v / s for v in a), b / s)


def canon(rows):
    """canonical sorted multiset of normalised rows (see module docstring)."""
    rs = []
    for kind, a, b in rows:
        r = norm_row(kind, a, b)
        if r is not None:
            rs.append(r)
    out = []
    used = [False] * len(rs)
    for i, r in enumerate(rs):
        if used[i]:
            continue
        if r[0] == '<':
            opp = ('<', tuple(-v for v in r[1]), -r[2])
            j = None
            for k in range(i + 1, len(rs)):
                if not used[k] and rs[k] == opp:
                    j = k
                    break
            if j is not None:
                used[i] = used[j] = True
                out.append(norm_row('=', r[1], r[2]))
                continue
        used[i] = True
        out.append(r)
    return sorted(out)


def canon_problem(alt):
    rows = [r for tag, g in alt['groups'] for r in g]
    return canon(rows)
